#!/usr/bin/env python3
"""writes seeded/README.md: one row per packaged seeded change (from seeded/*/meta.json)"""
import glob
import json
import os

rows = []
for d in sorted(glob.glob('/verif/seeded/*/meta.json')):
    m = json.load(open(d))
    patch = open(os.path.dirname(d) + '/patch.diff').read()
    files = sorted({l.split(' b/')[1].strip().replace('src/thefittest/', '') for l in patch.splitlines() if l.startswith('diff --git')})
    as_stood = m['history'].startswith('caught by')
    rows.append((m['id'], ", ".join(files), "-" if as_stood else "yes", m['history']))
out = ["# Seeded changes", "",
       "Each directory holds `patch.diff` (apply with `git -C /repo apply`, undo with `git -C /repo checkout -- .`), `demo.py` (exits 0 on the",
       "unchanged tree, non-zero with the change), `notes.txt` (the author's description: which clause breaks and what it needs to manifest) and",
       "`meta.json`. None of them is part of sherstpasha/thefittest. Every change was written by a sub-agent that saw only the property text and a",
       "scratch worktree, compiles, passes the 36 pinned tests, and is reported by `./check <property>` with a concrete failing input.", "",
       f"{len(rows)} changes; for {sum(1 for r in rows if r[2] == 'yes')} of them the check had to be strengthened first (column 3).", "",
       "| id | file(s) changed | check strengthened | how it is caught |", "|---|---|---|---|"]
for r in rows:
    out.append(f"| {r[0]} | {r[1]} | {r[2]} | {r[3]} |")
open('/verif/seeded/README.md', 'w').write("\n".join(out) + "\n")
print(len(rows), "rows;", sum(1 for r in rows if r[2] == 'yes'), "needed strengthening")
