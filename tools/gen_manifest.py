#!/usr/bin/env python3
"""Regenerates /verif/MANIFEST.json from the table below (single source of truth for the checks)."""
import json
from pathlib import Path

V = Path(__file__).resolve().parent.parent
props = [json.loads(l) for l in (V / "properties.jsonl").read_text().splitlines() if l.strip()]

TB = ("Lean 4.33 kernel; axioms ⊆ {propext, Classical.choice, Quot.sound} (audited per theorem on every run); "
      "hand-written model tied to /repo by the correspondence streams of the same check (bounded case counts in the evidence); "
      "Python harness, Driver.lean JSON protocol, 1e-9 tolerance Rat vs double; numba/LLVM, IEEE-754, numpy/scipy modelled not verified")

# id -> (category, text, design_ref, technique, extra trusted/assumed note)
CHECKS = {
    "C01": ("proof",
            "Lean theorems C01_* on the EA state machine (both replacement flavours, every objective, g2p, initial population and variation oracle = every seed/operator choice, every generation boundary): the record is an evaluated individual, its fitness the maximum over the whole evaluation log, ph = g2p g, fit = sign·f ph; heap theorems: a stored copy is immune to all later in-place writes (alias counterexample proved). Tied to the ten optimizers by trace replay: the observed offspring batches drive the model, which must agree with the implementation at every generation boundary.",
            "§6 C01", "Lean 4 proof (invariant by induction over generations) + trace-replay correspondence", "order-only model on Int keys: finite doubles embed order-isomorphically (NaN excluded)"),
    "C02": ("proof",
            "Lean theorems C02_*: best-so-far monotone for every pair of generation boundaries; with elitism the last slot holds the record; every slot is index-aligned (ph = g2p g, fit = f ph); in the greedy flavour one step never lowers a slot and overwrites it only by its own at-least-as-good trial or the elite. Tied by trace replay of all ten optimizers incl. the observed trial batches of DE/jDE/SHADE/SHAGA.",
            "§6 C02", "Lean 4 proof + trace-replay correspondence", "as C01"),
    "C03": ("proof",
            "Lean theorems C03_*: the k-th boundary has evaluated (k+1)·pop_size individuals and made k callbacks, at most max(iters,1) boundaries, get_remains_calls formula; the run stops at the FIRST boundary meeting the rule and never earlier; aim on the correct side for min/max; stagnation counter semantics. Tied by trace replay with the true evaluation counts from a fitness wrapper and stopping scenarios at first/middle/last/never generations.",
            "§6 C03", "Lean 4 proof + trace-replay correspondence", "float subtraction in the aim (sign*optimal - err) is observed, the side lemma is over Int"),
    "C05": ("proof",
            "Lean theorem C05_dual: for every configuration and oracle the whole normalised trajectory of (minimization, f) equals that of (maximization, -f), C05_aim: v / -v give the same aim. The code's single point of sign application is what the tie checks: paired runs of all ten optimizers compared generation by generation incl. adaptation state, both traces replayed through the model.",
            "§6 C05", "Lean 4 proof + differential paired runs + trace replay", "as C01"),
    "C17": ("proof",
            "Lean theorems C17_history / C17_first_entry (one entry per executed generation, none without keep_history, entries only ever appended, max = first arg-max of the entry, population_g[0] = init) and heap theorems C17_snapshots / C17_inputs / C17_get (copies are immune to later writes; caller arrays untouched; returned objects are fresh). Tied by deep snapshots taken at record time vs final get_stats(), np.shares_memory, caller-owned init_population compared before/after, for all ten optimizers.",
            "§6 C17", "Lean 4 proof (state machine + heap model) + trace validation", "Python aliasing is modelled by an explicit heap; that the code follows the copy discipline is observed (shares_memory, snapshots), not proved"),
    "C06": ("proof",
            "Lean theorems C06_* over all parent tuples, lengths and random choices: every crossover returns at each locus a gene of a supplied parent (hence binary closure), named structures (clone; prefix+suffix for one cut; inclusive segment for two cuts; per-locus choice; binomial with forced locus) as equalities, surjectivity onto every child of that structure, flip semantics and the rate extremes, closure of a whole variation step for GA/SelfCGA/PDPGA and SHAGA. Tied by exact replay of every operator with mirrored RNG draws, outcome-set coverage on small strings, pool tables of live instances, and recording wrappers in the pools of live optimizers.",
            "§6 C06", "Lean 4 proof + exact operator correspondence (mirrored draws) + wiring observation", ""),
    "C07": ("proof",
            "Lean theorems C07_* over Rat: clamp / parent-midpoint repair land in any box with left ≤ right and change only outside coordinates; binomial structure; donor lengths, coordinate forms and F = 0 collapse for all six strategies; every DE/jDE/SHADE trial is in the box; greedy replacement and the box invariant over any number of generations. Tied by exact correspondence of repair, donors (integer populations, dyadic F, mirrored index draws) and binomial, and by runs of DE/jDE/SHADE on objectives that reward leaving the box over scalar/per-coordinate/degenerate/asymmetric boxes.",
            "§6 C07", "Lean 4 proof + exact operator correspondence + box observation on runs", "linear donor forms hold over Rat; doubles are compared on exactly representable inputs"),
    "C08": ("proof",
            "Lean theorems C08_* for all trees, arity mixes and random choices: subtree/concat preserve well-formedness; depth of a splice bounded by hole level + depth; standard (with its guard), one-point and uniform crossover (through the common-region theory), point, grow, swap (argument permutation), shrink mutation and the initialisers are closed under WF and the depth bound, with their naming clauses. Tied by exact replay of every operator with mirrored random choices on exhaustive small shapes and random trees, independent naming-clause oracles, and GP/SelfCGP/PDPGP runs over the operator pool with every evaluated tree checked (NUMBA_BOUNDSCHECK=1).",
            "§6 C08", "Lean 4 proof (rose-tree refinement of the flat encoding) + exact operator correspondence", ""),
    "C09": ("proof",
            "Lean theorems C09_*: the scan behind find_end_subtree consumes exactly one subtree per open slot; flat lists of rose trees are exactly the well-formed lists (parser, injectivity, contexts); subtree/concat/get_args_id/get_levels/get_max_level equal their recursive definitions; concat∘subtree = id; stack evaluation and printing equal the recursive meaning; batch = pointwise; set_terminals rebinding; structural equality; the coded two-tree and k-tree common-region loops equal the recursive definition. Tied by exhaustive correspondence over all tree shapes up to a size bound and every node index, an independent recursive reference, and the function table against math.",
            "§6 C09", "Lean 4 proof + exhaustive small correspondence; numeric function table by reference (exploration)", "the named numeric functions are floats: compared against Python's math, not proved"),
    "C04": ("proof",
            "Lean theorems C04_* on the stream model: a seeded run is independent of the prior states of both numba generator streams (the first action overwrites both and nothing else is read); an integer seed and a RandomState object in the same state give the same key; determinism of the body; the unseeded counterexample; plus the REGENERATED obligation C04_rng_sites — every random-number call site of the current source is inside an @njit function (seeded numba stream) or whitelisted — re-proved by decide on every run. Run equality itself is observed: each optimizer and estimator twice with identical arguments and seed under perturbation of all four generators with another optimizer run in between, bit-identical per generation.",
            "§6 C04", "Lean 4 proof of the seeding discipline + regenerated call-site obligation; run equality by differential double runs (partial)", "equality of two executions of JIT-compiled numeric code is observed, not proved; the generators are parameters; n_jobs>1 with stochastic genotype_to_phenotype is outside the quantifier"),
    "C10": ("proof",
            "Lean theorems C10_* (bit/Gray round trips for all widths, one-bit adjacency of successive Gray codes, grid formula, endpoints, box, injectivity, encode∘decode = id, decode∘encode nearest grid point, fixed output length, bits-from-step) over exact rationals; tied to SamplingGrid/GrayCode by exhaustive correspondence over all bit strings of small widths and all small bits-per-variable vectors.",
            "§6 C10", "Lean 4 proof + exact model/implementation correspondence (exhaustive small widths)", "np.rint ties and float rounding of left+h*k observed at 1e-9, not proved"),
    "C12": ("proof",
            "Lean theorems C12_*: for EVERY net and every schedule passing the decidable certificate validSchedule with the softmax nodes in one group, the buffer after the forward pass satisfies the node equations (activation of the weighted sum over all incoming connections, duplicates adding, softmax joint); the result is independent of the previous buffer contents; forward(X, W) with a reused buffer equals one fresh pass per weight row; permuting connections with their weights changes nothing; softmax lies on the simplex; the split-softmax counterexample (finding F13). The implementation's own schedule is checked by the certificate on every net (per-instance), and evaluated by the model in floating point against Net.forward.",
            "§6 C12", "Lean 4 proof modulo a per-instance schedule certificate + Float correspondence + independent reference", "floats (exp, tanh, summation order) compared at 1e-9; theorems over Rat with abstract activations"),
    "C13": ("proof",
            "Lean theorems C13_*: every well-formed tree over {+, >} with input-block and hidden-block terminals decodes to a net passing validNet (unique layer-increasing edges, coverage, reachability, activations, disjointness) whose outputs share one source set; on a valid net the `while calculated != purpose` loop terminates within |nodes| passes and returns a valid schedule; shared sources ⇒ joint softmax; the MLP builder's edges are a permutation of the layered specification. Tied by exhaustive correspondence of decoder and builder (canonicalised nets + schedules) over all small trees and hidden tuples, an independent validity oracle, and trained weights of all six weight optimizers.",
            "§6 C13", "Lean 4 proof + exhaustive small correspondence", "finite forward output is a float fact: observed only"),
    "C14": ("proof",
            "Lean theorems C14_* over Rat: the SelfC* update keeps a strictly positive distribution of the same length with every entry ≥ thr/S, 1 ≤ S ≤ 1+z·thr+K/iters (documented rule entry by entry; invariant over any number of generations); the fittest-operator choice; the PDP* update is a distribution with every entry ≥ thr exactly and unused operators at the floor; draws land in the support / the interval of the cumulative distribution; the next generation's operators are drawn from the UPDATED distribution. Tied by wrappers around _adapt/_choice_operators/_get_new_individ_g of live SelfCGA/SelfCGP/PDPGA/PDPGP: every generation's update recomputed by the model at 1e-9, draws recomputed from mirrored uniforms, the triple applied to each individual compared with the one drawn for it.",
            "§6 C14", "Lean 4 proof (exact rationals) + per-generation trace validation", "probabilities are doubles: the sum is 1 up to rounding; group-mean ties compared on integer-valued fitness only"),
    "C15": ("proof",
            "Lean theorems C15_* over Rat: truncated draws land in (0,1] / [0,1] / (0,5/L] for every draw stream; jDE ranges and acceptance rule; weighted Lehmer and arithmetic means stay in range (0 for a vanishing denominator); memory-cell updates preserve the ranges; the ring buffer writes exactly the cyclic successor cell and the range invariant holds for any number of generations incl. wrap-around; archive bound and content. Tied by wrappers around _get_new_population of live SHADE/SHAGA/jDE: per generation the written cell is recomputed by the model at 1e-9, ranges/ring/archive/acceptance are checked on the observed state.",
            "§6 C15", "Lean 4 proof (exact rationals) + per-generation trace validation", "Cauchy/normal samplers are parameters: only their ranges after truncation are used"),
    "C16": ("proof",
            "Lean theorems C16_* (any strictly increasing cut points partition; truncated perturbed linspace points are strictly increasing from 0 to pop; n_jobs normalisation lands in [1,pop], 0 rejected; chunked row-wise evaluation reassembled by chunk index equals whole evaluation for every arrival order); tied to _get_n_jobs/_split_population by exact correspondence over ALL (pop_size, n_jobs) pairs up to a bound and by runs with n_jobs>1 under forced worker reorderings.",
            "§6 C16", "Lean 4 proof of the partition logic + exhaustive correspondence + differential runs (schedules partial)", "joblib returning results in submission order is modelled and observed under forced completion reorderings, not proved"),
    "C18": ("proof",
            "Lean theorems C18_*: label coding is a bijection between seen labels and codes (sorted distinct classes; decode∘encode = id and back), arg-max returns the first maximal valid column, predict returns the original class label of the arg-max column, the sigmoid pair lies on the simplex, reserved optimizer arguments are rejected and all others accepted, bias column, budget; predict = evaluate∘rebind and forward = node equations are C09/C12, the evaluation count is C03. The glue is observed: all six estimators (harness-side stand-in for the removed scikit-learn validation method), every weight/structure optimizer and several functional sets, string and non-contiguous integer labels: predict vs independent evaluation of tree_/net_, training error vs reported best fitness, predict_proba rows, purity of predict, wrong feature count, same seed same model, inputs/params unchanged, reserved arguments.",
            "§6 C18", "Lean 4 proof of the logical core + exploration of the library glue (partial)", "scikit-learn validators/encoders and the float pipeline are trusted/observed"),
    "C19": ("proof",
            "Lean theorems C19_* (the coded accumulation loops compute the textbook TP/FN/FP counts; recall, precision, F1, accuracy, confusion matrix equal their definitions for every admissible label vector; r2/mse facts; batch = rows); tied to the numba kernels by exact-rational correspondence exhaustive over all admissible label-vector pairs of small length, plus an independent reference (scikit-learn / formulas).",
            "§6 C19", "Lean 4 proof + exhaustive small correspondence + independent reference", "sqrt/log are not modelled in Rat: rmse via its square, cross-entropy compared to a float reference (target-clipping gap reported)"),
    "C11": ("proof",
            "Lean theorems C11_* (binary search = first cumulative value ≥ roll, weight/interval measure, rejection sampling, tournament rank, randint/uniform ranges, Sattolo single n-cycle, p-best, min-max) for all vectors and all draws; tied to the code by exact correspondence on exhaustive {0,1,2}^n lattices and by mirrored-draw replay of the stochastic primitives.",
            "§6 C11", "Lean 4 proof + exact model/implementation correspondence (exhaustive small lattices, mirrored RNG draws)", ""),
    "C20": ("proof",
            "Lean theorems C20_*: with the per-call copy discipline the shared shift table is never altered and every call of every history uses the shift determined by the pristine table and its own D (C20_pure_copy); F8's in-place update is provably history independent; the in-place F5/F20 updates are not (counterexamples by decide = finding F10, repaired); F5's shift is the CEC prescription; rows are independent; Sphere, Schwefel 1.2, Elliptic, Rosenbrock, Rastrigin, Griewank, Weierstrass are ≥ 0 with equality at their centre (bounded-cosine parameters), shifted problems ≥ bias with equality at the shift, the hybrid composition ≥ f_bias with equality at the first optimum. Tied by fresh spawned interpreters vs long interleavings, rows vs batch, argument checksums, lower bound and attainment at the CEC2005 reference optimum, and the model's effective shift after a history.",
            "§6 C20", "Lean 4 proof of purity/bookkeeping and real-valued bounds + differential fresh-vs-history runs (float values partial)", "matmul/cos/exp are floats: values observed at relative 1e-9; Ackley, Schwefel 2.6/2.13, Scaffer bounds are not modelled (observed only)"),
}

NOT_YET = "check under construction in this session; not yet registered"

# kernels / methods of /repo re-translated to Lean on every run (harness/extract/py2lean.py) and proved equal to the model
SRC = {
    "C01": "TheFittest._replace, TheFittest._update (= Rec.update), TheFittest.get (genotype, phenotype, fitness in that order), the order of one evaluation step of the base class (phenotypes, fitness, record update, then the elite into the last slot)",
    "C02": "TheFittest._update (= Rec.update; the record never decreases); the greedy replacement block of DifferentialEvolution / jDE (= EA.merge: one mask from the old fitness decides genotype, phenotype and fitness of a slot together); the elitism step of the base class (the record's triple written into the last slot of all three arrays, after the record was updated)",
    "C03": "TheFittest._update (stagnation counter), _termitation_check (= Cfg.stop), get_remains_calls (= Cfg.remains), the method-call skeleton of fit() (stops at the first consultation at which the rule holds; one evaluation per generation; one callback per generation after the first), _get_aim (= sign * optimal_value - termination_error_value; with _termitation_check and _get_fitness: the aim rule fires exactly when the objective is within the error on the correct side, for minimisation and maximisation)",
    "C05": "_get_fitness: the sign is applied exactly once to every objective value (= Cfg.fitOf), the evaluation counter advances by their number",
    "C06": "flip_mutation, binomialGA, one_point / two_point / uniform / uniform_proportional / uniform_rank / empty crossover (random draws as explicit streams; the ARGUMENTS each passes to random_sample / random_weighted_sample are part of the statements - one cut below the string length, two DISTINCT cuts, weights = fitness / rank, one parent index per locus); GeneticAlgorithm._get_new_individ_g (the wiring of one offspring: selection on scaled fitness and ranks, crossover of the selected rows, mutation of its result) and SHAGA._get_new_individ_g (tournament of two keyed on the fitness, binomialGA with the current individual first, flip mutation)",
    "C07": "bounds_control (coordinate-wise clamp), binomial, the donor strategies best_1 / rand_1 / rand_to_best1 / current_to_best_1 / best_2 / rand_2 / current_to_pbest_1_archive (= DE.donor / currentToPbest1 on the rows named by random_sample, read over the ring Int; with random_sample as translated: DISTINCT members, asked for without replacement); DifferentialEvolution._get_new_individ_g / SHADE._get_new_individ_g (the wiring of one trial: donor from parent/best/population/F, binomial with the parent first under CR, boundary repair - so the trial is in the box whatever donor and crossover return); find_pbest_id (= Select.pbest: the first max(1, count) entries of the translated argsort_k)",
    "C08": "get_levels_tree_from_i (= levels, for every arity array); the Python-level operator shrink_mutation (= shrinkMut at the drawn position and argument, through the translated Tree methods); Tree.get_levels / get_max_level (= levels / depth) and the Python-level operator standard_crossover (= standardX at the drawn positions and coin; child well-formed, no deeper than max_level, one subtree transplanted or a parent); Tree.get_common_region for two trees (= commonRegion2) and one_point_crossoverGP (= onePointX at the drawn common-region position; child well-formed, no deeper than the deeper parent); growing_mutation (= growMut with the fresh tree grown under the budget max(get_levels(i)) = depth of the replaced subtree; with a grower that respects its budget the child is no deeper than the parent); point_mutation (= pointMut: exactly the drawn node replaced, arity array untouched, replacement drawn for the arity recorded in the node); swap_mutation (= swapMut at the drawn multi-argument node with the inverse of the sattolo shuffle: the argument subtrees of one node permuted, spliced from the last position to the first); Tree.full_growing_method / growing_method (= the model-side stack run growRun, whose result growInit accepts unchanged: well-formed, no deeper than max_level); GeneticProgramming._get_new_individ_g (the wiring of one offspring)",
    "C09": "Tree.__call__ and Tree.__str__ (the reversed stack pass; node class test, application / formatting of a symbol, arity attribute and terminal value / name as function parameters on node identifiers: on the prefix encoding of every rose tree whose nodes carry their recorded arity no pop underflows and the result is the denotational value evalRT of the tree), Tree._init_n_args (the recorded arity array = the nodes' own arities, position by position); find_end_subtree_from_i, find_id_args_from_i, find_first_difference_between_two, common_region_two_trees, Tree.subtree_id / subtree / concat, Tree.get_levels / get_max_level (= levels / depth), Tree.get_common_region for two trees (= commonRegion2) (equal to the model on every well-formed tree, with no out-of-range access)",
    "C10": "the vectorised kernels SamplingGrid.bit_to_int / _decode and GrayCode.gray_to_bit / bit_to_gray / _decode (whole-array numpy code read through TFV.Model.Np: on every rectangular 0/1 array they compute, row by row, bitsToNat / grayToBin / binToGray / code of the model; the two Gray conversions are mutually inverse) and the encoder SamplingGrid.int_to_bit (= natToBits w of every code for every given width w >= 1; encode then decode through the regenerated kernels returns the codes, directly and through the Gray code)",
    "C11": "binary_search_interval, check_for_value, argsort_k, tournament_selection (incl. the arguments it passes to random_sample: len(fitness), tour_size, replace=False), proportional_selection / rank_selection (weights = fitness / rank, with replacement), sattolo_shuffle, random_sample, random_weighted_sample; minmax_scale (= Select.minmax on every non-empty vector, floats read as rationals; the empty vector is rejected)",
    "C14": "SelfCGA._get_new_proba (= SelfConf.newProba over the rationals: the winner gains K/iters, every entry loses K/(z*iters), clip to [threshold, 1], renormalise - the table read as its value vector in key order, the winner as the position of its key; a winner that is not a key is rejected); SelfCGA._adapt (the wiring of one adaptation step: each table updated once from the operators of its own kind with its own threshold; the next operators drawn from the updated table of their own kind); PDPGA / PDPGP._adapt (with remembered parents: success flags recomputed first, each table updated once from the operators of its own kind with its own threshold, memory emptied; in every call the next operators are drawn from the current table of their own kind); PDPGA / PDPGP._get_new_individ_g (one remembered parent fitness per offspring, picked among the raw fitness of the selected parents)",
    "C15": "SHADE._generate_F_CR and SHAGA._generate_MR_CR (the two parameters of individual i from one drawn memory cell, both memories read in range) and SHADE._update_u_F (Lehmer mean of the successful F's, a copy of the old cell when there were none); SHADE._update_u_CR (= Adapt.updateCR: improvement-weighted arithmetic mean, a copy without successes or without positive total improvement) and SHAGA._update_u (= Adapt.updateU: improvement-weighted Lehmer mean), lehmer_mean itself with and without weights (= Adapt.lehmer / lehmer1; 0 when the denominator vanishes) and their composition, SHAGA._randn (= the drawn Cauchy value clamped to [0, 1]) and SHAGA._randc (= the first of the successive Cauchy values in (0, 5/str_len]; the while loop as a fuel-bounded recursion), over the rationals; jDE's greedy block (an individual's F and CR change exactly when its trial is accepted); jDE._get_mutate_F / _get_mutate_CR (position by position: kept where the first draw is not below the rate, F_min + r * F_max resp. r for a value r of the second draw elsewhere - so a regenerated F lies in [F_min, F_min + F_max] and a regenerated CR in [0, 1)); SHADE's whole bookkeeping after the evaluation (archive receives the parents replaced by strictly better trials; successful parameters and improvements; memory cell k read, its cyclic successor written in both memories, index advanced to it)",
    "C16": "EvolutionaryAlgorithm._get_n_jobs (= normJobs), _split_population (= Split.split on the points np.linspace(0, pop_size, n_jobs + 1) - which points are asked for is part of the statement; with C16_split the chunks are non-empty and cover the population once)",
    "C17": "EvolutionaryAlgorithm._update_data (what is recorded per generation: the generation's own series, and max_fitness / max_g / max_ph taken at the same index, the first maximum of the fitness series)",
    "C20": "the elementwise numpy code of OneMax.f, Sphere.f, Schwefe1_2.f, Rosenbrock.f, Rastrigin.f (floats read as field elements through TFV.Model.NpQ, cos(2*pi*a) a parameter: on every rectangular population they compute, row by row, sum / sphere / schwefel12 / rosenbrock / rastrigin of the model, whose bounds and optima C20_sphere ... C20_rastrigin prove)",
    "C19": "the integer counting loops of recall_score, precision_score and f1_score (= recallLoop / precisionLoop / f1Loop; in range on admissible labels); accuracy_score (equality mask, integer cast, mean = Metrics.accuracy for equally long non-empty label vectors; other inputs rejected); the mean squared error inside root_mean_square_error (= Metrics.mse; the square root is taken of exactly that value); coefficient_determination (= Metrics.r2 over the rationals, the literal 1e-10 read as 1/10^10; the second disjunct of its constant-target test adds nothing in exact arithmetic)",
}


def main():
    checks, na = [], []
    for p in props:
        pid = p["id"]
        if pid in CHECKS:
            cat, text, ref, tech, extra = CHECKS[pid]
            if pid in SRC:
                text += (" Source tie: on every run " + SRC[pid] + " are translated from the current source into Lean and the theorems "
                         + pid + "_src_* prove the translation equal to the model (DESIGN §4.4).")
                tech += " + source translation with equivalence theorems"
                extra = (extra + "; " if extra else "") + "the translator's reading of the Python subset is trusted for the _src_ theorems"
            checks.append({
                "property_id": pid,
                "quick_cmd": f"./check {pid} --tier quick",
                "thorough_cmd": f"./check {pid} --tier thorough",
                "evidence_file": f"/verif/evidence/{pid}.json",
                "replay_cmd_template": f"./check {pid} --replay {{path}}",
                "engine": "lean-tfv",
                "level_claimed": {"category": cat, "text": text, "design_ref": ref},
                "level_note": TB + (("; " + extra) if extra else ""),
                "technique": tech,
            })
        else:
            na.append({"property_id": pid, "reason": NOT_YET})
    m = {
        "version": 1,
        "setup_cmd": "cd /verif/lean && lake build",
        "hooks": {
            "guard": "THEFITTEST_VERIF",
            "enable": "no source hooks: every observation point is reached from outside (wrappers on live instances, .py_func of njit functions)",
            "baseline_off_cmd": "cd /repo && /venv/bin/python -m pytest -ra -q -p no:cacheprovider --timeout=900 --continue-on-collection-errors",
            "source_commits": [],
            "add_only": True,
        },
        "engines": [{
            "name": "lean-tfv", "path": "/verif/lean",
            "serves_properties": sorted(CHECKS),
            "kind_free_text": "Lean 4 library TFV: executable models (TFV/Model), lemmas, property theorems (TFV/Properties), JSON line-protocol driver (Driver.lean) used by the Python correspondence harness (/verif/harness)",
        }],
        "checks": checks,
        "not_applicable": na,
        "notes": "Every check: (re-translation of the listed kernels from the current source where the property has a source tie,) lake build of the property's modules, forbidden-token grep, #print axioms audit, model-vs-implementation correspondence, property oracle on the implementation's own outputs. Verdict protocol in DESIGN.md §2.1.",
    }
    (V / "MANIFEST.json").write_text(json.dumps(m, indent=1, ensure_ascii=False) + "\n")
    print("checks:", [c["property_id"] for c in checks], "not_applicable:", len(na))


if __name__ == "__main__":
    main()
