"""Property oracles on recorded optimizer runs (S4) for C01, C02, C03, C17 and the shared main."""
from __future__ import annotations

import copy
import math

import numpy as np

import common as C
import ea_trace as T


def feats(rec, clause):
    return {"optimizer": rec.cls_name, "clause": clause}


# ----------------------------------------------------------------------------- C01
def oracle_c01(chk, rec):
    sign = -1.0 if rec.cfg.get("minimization") else 1.0
    seen = 0
    evaluated = []  # (ph id, normalised value) in evaluation order
    per_gen_counts = np.cumsum(rec.batch_sizes)
    flat = [(p, sign * v) for pk, vals in rec.calls for p, v in zip(pk, vals)]
    for k, s in enumerate(rec.snaps):
        upto = s["evaluated_so_far"]
        ev = flat[:upto]
        mx = max(v for _, v in ev)
        d = {"run": T.describe(rec), "generation": k}
        if s["best_fit"] != mx:
            chk.fail("reported best fitness is not the maximum over everything evaluated so far",
                     {**d, "reported": s["best_fit"], "max_evaluated": mx}, feats(rec, "max"))
        if not any(p == s["best_ph"] and v == s["best_fit"] for p, v in ev):
            chk.fail("reported phenotype is not an evaluated individual attaining the reported fitness", d, feats(rec, "evaluated"))
        if rec.g2p_table.get(s["best_g"]) != s["best_ph"]:
            chk.fail("reported phenotype is not the genotype-to-phenotype image of the reported genotype", d, feats(rec, "g2p"))
        if s["shares"]:
            chk.fail("the record shares memory with the working population", d, feats(rec, "private_copy"))
    # what a user's on_generation callback sees: the record already covers everything evaluated up to that moment
    flatv = [sign * v for _, vals in rec.calls for v in vals]
    for n_eval, reported in getattr(rec, "cb_obs", []):
        if n_eval and reported != max(flatv[:n_eval]):
            chk.fail("inside on_generation the reported best fitness is not the maximum over everything evaluated so far",
                     {"run": T.describe(rec), "evaluated_so_far": n_eval, "reported": reported, "max_evaluated": max(flatv[:n_eval])}, feats(rec, "callback_view"))
            break
    # the record as observed at generation k must not have been changed by later in-place updates:
    # the snapshot's deep copy at generation k equals what the optimizer recorded then (checked via
    # ids above); additionally the returned dict is a private copy
    opt = rec.opt
    a = opt.get_fittest()
    try:
        if isinstance(a["genotype"], np.ndarray) and a["genotype"].dtype != object:
            a["genotype"][...] = -77
            a["phenotype"][...] = -77
        else:
            a["genotype"]._nodes.clear()
    except Exception:
        pass
    b = opt.get_fittest()
    if T.key_of(b["genotype"]) != T.key_of(rec.snaps[-1]["raw_best"][0]) or b["fitness"] != rec.snaps[-1]["raw_best"][2]:
        chk.fail("changing the object returned by get_fittest() changed the optimizer's own record",
                 {"run": T.describe(rec)}, feats(rec, "get_private"))
    # in-place population updates after the run must not reach the record
    try:
        if isinstance(opt._population_g_i, np.ndarray) and opt._population_g_i.dtype != object:
            opt._population_g_i[...] = 55
            opt._population_ph_i[...] = 55
        c = opt.get_fittest()
        if T.key_of(c["genotype"]) != T.key_of(rec.snaps[-1]["raw_best"][0]):
            chk.fail("an in-place population update changed the reported best", {"run": T.describe(rec)}, feats(rec, "private_copy"))
    except Exception:
        pass


# ----------------------------------------------------------------------------- C02
def oracle_c02(chk, rec):
    sign = -1.0 if rec.cfg.get("minimization") else 1.0
    prev = None
    for k, s in enumerate(rec.snaps):
        d = {"run": T.describe(rec), "generation": k}
        if prev is not None and s["best_fit"] < prev["best_fit"]:
            chk.fail("best-so-far fitness decreased", {**d, "before": prev["best_fit"], "after": s["best_fit"]}, feats(rec, "monotone"))
        if rec.cfg.get("elitism", True):
            if not (s["pop_g"][-1] == s["best_g"] and s["pop_ph"][-1] == s["best_ph"] and s["fit"][-1] == s["best_fit"]):
                chk.fail("with elitism the end-of-generation population does not hold the best-so-far in its last slot", d, feats(rec, "elite"))
        # stored fitness is what the fitness function returned for the stored individual
        for i, (g, p, f) in enumerate(zip(s["pop_g"], s["pop_ph"], s["fit"])):
            if rec.g2p_table.get(g) != p or sign * rec.obj_table.get(p, math.nan) != f:
                chk.fail("the fitness stored for a slot is not the value returned for the individual stored there",
                         {**d, "slot": i}, feats(rec, "slot_consistent"))
                break
        if rec.cls_name in T.GREEDY and prev is not None:
            trial_p, trial_v = rec.calls[k]
            trial_g = rec.g_batches[k]
            for i in range(len(s["fit"])):
                if s["fit"][i] < prev["fit"][i]:
                    chk.fail("a population slot's fitness decreased", {**d, "slot": i, "before": prev["fit"][i], "after": s["fit"][i]}, feats(rec, "slot_monotone"))
                    break
                changed = (s["pop_g"][i], s["pop_ph"][i], s["fit"][i]) != (prev["pop_g"][i], prev["pop_ph"][i], prev["fit"][i])
                if changed:
                    by_trial = (s["pop_g"][i] == trial_g[i] and s["fit"][i] == sign * trial_v[i] and sign * trial_v[i] >= prev["fit"][i])
                    by_elite = rec.cfg.get("elitism", True) and i == len(s["fit"]) - 1 and s["pop_g"][i] == s["best_g"]
                    if not (by_trial or by_elite):
                        chk.fail("a slot was overwritten by something other than its own at-least-as-good trial (or the elite)",
                                 {**d, "slot": i}, feats(rec, "slot_overwrite"))
                        break
                else:
                    # a strictly better trial must not be rejected
                    if sign * trial_v[i] > prev["fit"][i] and not (rec.cfg.get("elitism", True) and i == len(s["fit"]) - 1):
                        chk.fail("a strictly better trial was rejected", {**d, "slot": i}, feats(rec, "slot_overwrite"))
                        break
        prev = s


# ----------------------------------------------------------------------------- C03
def oracle_c03(chk, rec):
    cfg = rec.cfg
    pop, iters = cfg["pop_size"], cfg["iters"]
    sign = -1.0 if cfg.get("minimization") else 1.0
    d = {"run": T.describe(rec)}
    if any(b != pop for b in rec.batch_sizes):
        chk.fail("a generation evaluated a number of individuals different from pop_size", {**d, "batch_sizes": rec.batch_sizes}, feats(rec, "batch"))
    gens = len(rec.snaps)
    if gens > max(iters, 1) or len(rec.batch_sizes) != gens:
        chk.fail("more generations than iters (or evaluations outside generations)", {**d, "generations": gens, "fitness_calls": len(rec.batch_sizes)}, feats(rec, "budget"))
    if rec.final["remains"] != iters * pop - sum(rec.batch_sizes):
        chk.fail("get_remains_calls() differs from iters*pop_size minus the evaluations made", {**d, "remains": rec.final["remains"], "evaluated": sum(rec.batch_sizes)}, feats(rec, "remains"))
    # the best-so-far OBJECTIVE is taken from what the fitness function returned (one call per generation), not from the
    # optimizer's own record: an evaluated individual that the record never saw still counts
    if len(rec.calls) == gens and all(len(v) and not any(x != x for x in v) for _, v in rec.calls):
        run_best, snaps = -float("inf"), []
        for s, (_, vals) in zip(rec.snaps, rec.calls):
            run_best = max(run_best, max(sign * x for x in vals))
            snaps.append({**s, "best_fit": run_best})
    else:
        snaps = rec.snaps
    # the stopping rule, from the user-level parameters
    def met(s):
        ok = s["best_fit"] == float("inf")    # without optimal_value the target is +inf: only an infinite fitness reaches it
        if cfg.get("optimal_value") is not None:
            v = sign * s["best_fit"]  # objective value of the best
            if cfg.get("minimization"):
                ok = v <= cfg["optimal_value"] + cfg.get("termination_error_value", 0.0)
            else:
                ok = v >= cfg["optimal_value"] - cfg.get("termination_error_value", 0.0)
        return ok
    # stagnation counter from the observed best-so-far series
    stagn, cnt, prevb = [], 0, None
    for s in snaps:
        if prevb is None or s["best_fit"] > prevb:
            cnt = 0
        else:
            cnt += 1
        prevb = s["best_fit"]
        stagn.append(cnt)
    for k, s in enumerate(snaps):
        rule = met(s) or (cfg.get("no_increase_num") is not None and stagn[k] == cfg["no_increase_num"])
        if k < gens - 1 and rule:
            chk.fail("the run went on after a generation that met the stopping rule", {**d, "generation": k}, feats(rec, "late_stop"))
            break
        if k == gens - 1 and gens < max(iters, 1) and not rule:
            chk.fail("the run stopped early although the stopping rule was not met", {**d, "generation": k}, feats(rec, "early_stop"))
        if s["no_upd"] != stagn[k]:
            chk.fail("the stagnation counter is not the number of consecutive generations without strict improvement",
                     {**d, "generation": k, "counter": s["no_upd"], "expected": stagn[k]}, feats(rec, "stagnation"))
            break
    if len(rec.callbacks) != gens - 1 or rec.callbacks != list(range(2, gens + 1)):
        chk.fail("on_generation is not invoked exactly once per generation after the first, with the evaluated state",
                 {**d, "callbacks_at": rec.callbacks, "generations": gens}, feats(rec, "callbacks"))


def _get_fittest_isolated(chk, rec):
    """objects returned by get_fittest() can be changed by the caller without affecting the optimizer's
    own record: scribble over one result, ask again, compare with the deep copy taken at record time"""
    opt = rec.opt
    for attempt in range(2):
        a = opt.get_fittest()
        try:
            if isinstance(a["genotype"], np.ndarray) and a["genotype"].dtype != object:
                a["genotype"][...] = -77 - attempt
                if isinstance(a["phenotype"], np.ndarray) and a["phenotype"].dtype != object:
                    a["phenotype"][...] = -77 - attempt
            else:
                a["genotype"]._nodes.clear()
            a["fitness"] = -1e300
        except Exception:
            pass
        b = opt.get_fittest()
        if T.key_of(b["genotype"]) != T.key_of(rec.snaps[-1]["raw_best"][0]) or T.key_of(b["phenotype"]) != T.key_of(rec.snaps[-1]["raw_best"][1]) \
                or b["fitness"] != rec.snaps[-1]["raw_best"][2]:
            chk.fail("changing the object returned by get_fittest() changed the optimizer's own record",
                     {"run": T.describe(rec), "call": attempt + 1}, feats(rec, "get_private"))
            return


# ----------------------------------------------------------------------------- C17
def oracle_c17(chk, rec):
    d = {"run": T.describe(rec)}
    st = rec.final["stats"]
    gens = len(rec.snaps)
    if not rec.cfg.get("keep_history", True):
        if len(st.keys()) != 0:
            chk.fail("statistics recorded although keep_history=False", d, feats(rec, "no_history"))
        return
    for key in st.keys():
        if len(st[key]) != gens:
            chk.fail("a recorded series does not have exactly one entry per executed generation", {**d, "series": key, "entries": len(st[key]), "generations": gens}, feats(rec, "length"))
            return
    for k, s in enumerate(rec.snaps):
        snap = s["last_stat"]
        if snap is None:
            chk.fail("no statistics entry at a generation boundary", {**d, "generation": k}, feats(rec, "length"))
            return
        for key in snap:
            now = st[key][k]
            if T.key_of(np.asarray(now, dtype=object) if isinstance(now, dict) else now) != T.key_of(np.asarray(snap[key], dtype=object) if isinstance(snap[key], dict) else snap[key]) \
                    if not isinstance(now, dict) else (now != snap[key]):
                chk.fail("a statistics entry was altered by a later generation", {**d, "series": key, "generation": k}, feats(rec, "snapshot"))
                return
        if rec.g2p_table:
            for row in range(len(st["population_g"][k])):
                img = rec.g2p_table.get(rec.gids.m.get(T.key_of(st["population_g"][k][row])))
                have = rec.pids.m.get(T.key_of(st["population_ph"][k][row]))
                if img is not None and have is not None and img != have:
                    chk.fail("a recorded phenotype is not the genotype-to-phenotype image of the genotype recorded in the same slot",
                             {**d, "generation": k, "slot": row}, feats(rec, "consistent_ph"))
                    return
        # "the matching individual": every recorded (phenotype, fitness) pair is a rating the objective actually gave (deterministic objectives)
        if not rec.inconsistent:
            sign = -1.0 if rec.cfg.get("minimization") else 1.0
            for row in range(len(st["population_ph"][k])):
                pid = rec.pids.m.get(T.key_of(st["population_ph"][k][row]))
                val = rec.obj_table.get(pid) if pid is not None else None
                chk.count("rated_rows" if val is not None else "rows_not_found_among_the_rated_phenotypes")
                got = float(st["fitness"][k][row])
                if val is None:
                    chk.fail("a recorded individual was never rated by the objective: its recorded fitness belongs to another individual",
                             {**d, "generation": k, "slot": row, "recorded_fitness": got}, feats(rec, "rated"))
                    return
                if val is not None and not (np.isnan(val) or np.isnan(got)) and sign * val != got:
                    chk.fail("a recorded fitness is not the objective's rating of the phenotype recorded in the same slot",
                             {**d, "generation": k, "slot": row, "recorded_fitness": got, "rating": sign * val}, feats(rec, "rated"))
                    return
        fit = np.asarray(st["fitness"][k])
        i = int(np.argmax(fit))
        if float(st["max_fitness"][k]) != float(fit.max()) or T.key_of(st["max_g"][k]) != T.key_of(st["population_g"][k][i]) or \
                T.key_of(st["max_ph"][k]) != T.key_of(st["population_ph"][k][i]):
            chk.fail("max_fitness / max_g / max_ph of an entry are not the first arg-max of that entry's population", {**d, "generation": k}, feats(rec, "consistent"))
            return
    # every value handed to the statistics must still be there unchanged (deep copy taken at record time)
    per_key = {}
    for upd in getattr(rec, "stat_updates", []):
        for key, val in upd.items():
            per_key.setdefault(key, []).append(val)
    for key, vals in per_key.items():
        for k, val in enumerate(vals):
            now = st[key][k] if key in st and k < len(st[key]) else None
            same = (now == val) if isinstance(val, dict) else (now is not None and T.key_of(now) == T.key_of(val))
            if not same:
                chk.fail("a statistics entry no longer holds the value that was recorded (altered after recording)",
                         {**d, "series": key, "generation": k}, feats(rec, "snapshot"))
                return
    if rec.cfg.get("init_population") is not None:
        if T.key_of(np.asarray(st["population_g"][0])) != T.key_of(np.asarray(rec.cfg["_init_copy"])):
            chk.fail("population_g[0] is not the supplied init_population", d, feats(rec, "init"))
        if T.key_of(np.asarray(rec.cfg["init_population"])) != T.key_of(np.asarray(rec.cfg["_init_copy"])):
            chk.fail("the optimizer modified the caller's init_population", d, feats(rec, "caller_inputs"))
        try:
            a, b = rec.cfg["init_population"], rec.opt._population_g_i
            if isinstance(a, np.ndarray) and a.dtype != object and np.shares_memory(a, b):
                chk.fail("the working population aliases the caller's init_population", d, feats(rec, "caller_inputs"))
        except Exception:
            pass
    _get_fittest_isolated(chk, rec)
    # entries do not alias live arrays
    try:
        last = st["population_g"][-1]
        if isinstance(last, np.ndarray) and last.dtype != object and np.shares_memory(last, rec.opt._population_g_i):
            chk.fail("a statistics entry aliases the live population", d, feats(rec, "snapshot"))
        if isinstance(st["fitness"][-1], np.ndarray) and np.shares_memory(st["fitness"][-1], rec.opt._fitness_i):
            chk.fail("a statistics entry aliases the live fitness array", d, feats(rec, "snapshot"))
    except Exception:
        pass


ORACLES = {"C01": oracle_c01, "C02": oracle_c02, "C03": oracle_c03, "C17": oracle_c17}


def main(prop: str, tier: str, classes=None) -> int:
    chk = C.Check(prop, tier)
    chk.lean()
    try:
        results = T.run_all(tier, chk.seed, classes)
    except C.DriverError as e:
        chk.obligation("driver run", False, str(e))
        results = []
    for cn, cfg, err in T.FAILED_RUNS:
        chk.fail("an optimizer run raises", {"optimizer": cn, **{k: str(v) for k, v in cfg.items()}, "error": err}, {"optimizer": cn, "clause": "raises"})
    extra = []
    if prop == "C17":
        # keep_history = False
        for cn in ("GeneticAlgorithm", "DifferentialEvolution", "SelfCGP", "SHAGA"):
            cfg = {"pop_size": 8, "iters": 4, "objective": "plateau", "keep_history": False, "seed": chk.seed + 3}
            extra.append(T.record(cn, cfg))
    for rec, diffs in results:
        chk.count(rec.cls_name)
        chk.count("objective:" + rec.cfg["objective"])
        chk.count("generations", len(rec.snaps))
        chk.case((rec.cls_name, tuple(sorted((k, str(v)) for k, v in T.describe(rec).items()))), nontrivial=len(rec.snaps) >= 1,
                 sample=T.describe(rec) if len(chk.samples) < 4 else None)
        if rec.inconsistent:
            chk.obligation("harness: deterministic objective / g2p", False, str(rec.inconsistent[:3]))
        if diffs:
            chk.disagree("trace:" + rec.cls_name, {"run": T.describe(rec), "diffs": diffs[:3]})
        else:
            chk.agree("trace:" + rec.cls_name)
        ORACLES[prop](chk, rec)
    for rec in extra:
        chk.count("keep_history_false")
        ORACLES[prop](chk, rec)
    if prop in ("C01", "C02"):
        # the parallel evaluation path: every stored fitness is the objective of the individual stored
        # in that slot, and the record is the maximum of everything evaluated (module-level objectives)
        import c16_workers as W
        from thefittest.optimizers import DifferentialEvolution, GeneticAlgorithm, SHAGA, jDE
        W.DELAYS = 0
        for cls, kw, f in ((DifferentialEvolution, dict(iters=5, pop_size=10, left_border=-2.0, right_border=2.0, num_variables=3), W.sphere_delayed),
                           (jDE, dict(iters=4, pop_size=7, left_border=-2.0, right_border=2.0, num_variables=2), W.sphere_delayed),
                           (GeneticAlgorithm, dict(iters=5, pop_size=9, str_len=12), W.onemax_delayed),
                           (SHAGA, dict(iters=4, pop_size=7, str_len=10), W.onemax_delayed)):
            for nj, mn in ((2, False), (3, True)):
                # with a genotype-to-phenotype mapping on the worker path (row-wise, not the identity) in half of the runs
                g2p = W.g2p_scale if (nj == 3) == (cls in (DifferentialEvolution, GeneticAlgorithm)) else None
                o = cls(fitness_function=f, minimization=mn, n_jobs=nj, keep_history=True, random_state=chk.seed + 31,
                        **({"genotype_to_phenotype": g2p} if g2p is not None else {}), **kw)
                o.fit()
                st = o.get_stats()
                sign = -1.0 if mn else 1.0
                chk.count("parallel_" + cls.__name__)
                chk.case(("parallel", cls.__name__, nj, mn))
                dd = {"optimizer": cls.__name__, "n_jobs": nj, "minimization": mn, "genotype_to_phenotype": g2p.__name__ if g2p is not None else None}
                best = -np.inf
                if g2p is not None:
                    ftm = o.get_fittest()
                    bad_gen = next((k for k in range(len(st["population_g"]))
                                    if not np.array_equal(np.asarray(st["population_ph"][k], dtype=np.float64), g2p(np.asarray(st["population_g"][k])))), None)
                    if bad_gen is not None or not np.array_equal(np.asarray(ftm["phenotype"], dtype=np.float64), g2p(np.asarray([ftm["genotype"]]))[0]):
                        chk.fail("the reported phenotype is not the genotype-to-phenotype image of the reported genotype",
                                 {**dd, "generation": bad_gen, "scenario": "n_jobs > 1: the phenotype stored in a slot must be the image of the genotype stored in that slot"},
                                 {"optimizer": cls.__name__, "clause": "phenotype_image_parallel"})
                for k in range(len(st["fitness"])):
                    exp = sign * f(np.asarray(st["population_ph"][k]))
                    if not np.array_equal(np.asarray(st["fitness"][k], dtype=np.float64), exp):
                        chk.fail("with n_jobs > 1 the fitness stored for a slot is not the objective value of the individual stored there",
                                 {**dd, "generation": k}, {"optimizer": cls.__name__, "clause": "slot_consistent_parallel"})
                        break
                    best = max(best, float(np.max(exp)))
                ft = o.get_fittest()
                if float(ft["fitness"]) != float(sign * f(np.asarray([ft["phenotype"]]))[0]) or (cls not in (DifferentialEvolution, jDE, SHAGA) and float(ft["fitness"]) != best):
                    chk.fail("with n_jobs > 1 the reported best fitness is not the objective value of the reported phenotype",
                             dd, {"optimizer": cls.__name__, "clause": "best_parallel"})
    if prop == "C17":
        # caller-owned argument dictionaries (fitness_function_args, genotype_to_phenotype_args) with array values of unusual
        # layout, with and without workers: after construction and after fit() they hold the very same objects, unchanged
        import c16_workers as W
        from thefittest.optimizers import GeneticAlgorithm, DifferentialEvolution, SHAGA
        W.DELAYS = 0
        for cls, kw in ((GeneticAlgorithm, dict(iters=3, pop_size=8, str_len=6)), (DifferentialEvolution, dict(iters=3, pop_size=8, left_border=-1.0, right_border=1.0, num_variables=6)),
                        (SHAGA, dict(iters=3, pop_size=8, str_len=6))):
            for nj in (1, 2):
                big = np.arange(36, dtype=np.float64).reshape(6, 6)
                fargs = {"weights": big[:, 2], "scale": np.array(2.0), "table": np.asfortranarray(big)}
                gargs = {"shift": big.T[1]}
                before = {k: (id(v), v.shape, v.strides, v.flags["C_CONTIGUOUS"], v.copy()) for d_ in (fargs, gargs) for k, v in d_.items()}
                o = cls(fitness_function=W.weighted_sum, fitness_function_args=fargs, genotype_to_phenotype=W.g2p_shift, genotype_to_phenotype_args=gargs,
                        n_jobs=nj, random_state=chk.seed + 3, **kw)
                stages = [("constructor", {k: (id(v), v.shape, v.strides, v.flags["C_CONTIGUOUS"], v.copy()) for d_ in (fargs, gargs) for k, v in d_.items()})]
                try:
                    o.fit()
                except Exception as e:  # noqa
                    chk.fail("an optimizer run with argument dictionaries raises", {"optimizer": cls.__name__, "n_jobs": nj, "error": repr(e)[:200]},
                             {"optimizer": cls.__name__, "clause": "args_raises"})
                    continue
                stages.append(("fit", {k: (id(v), v.shape, v.strides, v.flags["C_CONTIGUOUS"], v.copy()) for d_ in (fargs, gargs) for k, v in d_.items()}))
                chk.count("caller_args")
                chk.case(("caller_args", cls.__name__, nj))
                for stage, now in stages:
                    bad = [k for k in before if k not in now or now[k][:4] != before[k][:4] or not np.array_equal(now[k][4], before[k][4])]
                    if bad or set(now) != set(before):
                        k0 = (bad or sorted(set(now) ^ set(before)))[0]
                        chk.fail("the optimizer modified the caller's fitness_function_args / genotype_to_phenotype_args",
                                 {"optimizer": cls.__name__, "n_jobs": nj, "after": stage, "entry": k0,
                                  "before": str(before.get(k0, ("-",) * 4)[1:4]), "now": str(now.get(k0, ("-",) * 4)[1:4])},
                                 {"optimizer": cls.__name__, "clause": "caller_args"})
                        break
    if prop == "C01":
        # an integer-valued objective beyond 2**53 (counts scaled by a large constant): the reported fitness is one of the values
        # the objective returned, exactly, and the reported phenotype attains it (compared as Python integers)
        from thefittest.optimizers import GeneticAlgorithm, SelfCGA, PDPGA
        for cls in (GeneticAlgorithm, SelfCGA, PDPGA):
            for mn in (False, True):
                seen = []

                def big(x, _seen=seen):
                    v = (np.int64(2) ** 60 + np.sum(np.asarray(x, dtype=np.int64), axis=1) * np.int64(7)).astype(np.int64)
                    _seen.extend(int(t) for t in v)
                    return v
                o = cls(fitness_function=big, iters=6, pop_size=10, str_len=16, minimization=mn, random_state=chk.seed + 41)
                try:
                    o.fit()
                except Exception as e:  # noqa
                    chk.fail("a run with an integer-valued objective raises", {"optimizer": cls.__name__, "minimization": mn, "error": repr(e)[:200]},
                             {"optimizer": cls.__name__, "clause": "int_objective_raises"})
                    continue
                ft = o.get_fittest()
                want = min(seen) if mn else max(seen)
                got = int(ft["fitness"]) * (-1 if mn else 1)
                own = int(big(np.asarray([ft["phenotype"]]))[0])
                chk.count("int64_objective")
                chk.case(("int64", cls.__name__, mn))
                if got != want or own != want:
                    chk.fail("the reported best fitness is not the best objective value ever evaluated (integer objective beyond 2**53, compared exactly)",
                             {"optimizer": cls.__name__, "minimization": mn, "reported": got, "best_evaluated": want, "objective_of_reported_phenotype": own},
                             {"optimizer": cls.__name__, "clause": "max_exact_int"})
    if prop == "C03":
        # budget accounting on the parallel evaluation path: every individual handed to the workers is counted once
        import c16_workers as W
        from thefittest.optimizers import DifferentialEvolution, GeneticAlgorithm, SHAGA
        W.DELAYS = 0
        for cls, kw, f in ((DifferentialEvolution, dict(iters=5, pop_size=10, left_border=-2.0, right_border=2.0, num_variables=3), W.sphere_delayed),
                           (GeneticAlgorithm, dict(iters=6, pop_size=12, str_len=12), W.onemax_delayed),
                           (SHAGA, dict(iters=4, pop_size=7, str_len=10), W.onemax_delayed)):
            for nj in (2, 3, 5):
                o = cls(fitness_function=f, n_jobs=nj, keep_history=True, random_state=chk.seed + 37, **kw)
                o.fit()
                st = o.get_stats()
                evaluated = sum(len(fv) for fv in st["fitness"])
                chk.count("parallel_budget_" + cls.__name__)
                chk.case(("parallel_budget", cls.__name__, nj))
                if int(o.get_remains_calls()) != kw["iters"] * kw["pop_size"] - evaluated:
                    chk.fail("get_remains_calls() differs from iters*pop_size minus the evaluations made (n_jobs > 1)",
                             {"optimizer": cls.__name__, "n_jobs": nj, **{k: v for k, v in kw.items() if k in ("iters", "pop_size")},
                              "remains": int(o.get_remains_calls()), "evaluated": evaluated}, {"optimizer": cls.__name__, "clause": "remains_parallel"})
    if prop in ("C02", "C17"):
        # a callback that modifies the record it was handed by get_fittest() in every generation: the run is the same run
        for cn in ("GeneticAlgorithm", "SelfCGA", "DifferentialEvolution", "SHAGA", "SHADE", "GeneticProgramming"):
            base_cfg = {"pop_size": 8 if cn not in T.GP else 7, "iters": 6, "objective": "onemax" if cn not in T.FLOAT else "sphere", "elitism": True,
                        "minimization": cn in ("GeneticAlgorithm", "SHADE"), "seed": chk.seed * 100 + 91, "keep_history": True}
            if cn == "GeneticAlgorithm":
                base_cfg["selection"] = "proportional"
            try:
                ra, rb = T.record(cn, dict(base_cfg)), T.record(cn, dict(base_cfg, scribble=True))
            except Exception as e:  # noqa
                chk.fail("a run whose callback modifies the record handed to it raises", {"optimizer": cn, "error": repr(e)[:200]}, {"optimizer": cn, "clause": "scribble_raises"})
                continue
            fa = [(tuple(x["pop_g"]), tuple(x["fit"]), x["best_fit"]) for x in ra.snaps]
            fb = [(tuple(x["pop_g"]), tuple(x["fit"]), x["best_fit"]) for x in rb.snaps]
            ka = [[T.key_of(g) for g in x["raw_pop_g"]] for x in ra.snaps]
            kb = [[T.key_of(g) for g in x["raw_pop_g"]] for x in rb.snaps]
            chk.count("callback_modifies_record")
            chk.case(("scribble", cn))
            if ka != kb or [x[1:] for x in fa] != [x[1:] for x in fb]:
                gen = next((i for i, (x, y) in enumerate(zip(ka, kb)) if x != y), None)
                chk.fail("changing the object returned by get_fittest() (inside on_generation) changed the optimizer's own record / the run",
                         {"optimizer": cn, **{k: v for k, v in base_cfg.items()}, "first_differing_generation": gen}, {"optimizer": cn, "clause": "get_private_run"})
    if prop == "C02":
        # an objective that returns NaN for some individuals once a finite record exists: numpy's argmax then points at
        # the NaN, which is not greater than the record, so the record must stay (and must never become NaN)
        from thefittest.optimizers import GeneticAlgorithm, GeneticProgramming, SelfCGA
        for cls, extra_kw in ((GeneticAlgorithm, {}), (SelfCGA, {})):
            for elit in (False, True):
                state = {"calls": 0}

                def nan_obj(x, _st=state):
                    x = np.asarray(x, dtype=np.float64)
                    v = x.sum(axis=1)
                    _st["calls"] += 1
                    if _st["calls"] > 2:
                        v = v.copy()
                        v[(x[:, 0] == 1) & (x[:, 1] == 0)] = np.nan
                    return v
                series = []
                o = cls(fitness_function=nan_obj, iters=14, pop_size=12, str_len=20, elitism=elit, keep_history=True, random_state=chk.seed + 5,
                        on_generation=lambda oo: series.append(float(oo._thefittest._fitness)), **extra_kw)
                try:
                    o.fit()
                except Exception as e:  # noqa
                    chk.fail("a run whose objective returns NaN for some individuals raises", {"optimizer": cls.__name__, "elitism": elit, "error": repr(e)[:200]},
                             {"optimizer": cls.__name__, "clause": "nan_raises"})
                    continue
                chk.count("nan_objective")
                chk.case(("nan", cls.__name__, elit))
                bad = next((i for i in range(len(series)) if series[i] != series[i] or (i and series[i] < series[i - 1])), None)
                if bad is not None:
                    chk.fail("the best-so-far fitness regressed (or became NaN) on an objective that returns NaN for some individuals",
                             {"optimizer": cls.__name__, "elitism": elit, "generation": bad + 2, "series": [None if v != v else v for v in series[: bad + 1]]},
                             {"optimizer": cls.__name__, "clause": "nan_regress"})
    chk.notes.append("runs: 10 optimizer classes x objectives {regular, plateau, all-ties, negative, 1e300-scaled, asymmetric} x elitism x minimization x g2p x init_population + stopping scenarios; each replayed through TFV.Model.EA (oracle = the observed offspring batches) and compared at every generation boundary; distinct = distinct run configurations")
    chk.assumptions.append("objectives are deterministic and NaN-free (NaN breaks numpy's argmax itself)")
    return chk.finish()
