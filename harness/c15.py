"""C15 — adaptive control parameters stay in range and follow their update rules.

Observation on live SHADE / SHAGA / jDE instances through an instance-level wrapper around
`_get_new_population` (state before / after) and the fitness wrapper (trial values).
S3: the memory cell written in each generation recomputed by TFV.Model.Adapt from the observed
successful parameters and improvements, at 1e-9; truncation functions on explicit draw streams.
S4: draw ranges, memory ranges (no NaN), one cell per generation cyclically incl. wrap-around,
archive bound and content, jDE ranges and acceptance rule.
"""
from __future__ import annotations

import json
import math
import random as pyrandom

from fractions import Fraction

import numpy as np

import common as C
import ea_trace as T


def observe(cls_name, cfg):
    rec = T.Recorder(cls_name, cfg)
    opt, kw = T.build(cls_name, cfg, rec)
    log = []
    orig = opt._get_new_population

    def wrapped():
        before = {"fit": opt._fitness_i.copy(), "pop": opt._population_g_i.copy(), "k": getattr(opt, "_k", None)}
        for a in ("_H_F", "_H_CR", "_H_MR", "_F", "_CR"):
            v = getattr(opt, a, None)
            if v is not None:
                before[a] = np.array(v, dtype=np.float64).copy()
        if hasattr(opt, "_population_g_archive_i"):
            before["archive"] = opt._population_g_archive_i.copy()
        ncall = len(rec.calls)
        orig()
        after = {"fit": opt._fitness_i.copy(), "pop": opt._population_g_i.copy(), "k": getattr(opt, "_k", None)}
        for a in ("_H_F", "_H_CR", "_H_MR", "_F", "_CR", "_MR"):
            v = getattr(opt, a, None)
            if v is not None:
                after[a] = np.array(v, dtype=np.float64).copy()
        if hasattr(opt, "_population_g_archive_i"):
            after["archive"] = opt._population_g_archive_i.copy()
        sign = -1.0 if cfg.get("minimization") else 1.0
        trial = sign * np.array(rec.calls[ncall][1]) if len(rec.calls) > ncall else None
        log.append({"before": before, "after": after, "trial_fit": trial})
    opt._get_new_population = wrapped
    opt.fit()
    rec.opt = opt
    return rec, log


def weights_of(df):
    """improvements as exact fractions; an improvement from a failed (-inf) parent is infinite and outweighs every finite one:
    the weighted means then are the means over the infinitely improving trials (the limit of the documented rule)"""
    vals = [float(v) for v in df]
    if any(v == float("inf") for v in vals):
        return [Fraction(1) if v == float("inf") else Fraction(0) for v in vals]
    return [Fraction(v) for v in vals]


def main(tier: str) -> int:
    chk = C.Check("C15", tier)
    chk.lean()
    import thefittest.optimizers._shade as SHM
    rng = pyrandom.Random(chk.seed)
    ops, ctx = [], []

    def add(op, c):
        ops.append(op)
        ctx.append(c)

    # ---- truncation functions on explicit streams, through the interpreted source with patched generators
    class FakeCauchy:
        def __init__(self, seq):
            self.seq = list(seq)

        def __call__(self, loc, scale, size):
            return np.array([self.seq.pop(0)], dtype=np.float64)
    saved = SHM.cauchy_distribution
    try:
        for _ in range(80):
            seq = [rng.choice([-0.5, 0.0, -1e-9, 0.3, 1.0, 1.7, 0.999, 1e-12]) for _ in range(6)] + [0.5]
            SHM.cauchy_distribution = FakeCauchy(seq)
            got = float(SHM.randc01.py_func(np.float64(0.5)))
            chk.count("randc01_stream")
            if not (0 < got <= 1):
                chk.fail("randc01 returned a value outside (0, 1]", {"stream": seq, "got": got}, {"fn": "randc01"})
            add({"op": "ad_randc01", "draws": [C.rat(v) for v in seq]}, ("randc01", {"stream": seq}, got))
    finally:
        SHM.cauchy_distribution = saved
    for v in (-3.0, -1e-300, 0.0, 0.25, 1.0, 1.0000001, 9.0):
        add({"op": "ad_clamp01", "v": C.rat(v)}, ("clamp01", {"v": v}, min(1.0, max(0.0, v))))
    # lehmer_mean directly (incl. the all-zero case)
    for _ in range(60):
        n = rng.randint(1, 6)
        x = [rng.choice([0.0, 0.0, 0.25, 0.5, 1.0, 0.125]) for _ in range(n)]
        w = [rng.choice([0.25, 0.5, 1.0, 2.0]) for _ in range(n)]
        s = sum(w)
        wn = [v / s for v in w]
        with np.errstate(all="ignore"):
            got = float(SHM.lehmer_mean(np.array(x), weight=np.array(wn)))
        chk.count("lehmer")
        chk.case(("lehmer", tuple(x), tuple(w)))
        if math.isnan(got) or not (0 <= got <= 1):
            chk.fail("the weighted Lehmer mean of values in [0,1] is NaN or outside [0,1]", {"x": x, "weights": wn, "got": str(got)},
                     {"fn": "lehmer_mean", "all_zero": all(v == 0 for v in x)})
        else:
            add({"op": "ad_lehmer", "x": [C.rat(v) for v in x], "w": [C.rat(v) for v in wn]}, ("lehmer", {"x": x, "w": wn}, got))

    # SHAGA's memory update called directly, also with mutation rates from strings shorter than 5 bits (the admissible rates reach up
    # to 5/str_len > 1 there): the written value is the improvement-weighted Lehmer mean, the preceding cell without successes
    from thefittest.optimizers import SHAGA as _SHAGA
    for str_len in (1, 2, 3, 4, 7, 40):
        so = _SHAGA(fitness_function=lambda x: np.sum(x, axis=1, dtype=np.float64), iters=2, pop_size=4, str_len=str_len)
        top = 5.0 / str_len
        for _ in range(12 if tier == "quick" else 120):
            n = rng.randint(0, 5)
            S = np.array([rng.choice([top, top * 0.875, top * 0.5, 1.0 / str_len, top * 0.25]) for _ in range(n)], dtype=np.float64)
            dfv = np.array([rng.choice([0.25, 1.0, 2.0, 7.0, 0.0]) for _ in range(n)], dtype=np.float64)
            u = rng.choice([1.0 / str_len, top * 0.75])
            try:
                with np.errstate(all="ignore"):
                    got = float(so._update_u(u, S, dfv))
            except Exception as e:  # noqa
                chk.fail("SHAGA's memory update raises", {"call": "SHAGA._update_u", "str_len": str_len, "u": u, "S": S.tolist(), "df": dfv.tolist(), "error": repr(e)[:160]},
                         {"optimizer": "SHAGA", "clause": "raises"})
                continue
            Sf, dff = [Fraction(float(v)) for v in S], [Fraction(float(v)) for v in dfv]
            if n and sum(dff) > 0:
                den = sum(w * v for w, v in zip(dff, Sf))
                want = sum(w * v * v for w, v in zip(dff, Sf)) / den if den != 0 else Fraction(0)
            else:
                want = Fraction(u)
            chk.count("shaga_update_u_direct")
            chk.case(("update_u", str_len, tuple(S.tolist()), tuple(dfv.tolist()), u))
            if not C.close(got, float(want), 1e-9, 1e-12):
                chk.fail("the written SHAGA memory cell is not the improvement-weighted Lehmer mean of the parameters of the strictly improving trials",
                         {"call": "SHAGA._update_u", "str_len": str_len, "u": u, "S": S.tolist(), "df": dfv.tolist(), "written": got, "rule": float(want)},
                         {"optimizer": "SHAGA", "clause": "rule", "memory": "direct", "above_one": bool(float(want) > 1)})
            else:
                add({"op": "ad_update_u", "u": C.rat(u), "S": [C.rat(float(v)) for v in S], "df": [C.rat(float(v)) for v in dfv]},
                    ("update_U:SHAGA:direct", {"u": u, "S": S.tolist(), "df": dfv.tolist()}, got))

    # ---- the TRANSLATED jDE regeneration functions (TFV/Generated/Src/jDE_get_mutate_{F,CR}.lean, read through TFV.Model.NpQ) evaluated by
    #      Lean against the real methods with the same forced draws (dyadic numbers: every float operation on them is exact)
    import subprocess
    import thefittest.optimizers._jde as JM
    from thefittest.optimizers import jDE as _jDE
    jcases = []
    for _ in range(24 if tier == "quick" else 200):
        n_ = rng.randint(1, 6)
        which = rng.choice(["F", "CR"])
        cur = [rng.randint(0, 16) / 16 for _ in range(n_)]
        rate = rng.choice([0.0, 0.25, 0.5, 1.0])
        d0 = [rng.randint(0, 7) / 8 for _ in range(n_)]
        d1 = [rng.randint(0, 7) / 8 for _ in range(sum(1 for v in d0 if v < rate))]
        fmin, fmax = rng.choice([(0.125, 0.75), (0.5, 0.25), (0.0, 1.0)])
        jcases.append((which, cur, rate, d0, d1, fmin, fmax))
    q8 = lambda v: "[" + ", ".join("(%d : Rat) / 16" % int(round(x * 16)) for x in v) + "]"   # noqa: E731
    jlines = ["import TFV.Generated.Src.jDE_get_mutate_F", "import TFV.Generated.Src.jDE_get_mutate_CR", "open TFV TFV.Generated.Src",
              "def showQ : Option (List Rat) → String | none => \"none\" | some v => toString (v.map fun q => (q.num, q.den))"]
    for which, cur, rate, d0, d1, fmin, fmax in jcases:
        drawfn = "(fun k _ => if k = 0 then %s else %s)" % (q8(d0), q8(d1))
        if which == "F":
            jlines.append("#eval IO.println (showQ (jDE_get_mutate_F %s %s %d ((%d : Rat) / 16) ((%d : Rat) / 16) ((%d : Rat) / 16)))"
                          % (drawfn, q8(cur), len(cur), round(rate * 16), round(fmin * 16), round(fmax * 16)))
        else:
            jlines.append("#eval IO.println (showQ (jDE_get_mutate_CR %s %s %d ((%d : Rat) / 16)))" % (drawfn, q8(cur), len(cur), round(rate * 16)))
    # ... and the two update rules that divide by the total improvement (finite, dyadic inputs)
    ucases = []
    for _ in range(24 if tier == "quick" else 200):
        n_ = rng.randint(0, 4)
        ucases.append((rng.choice(["CR", "U"]), rng.randint(1, 15) / 16, [rng.randint(0, 16) / 16 for _ in range(n_)], [rng.choice([0, 0, 1, 2, 4, 8]) / 4 for _ in range(n_)]))
    jlines[0:0] = ["import TFV.Generated.Src.SHADE_update_u_CR", "import TFV.Generated.Src.SHAGA_update_u", "import TFV.Model.Adapt"]
    jlines.append("def showS : Option Rat → String | none => \"none\" | some q => toString q.num ++ \"/\" ++ toString q.den")
    for which, u_, S_, df_ in ucases:
        if which == "CR":
            jlines.append("#eval IO.println (showS (SHADE_update_u_CR ((%d : Rat) / 16) %s %s))" % (round(u_ * 16), q8(S_), q8(df_)))
        else:
            jlines.append("#eval IO.println (showS (SHAGA_update_u (fun x w => TFV.Adapt.lehmer x w) ((%d : Rat) / 16) %s %s))" % (round(u_ * 16), q8(S_), q8(df_)))
    lcases = []
    for _ in range(16 if tier == "quick" else 120):
        n_ = rng.randint(0, 4)
        lcases.append((rng.choice(["w", "p"]), [rng.choice([0, 0, 1, 2, 4, 8, 16]) / 16 for _ in range(n_)], [rng.choice([0, 1, 2, 4]) / 4 for _ in range(n_)]))
    jlines[0:0] = ["import TFV.Generated.Src.Lehmer_mean_weighted", "import TFV.Generated.Src.Lehmer_mean_plain"]
    for which, x_, w_ in lcases:
        jlines.append("#eval IO.println (showS (Lehmer_mean_weighted %s %s))" % (q8(x_), q8(w_)) if which == "w" else "#eval IO.println (showS (Lehmer_mean_plain %s))" % q8(x_))
    ncases = [rng.choice([-3, -1, 0, 1, 4, 8, 15, 16, 17, 40]) / 16 for _ in range(8)]
    jlines.insert(0, "import TFV.Generated.Src.SHAGA_randn")
    for v_ in ncases:
        jlines.append("#eval IO.println (showS (SHAGA_randn (fun _ _ _ => (%d : Rat) / 16) (1 / 2) (1 / 10)))" % round(v_ * 16))
    ccases = []
    for _ in range(8):
        seq_ = [rng.choice([-4, 0, 11, 12, 40, -1]) / 16 for _ in range(rng.randint(0, 3))] + [rng.choice([1, 5, 10]) / 16]     # str_len 8: 5/8 = 10/16 is the upper end
        ccases.append(seq_)
    jlines.insert(0, "import TFV.Generated.Src.SHAGA_randc")
    for seq_ in ccases:
        jlines.append("#eval IO.println (showS (SHAGA_randc (fun _ _ k => (%s : List Rat).getD k 0) 8 (1 / 2) (1 / 10) %d))" % (q8(seq_), len(seq_)))
    jaudit = C.LEAN / "TFV" / "Audit" / "C15_np.lean"
    jaudit.parent.mkdir(parents=True, exist_ok=True)
    jaudit.write_text("\n".join(jlines) + "\n")
    with C.LeanLock():
        jpr = subprocess.run(["lake", "env", "lean", str(jaudit.relative_to(C.LEAN))], cwd=C.LEAN, capture_output=True, text=True, timeout=900)
    jgot = [l.strip() for l in jpr.stdout.splitlines() if l.strip()]
    chk.obligation("the translated jDE regeneration functions evaluate (lake env lean TFV/Audit/C15_np.lean)", jpr.returncode == 0 and len(jgot) == len(jcases) + len(ucases) + len(lcases) + len(ncases) + len(ccases), (jpr.stdout + jpr.stderr)[-600:])
    if jpr.returncode == 0 and len(jgot) == len(jcases) + len(ucases) + len(lcases) + len(ncases) + len(ccases):
        import thefittest.optimizers._shaga as SGM
        saved_cauchy = SGM.cauchy_distribution
        try:
            sgn = _SHAGA(fitness_function=lambda x: np.sum(x, axis=1, dtype=np.float64), iters=2, pop_size=4, str_len=8)
            for seq_, g in zip(ccases, jgot[len(jcases) + len(ucases) + len(lcases) + len(ncases):]):
                it_ = iter(seq_)
                SGM.cauchy_distribution = lambda loc, scale, size, _it=it_: np.array([next(_it)], dtype=np.float64)
                real = float(sgn._randc(0.5, 0.1))
                val = None if g == "none" else int(g.split("/")[0]) / int(g.split("/")[1])
                chk.count("np_kernel_randc")
                (chk.agree("np_kernel:shaga_randc") if val is not None and real == val else chk.disagree("np_kernel:shaga_randc", {"input": {"cauchy_values": seq_}, "impl": real, "model": g}))
            for v_, g in zip(ncases, jgot[len(jcases) + len(ucases) + len(lcases):]):
                SGM.cauchy_distribution = lambda loc, scale, size, _v=v_: np.array([_v], dtype=np.float64)
                real = float(sgn._randn(0.5, 0.1))
                val = None if g == "none" else int(g.split("/")[0]) / int(g.split("/")[1])
                chk.count("np_kernel_randn")
                (chk.agree("np_kernel:shaga_randn") if val is not None and real == val else chk.disagree("np_kernel:shaga_randn", {"input": {"cauchy_value": v_}, "impl": real, "model": g}))
        finally:
            SGM.cauchy_distribution = saved_cauchy
        for (which, x_, w_), g in zip(lcases, jgot[len(jcases) + len(ucases):]):
            with np.errstate(all="ignore"):
                real = float(SHM.lehmer_mean(np.array(x_, dtype=np.float64), weight=np.array(w_, dtype=np.float64)) if which == "w" else SHM.lehmer_mean(np.array(x_, dtype=np.float64)))
            val = None if g == "none" else int(g.split("/")[0]) / int(g.split("/")[1])
            chk.count("np_kernel_lehmer_" + which)
            (chk.agree("np_kernel:lehmer_mean") if val is not None and C.close(real, val, 1e-9, 1e-12) else
             chk.disagree("np_kernel:lehmer_mean", {"input": {"x": x_, "weight": w_ if which == "w" else None}, "impl": real, "model": g}))
        import re as _re
        from thefittest.optimizers import SHADE as _SHADE
        sh_ = _SHADE(fitness_function=lambda x: np.sum(x, axis=1), iters=2, pop_size=4, left_border=-1.0, right_border=1.0, num_variables=2)
        sg_ = _SHAGA(fitness_function=lambda x: np.sum(x, axis=1, dtype=np.float64), iters=2, pop_size=4, str_len=8)
        for (which, u_, S_, df_), g in zip(ucases, jgot[len(jcases):]):
            with np.errstate(all="ignore"):
                real = float(sh_._update_u_CR(u_, np.array(S_, dtype=np.float64), np.array(df_, dtype=np.float64)) if which == "CR" else
                             sg_._update_u(u_, np.array(S_, dtype=np.float64), np.array(df_, dtype=np.float64)))
            val = None if g == "none" else int(g.split("/")[0]) / int(g.split("/")[1])
            chk.count("np_kernel_update_" + which)
            (chk.agree("np_kernel:update_" + which) if val is not None and C.close(real, val, 1e-9, 1e-12) else
             chk.disagree("np_kernel:update_" + which, {"input": {"u": u_, "S": S_, "df": df_}, "impl": real, "model": g}))
        saved_uniform = JM.uniform
        try:
            for (which, cur, rate, d0, d1, fmin, fmax), g in zip(jcases, jgot):
                jo = _jDE(fitness_function=lambda x: np.sum(x, axis=1), iters=2, pop_size=len(cur), left_border=-1.0, right_border=1.0, num_variables=2,
                          F_min=fmin, F_max=fmax, t_F=rate, t_CR=rate)
                feed = [np.array(d0, dtype=np.float64), np.array(d1, dtype=np.float64)]
                asked = []

                def fake_uniform(lo, hi, size, _feed=feed, _asked=asked):
                    _asked.append(int(size))
                    return _feed[len(_asked) - 1].copy()
                JM.uniform = fake_uniform
                if which == "F":
                    jo._F = np.array(cur, dtype=np.float64)
                    real = [float(v) for v in jo._get_mutate_F()]
                else:
                    jo._CR = np.array(cur, dtype=np.float64)
                    real = [float(v) for v in jo._get_mutate_CR()]
                vals = None if g == "none" else [int(a) / int(b) for a, b in _re.findall(r"\((-?\d+), (\d+)\)", g)]
                chk.count("np_kernel_jde_" + which)
                same = vals is not None and asked == [len(d0), len(d1)] and len(vals) == len(real) and all(C.close(a, b, 1e-12, 1e-12) for a, b in zip(real, vals))
                (chk.agree("np_kernel:jde_mutate_" + which) if same else
                 chk.disagree("np_kernel:jde_mutate_" + which, {"input": {"current": cur, "rate": rate, "first_draw": d0, "second_draw": d1, "F_min": fmin, "F_max": fmax,
                                                                          "sizes_asked": asked}, "impl": real, "model": g}))
        finally:
            JM.uniform = saved_uniform

    # ---- SHADE's parameter generation called directly with the memories at their extremes (H_CR cells at 0 or 1, where half of the CR draws
    #      are clipped to the border): every F in (0, 1], every CR in [0, 1], and F and CR are two arrays
    from thefittest.optimizers import SHADE as _SHADE2
    for hcr_, hf_ in ((0.0, 0.9), (1.0, 0.05), (0.0, 0.05), (0.5, 0.5)):
        sg2 = _SHADE2(fitness_function=lambda x: np.sum(x, axis=1), iters=2, pop_size=12, left_border=-1.0, right_border=1.0, num_variables=2)
        from thefittest.utils.random import numba_seed as _ns
        _ns(chk.seed * 10 + 7)
        sg2._H_F = np.full(sg2._H_size, hf_, dtype=np.float64)
        sg2._H_CR = np.full(sg2._H_size, hcr_, dtype=np.float64)
        try:
            F2, CR2 = sg2._generate_F_CR()
            F2, CR2 = np.asarray(F2, dtype=np.float64), np.asarray(CR2, dtype=np.float64)
        except Exception as e:  # noqa
            chk.fail("SHADE's parameter generation raises", {"H_F": hf_, "H_CR": hcr_, "error": repr(e)[:160]}, {"optimizer": "SHADE", "clause": "raises"})
            continue
        chk.count("shade_generate_direct")
        chk.case(("shade_generate", hcr_, hf_))
        if np.any(~(F2 > 0)) or np.any(F2 > 1) or np.any(~(CR2 >= 0)) or np.any(CR2 > 1) or np.shares_memory(F2, CR2) or len(F2) != 12 or len(CR2) != 12:
            chk.fail("a drawn control parameter is outside its stated range",
                     {"call": "SHADE._generate_F_CR with every H_F cell = %g and every H_CR cell = %g" % (hf_, hcr_), "F": F2.tolist(), "CR": CR2.tolist(),
                      "F_and_CR_share_memory": bool(np.shares_memory(F2, CR2))}, {"optimizer": "SHADE", "clause": "range", "nan": False})

    # ---- runs
    runs = []
    sid = 0
    for cn in ("SHADE", "SHAGA", "jDE"):
        for pop in ((3, 5, 8) if cn != "SHADE" else (4, 5, 8)):
            for obj in (("sphere", "plateau", "ties", "asym") if cn != "SHAGA" else ("onemax", "plateau", "ties", "asym")):
                sid += 1
                if tier == "quick" and sid % 2 == 0 and obj not in ("ties", "onemax", "sphere"):
                    continue
                cfg = dict(pop_size=pop, iters=3 * pop + 3, objective=obj, elitism=(sid % 2 == 0), minimization=(sid % 3 == 0),
                           seed=chk.seed * 100 + sid, keep_history=True)
                if cn == "SHAGA":
                    cfg["str_len"] = [12, 30][sid % 2]
                runs.append((cn, cfg))
    for j, (fmin, fmax) in enumerate(((0.5, 0.4), (0.2, 0.1), (0.1, 0.9))):
        runs.append(("jDE", dict(pop_size=8, iters=12, objective="sphere", seed=chk.seed * 100 + 70 + j, keep_history=True, F_min=fmin, F_max=fmax, t_F=0.6, t_CR=0.6)))
    # a population larger than 100 (history length = pop_size whatever the size), short run
    runs.append(("SHADE", dict(pop_size=103, iters=3, objective="sphere", seed=chk.seed * 100 + 88, keep_history=True)))
    # jDE long enough for a new best to appear in another slot than the last after the parameters have diverged, elitism on
    runs.append(("jDE", dict(pop_size=12, iters=30, objective="sphere", minimization=True, elitism=True, seed=chk.seed * 100 + 89, keep_history=True, t_F=0.3, t_CR=0.3)))
    # failed evaluations reported as -inf while maximising: an improvement FROM a failed parent is infinite
    runs.append(("SHADE", dict(pop_size=8, iters=10, objective="fail_lo", seed=chk.seed * 100 + 91, keep_history=True)))
    runs.append(("SHAGA", dict(pop_size=8, iters=10, objective="fail_lo", str_len=12, seed=chk.seed * 100 + 92, keep_history=True)))
    # failed evaluations reported as NaN: such a trial is never accepted, so the individual keeps its parameters
    runs.append(("jDE", dict(pop_size=10, iters=10, objective="fail_nan", seed=chk.seed * 100 + 93, keep_history=True, t_F=0.7, t_CR=0.7)))
    # strings shorter than 5 bits: mutation rates up to 5/str_len > 1
    for j, sl in enumerate((2, 3, 4)):
        runs.append(("SHAGA", dict(pop_size=6, iters=12, objective="asym", str_len=sl, minimization=(j == 1), seed=chk.seed * 100 + 94 + j, keep_history=True)))
    # objectives in very small units (improvements far below numpy.isclose's absolute tolerance)
    for j, mn in enumerate((True, False)):
        runs.append(("SHADE", dict(pop_size=8, iters=14, objective="tiny", minimization=mn, seed=chk.seed * 100 + 80 + j, keep_history=True)))
        runs.append(("jDE", dict(pop_size=8, iters=10, objective="tiny", minimization=mn, seed=chk.seed * 100 + 84 + j, keep_history=True)))
    # the replay input of finding F9 stays in the corpus
    runs.insert(0, ("SHAGA", dict(pop_size=3, iters=25, objective="onemax", str_len=30, seed=2, elitism=True, keep_history=True)))
    for cn, cfg in runs:
        d = {"optimizer": cn, **cfg}
        try:
            with np.errstate(all="ignore"):
                rec, log = observe(cn, cfg)
        except AttributeError as e:
            if cfg["objective"] == "fail_lo" and "_genotype" in str(e):
                # every individual of the first generation failed: the record is never set (outside every stated domain, DESIGN section 7)
                chk.count("first_generation_all_failed")
                continue
            raise
        opt = rec.opt
        chk.count(cn)
        chk.case((cn, json.dumps(cfg, sort_keys=True)), sample=d if len(chk.samples) < 4 else None)
        pop = cfg["pop_size"]
        replaced_parents = []
        for gi, g in enumerate(log):
            b, a, tf = g["before"], g["after"], g["trial_fit"]
            dd = {"run": d, "generation": gi + 1}
            succ = tf > b["fit"]
            mask = tf >= b["fit"]
            df = np.abs(b["fit"][succ] - tf[succ])
            if cn == "jDE":
                F, CR = a["_F"], a["_CR"]
                lo, hi = opt._F_min, opt._F_min + opt._F_max
                regen = a["_F"] != b["_F"]
                if np.any(F[regen] < lo - 1e-15) or np.any(F[regen] > hi + 1e-15):
                    chk.fail("a regenerated jDE F lies outside [F_min, F_min + F_max]", {**dd, "F_min": lo, "F_max": opt._F_max, "regenerated": F[regen].tolist()}, {"optimizer": cn, "clause": "range"})
                if np.any(F < min(lo, 0.5) - 1e-15) or np.any(F > max(hi, 0.5) + 1e-15) or np.any(CR < 0) or np.any(CR > 1):
                    chk.fail("jDE parameters outside [F_min, F_min+F_max] / [0,1]", {**dd, "F": F.tolist(), "CR": CR.tolist()}, {"optimizer": cn, "clause": "range"})
                changed = (a["_F"] != b["_F"]) | (a["_CR"] != b["_CR"])
                if np.any(changed & ~mask):
                    chk.fail("a jDE individual's F/CR changed although its trial was rejected", dd, {"optimizer": cn, "clause": "acceptance"})
                # ... and nothing else touches them between two generations (record keeping, the elitism step)
                if gi + 1 < len(log):
                    nb = log[gi + 1]["before"]
                    moved = (nb["_F"] != a["_F"]) | (nb["_CR"] != a["_CR"])
                    if np.any(moved):
                        i_ = int(np.argmax(moved))
                        chk.fail("a jDE individual's F/CR changed although its trial was rejected",
                                 {**dd, "individual": i_, "when": "between the end of this generation and the start of the next one",
                                  "CR": [float(a["_CR"][i_]), float(nb["_CR"][i_])], "F": [float(a["_F"][i_]), float(nb["_F"][i_])]}, {"optimizer": cn, "clause": "acceptance_between"})
                continue
            hkeys = ("_H_F", "_H_CR") if cn == "SHADE" else ("_H_MR", "_H_CR")
            pF = a["_F"] if cn == "SHADE" else a["_MR"]
            pCR = a["_CR"]
            upper = 1.0 if cn == "SHADE" else 5.0 / cfg["str_len"]
            if np.any(~(pF > 0)) or np.any(pF > upper + 1e-15) or np.any(~(pCR >= 0)) or np.any(pCR > 1):
                chk.fail("a drawn control parameter is outside its stated range", {**dd, "first": pF.tolist(), "CR": [str(x) for x in pCR.tolist()], "upper": upper},
                         {"optimizer": cn, "clause": "range", "nan": bool(np.any(np.isnan(pCR)) or np.any(np.isnan(pF)))})
            H = len(b[hkeys[0]])
            nk = (b["k"] + 1) % H
            if a["k"] != nk or H != pop:
                chk.fail("the memory index does not advance one cell per generation cyclically (history length = pop_size)", {**dd, "k_before": b["k"], "k_after": a["k"], "H": H},
                         {"optimizer": cn, "clause": "ring"})
            for hk in hkeys:
                hb, ha = b[hk], a[hk]
                lo_open = hk != "_H_CR"
                if np.any(np.isnan(ha)) or np.any(ha < 0) or np.any(ha > (1.0 if hk != "_H_MR" else upper) + 1e-15) or (lo_open and np.any(ha <= 0)):
                    chk.fail("a success-history memory cell is outside its range", {**dd, "memory": hk, "cells": [str(x) for x in ha.tolist()]},
                             {"optimizer": cn, "clause": "memory_range", "nan": bool(np.any(np.isnan(ha)))})
                    continue
                others = [i for i in range(H) if i != nk]
                if any(ha[i] != hb[i] and not (np.isnan(ha[i]) and np.isnan(hb[i])) for i in others):
                    chk.fail("more than the one cyclic-successor memory cell was written in a generation", {**dd, "memory": hk}, {"optimizer": cn, "clause": "ring"})
                S = (pF if hk != "_H_CR" else pCR)[succ]
                u = float(hb[b["k"]])
                if len(S) == 0 and ha[nk] != u:
                    chk.fail("without successes the written cell is not a copy of the preceding cell", {**dd, "memory": hk}, {"optimizer": cn, "clause": "copy"})
                if any(np.isnan(x) for x in list(S) + [u]):
                    continue
                # S4: the documented SHADE rules recomputed exactly (Lehmer mean of the successful F; improvement-weighted
                # arithmetic mean of the successful CR)
                if cn == "SHADE" and len(S):
                    Sf = [Fraction(float(v)) for v in S]
                    dff = weights_of(df)
                    if hk == "_H_F":
                        want = sum(v * v for v in Sf) / sum(Sf) if sum(Sf) != 0 else Fraction(0)
                    else:
                        want = sum(w * v for w, v in zip(dff, Sf)) / sum(dff) if sum(dff) > 0 else Fraction(u)
                    if not C.close(float(ha[nk]), float(want), 1e-9, 1e-12):
                        chk.fail("the written SHADE memory cell is not the documented mean of the successful parameters",
                                 {**dd, "memory": hk, "written": float(ha[nk]), "rule": float(want), "successes": int(len(S)), "total_improvement": float(sum(dff))},
                                 {"optimizer": cn, "clause": "rule", "memory": hk})
                # S4 for SHAGA: both memories are written with the improvement-weighted Lehmer mean of the successful parameters
                # (improvements measured on the normalised fitness, so they are positive for minimisation and maximisation alike)
                if cn == "SHAGA" and len(S):
                    Sf = [Fraction(float(v)) for v in S]
                    dff = weights_of(df)
                    if sum(dff) > 0:
                        den = sum(w * v for w, v in zip(dff, Sf))
                        want = sum(w * v * v for w, v in zip(dff, Sf)) / den if den != 0 else Fraction(0)    # the Lehmer mean of zeros is 0
                    else:
                        want = Fraction(u)
                    if not C.close(float(ha[nk]), float(want), 1e-9, 1e-12):
                        chk.fail("the written SHAGA memory cell is not the improvement-weighted Lehmer mean of the parameters of the strictly improving trials",
                                 {**dd, "memory": hk, "written": float(ha[nk]), "rule": float(want), "preceding_cell": u, "successes": int(len(S)), "total_improvement": float(sum(dff))},
                                 {"optimizer": cn, "clause": "rule", "memory": hk})
                if cn == "SHADE" and hk == "_H_F":
                    add({"op": "ad_update_f", "u": C.rat(u), "S": [C.rat(float(v)) for v in S]}, ("update_F:SHADE", {**dd, "u": u, "S": S.tolist()}, float(ha[nk])))
                elif any(float(v) == float("inf") for v in df):
                    chk.count("infinite_improvement")
                elif cn == "SHADE":
                    add({"op": "ad_update_cr", "u": C.rat(u), "S": [C.rat(float(v)) for v in S], "df": [C.rat(float(v)) for v in df]},
                        ("update_CR:SHADE", {**dd, "u": u, "S": S.tolist(), "df": df.tolist()}, float(ha[nk])))
                else:
                    add({"op": "ad_update_u", "u": C.rat(u), "S": [C.rat(float(v)) for v in S], "df": [C.rat(float(v)) for v in df]},
                        ("update_U:SHAGA:" + hk, {**dd, "u": u, "S": S.tolist(), "df": df.tolist()}, float(ha[nk])))
            if cn == "SHADE":
                arch = a["archive"]
                replaced_parents += [tuple(r) for r in b["pop"][succ]]
                if len(arch) > pop:
                    chk.fail("the SHADE archive exceeds pop_size", {**dd, "archive": len(arch)}, {"optimizer": cn, "clause": "archive_size"})
                if any(tuple(r) not in set(replaced_parents) for r in arch):
                    chk.fail("the SHADE archive contains a vector that is not a parent replaced by a strictly better trial", dd, {"optimizer": cn, "clause": "archive_content"})

    try:
        outs = C.lean_driver([json.dumps(o) for o in ops])
    except Exception as e:
        chk.obligation("driver run", False, str(e))
        outs = []
    for o, (kind, inp, impl) in zip(outs, ctx):
        if "error" in o:
            chk.disagree(kind, {"input": inp, "impl": impl, "model_error": o["error"]})
            continue
        m = o["ok"]
        ok = m is not None and C.close(impl, C.frac(m))
        (chk.agree(kind) if ok else chk.disagree(kind, {"input": inp, "impl": impl, "model": None if m is None else float(C.frac(m))}))
    chk.notes.append("SHADE/SHAGA/jDE x pop sizes 3..8 with >= 3*pop generations (memory wrap-around) x objectives with plateaus/ties (no successes) and improving ones; every generation's written memory cell recomputed by the model")
    return chk.finish()


def replay(path: str) -> int:
    return main("quick")
