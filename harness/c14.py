"""C14 — self-configuration keeps operator probabilities a distribution and uses them.

Observation (all from outside, on live SelfCGA / SelfCGP / PDPGA / PDPGP instances): wrappers
around `_adapt`, `_choice_operators` and `_get_new_individ_g`.
S3: the probability update recomputed by TFV.Model.SelfConf from the observed operators and
(post-elitism) fitness, at 1e-9; the operator draws recomputed from mirrored uniform draws.
S4: keys, positivity, sum, floor; one re-draw per kind per generation FROM THE UPDATED
probabilities; the operator triple applied to individual i is the one drawn for it.
"""
from __future__ import annotations

import json
from fractions import Fraction

import numpy as np

import common as C
import ea_trace as T
from c11 import mirror_ok

KINDS = ("selection", "crossover", "mutation")


def observe(cls_name, cfg, chk, mirror):
    """run one optimizer with the observation wrappers; returns the per-generation log"""
    from thefittest.utils.random import numba_seed
    rec = T.Recorder(cls_name, cfg)
    opt, kw = T.build(cls_name, cfg, rec)
    log = {"adapt": [], "choice": [], "individ": [], "gen_of_individ": []}
    attr = {"selection": ("_selection_proba", "_selection_operators"), "crossover": ("_crossover_proba", "_crossover_operators"),
            "mutation": ("_mutation_proba", "_mutation_operators")}
    orig_adapt, orig_choice, orig_ind = opt._adapt, opt._choice_operators, opt._get_new_individ_g
    counter = {"n": 0}

    def choice(proba_dict):
        counter["n"] += 1
        seed = 900_000 + cfg["seed"] * 1000 + counter["n"]
        if mirror:
            numba_seed(seed)          # re-seeding only changes which random numbers this legitimate run sees
        out = orig_choice(proba_dict=proba_dict)
        log["choice"].append({"proba": dict(proba_dict), "out": list(out), "seed": seed, "gen": len(rec.snaps)})
        return out

    def adapt():
        before = {k: (dict(getattr(opt, attr[k][0])), list(getattr(opt, attr[k][1]))) for k in KINDS}
        prev = list(getattr(opt, "_previous_fitness_i", []))
        fit = [float(v) for v in opt._fitness_i]
        n0 = len(log["choice"])
        orig_adapt()
        after = {k: (dict(getattr(opt, attr[k][0])), list(getattr(opt, attr[k][1]))) for k in KINDS}
        log["adapt"].append({"before": before, "after": after, "fitness": fit, "prev": prev, "choices": log["choice"][n0:], "gen": len(rec.snaps)})

    # which pool entries are really APPLIED while one individual is created: every entry's function reports its name
    applied = []

    def named(kind, name, fn):
        def call(*a, **k):
            applied.append((kind, name))
            return fn(*a, **k)
        return call
    for kind, pool in (("selection", opt._selection_pool), ("crossover", opt._crossover_pool), ("mutation", opt._mutation_pool)):
        for name in list(pool.keys()):
            entry = pool[name]
            pool[name] = (named(kind, name, entry[0]),) + tuple(entry[1:])
    log["applied_mismatch"] = []

    def individ(s, c, m):
        log["individ"].append((len(rec.snaps), str(s), str(c), str(m)))
        del applied[:]
        out = orig_ind(s, c, m)
        if applied != [("selection", str(s)), ("crossover", str(c)), ("mutation", str(m))] and len(log["applied_mismatch"]) < 3:
            log["applied_mismatch"].append({"generation": len(rec.snaps), "drawn": [str(s), str(c), str(m)], "applied": [list(x) for x in applied]})
        return out
    opt._adapt, opt._choice_operators, opt._get_new_individ_g = adapt, choice, individ
    # other self-configuring optimizers with OTHER floors / operator counts are constructed before this one runs
    for cn2 in ("SelfCGA", "PDPGA", "SelfCGP", "PDPGP"):
        dec = dict(pop_size=8 if cn2.endswith("GA") else 7, iters=2, objective="onemax", seed=1)
        dec.update(dict(selections=("rank",), crossovers=("one_point",) if cn2.endswith("GA") else ("gp_standard",), mutations=("weak",) if cn2.endswith("GA") else ("gp_weak_point",)))
        if cn2.startswith("SelfC"):
            dec.update(selection_threshold_proba=0.2, crossover_threshold_proba=0.15, mutation_threshold_proba=0.1)
        T.build(cn2, dec, T.Recorder(cn2, dec))
    opt.fit()
    rec.opt = opt
    return rec, log


def main(tier: str) -> int:
    chk = C.Check("C14", tier)
    chk.lean()
    mirror = mirror_ok()
    chk.obligation("draw oracle: numba streams == RandomState mirror", mirror, "")
    ops, ctx = [], []

    def add(op, c):
        ops.append(op)
        ctx.append(c)

    ga_sets = [
        dict(),  # defaults
        dict(selections=("rank",), crossovers=("one_point",), mutations=("weak",)),
        dict(selections=("proportional", "tournament_3"), crossovers=("empty", "uniform_2"), mutations=("weak", "strong")),
        dict(selections=("tournament_k", "rank"), crossovers=("two_point", "uniform_rank_2", "uniform_tour_3"), mutations=("average",)),
        dict(selections=("rank",), crossovers=("empty",), mutations=("custom_rate",)),
    ]
    gp_sets = [
        dict(),
        dict(selections=("rank",), crossovers=("gp_standard",), mutations=("gp_weak_point",)),
        dict(selections=("proportional", "tournament_3"), crossovers=("gp_empty", "gp_one_point"), mutations=("gp_weak_grow", "gp_strong_shrink")),
        dict(selections=("tournament_5",), crossovers=("gp_empty",), mutations=("gp_average_swap",)),
    ]
    def rule_selfc(pb, ks, ops_used, fitness, K, iters, thr):
        """the documented SelfC* rule, recomputed independently in exact rationals"""
        means = {}
        for o, f in zip(ops_used, fitness):
            means.setdefault(str(o), []).append(Fraction(float(f)))
        best = None
        for k_ in sorted(means):
            m_ = sum(means[k_]) / len(means[k_])
            if best is None or m_ > best[1]:
                best = (k_, m_)
        z = len(ks)
        vals = []
        for k_ in ks:
            v = Fraction(float(pb[k_])) + (Fraction(float(K)) / iters if k_ == best[0] else 0) - Fraction(float(K)) / (z * iters)
            vals.append(min(max(v, Fraction(float(thr))), Fraction(1)))
        tot = sum(vals)
        return [v / tot for v in vals]

    def rule_pdp(ks, ops_used, succ, thr):
        r = []
        for k_ in ks:
            g = [s_ for o, s_ in zip(ops_used, succ) if str(o) == k_]
            r.append(Fraction(sum(g) ** 2 + 1, len(g) + 1) if g else Fraction(0))
        tot = sum(r)
        return [Fraction(float(thr)) + rk * (1 - len(ks) * Fraction(float(thr))) / tot for rk in r]

    runs = []
    sid = 0
    for cn in ("SelfCGA", "PDPGA", "SelfCGP", "PDPGP"):
        sets = ga_sets if cn.endswith("GA") else gp_sets
        for si, st in enumerate(sets):
            for oi, obj in enumerate(("onemax", "plateau", "ties") if tier == "quick" else ("onemax", "plateau", "ties", "negative", "asym")):
                if tier == "quick" and si >= 2 and oi >= 1:
                    continue
                sid += 1
                cfg = dict(pop_size=[8, 12, 20][sid % 3] if cn.endswith("GA") else [8, 9][sid % 2], iters=6 if cn.endswith("GA") else 5,
                           objective=obj, elitism=(sid % 2 == 0), minimization=(sid % 5 == 0), seed=chk.seed * 100 + sid, keep_history=True, **st)
                if cn.startswith("SelfC") and sid % 3 == 0:
                    cfg["K"] = [0.5, 2, 5][sid % 3]
                runs.append((cn, cfg))
    # an objective with a large constant part: group means differ by ~1e-6 relative
    for cn in ("SelfCGA", "SelfCGP"):
        sid += 1
        runs.append((cn, dict(pop_size=12, iters=8 if cn.endswith("GA") else 6, objective="offset6", elitism=False, seed=chk.seed * 100 + sid, keep_history=True)))
    # an objective that returns an INTEGER array (counts): the group means are still fractions
    for cn in ("SelfCGA", "SelfCGP"):
        for mn in (False, True):
            sid += 1
            runs.append((cn, dict(pop_size=24 if cn.endswith("GA") else 14, iters=10 if cn.endswith("GA") else 6, objective="int", elitism=False, minimization=mn,
                                  seed=chk.seed * 100 + sid, keep_history=True)))
    # distinct floors per operator kind, long enough for a losing operator to reach its floor
    for cn in ("SelfCGA", "SelfCGP"):
        sid += 1
        runs.append((cn, dict(pop_size=10, iters=12 if cn.endswith("GA") else 8, objective="onemax", elitism=True, seed=chk.seed * 100 + sid, keep_history=True, K=3,
                              selection_threshold_proba=0.02, crossover_threshold_proba=0.08, mutation_threshold_proba=0.2)))
    # "all thresholds", with the 'empty' crossover (its start value is fixed at 0.1): floors above and below 0.1
    for thr_c in (0.15, 0.3):
        sid += 1
        runs.append(("SelfCGA", dict(pop_size=10, iters=6, objective="onemax", elitism=True, seed=chk.seed * 100 + sid, keep_history=True, K=2,
                                     crossovers=("empty", "uniform_2", "one_point") if thr_c > 0.2 else ("empty", "uniform_2"), crossover_threshold_proba=thr_c)))
    for cn, cfg in runs:
        d = {"optimizer": cn, **{k: (list(v) if isinstance(v, tuple) else v) for k, v in cfg.items()}}
        try:
            rec, log = observe(cn, cfg, chk, mirror)
        except ZeroDivisionError as e:
            chk.fail("a configured operator subset raises ZeroDivisionError", {"run": d, "error": repr(e)}, {"optimizer": cn, "clause": "raises", "error": "ZeroDivisionError"})
            continue
        chk.count(cn)
        chk.case((cn, json.dumps(d, sort_keys=True, default=str)), sample=d if len(chk.samples) < 4 else None)
        opt = rec.opt
        pdp = cn.startswith("PDP")
        names = {"selection": sorted(opt._selection_set), "crossover": sorted(opt._crossover_set), "mutation": sorted(opt._mutation_set)}
        # ... which must be exactly the names that were CONFIGURED (where the run configures them)
        wrong_names = False
        for kind, key in (("selection", "selections"), ("crossover", "crossovers"), ("mutation", "mutations")):
            if key in cfg and sorted(cfg[key]) != names[kind]:
                chk.fail("the operator distribution is not over exactly the configured operator names",
                         {"run": d, "kind": kind, "configured": sorted(cfg[key]), "used_by_the_optimizer": names[kind]}, {"optimizer": cn, "clause": "names"})
                wrong_names = True
        if wrong_names:
            continue
        st = opt.get_stats()
        gens = len(rec.snaps)

        def thr_of(kind, _cfg=cfg, _pdp=pdp, _names=names):
            # the floor as CONFIGURED (not as the instance reports it)
            return 0.2 / len(_names[kind]) if _pdp else float(_cfg.get(kind + "_threshold_proba", 0.05))
        # ---- the probabilities are updated (and the operators re-drawn) once in EVERY generation, the last one included
        if len(log["adapt"]) != gens:
            chk.fail("the operator probabilities are not updated once in every generation",
                     {"run": d, "generations": gens, "updates": len(log["adapt"])}, {"optimizer": cn, "clause": "every_generation"})
        # ---- distributions of every generation (as recorded) are distributions over the configured names
        for g in range(gens):
            for kind, key in zip(KINDS, ("s_proba", "c_proba", "m_proba")):
                p = st[key][g]
                thr = thr_of(kind)
                vals = [float(v) for v in p.values()]
                z = len(names[kind])
                S_max = 1 + z * thr + (0 if pdp else opt._K / opt._iters)
                floor = thr if pdp else thr / S_max
                if sorted(p.keys()) != names[kind] or any(not (v > 0) for v in vals) or abs(sum(vals) - 1) > 1e-9 or any(v < floor - 1e-12 for v in vals):
                    chk.fail("operator probabilities are not a positive distribution over the configured names above the floor",
                             {"run": d, "generation": g, "kind": kind, "proba": {k: float(v) for k, v in p.items()}, "floor": floor},
                             {"optimizer": cn, "clause": "distribution"})
        # ---- per generation: update rule + re-draw from the UPDATED probabilities
        for a in log["adapt"]:
            g = a["gen"]
            for kind in KINDS:
                pb, ob = a["before"][kind]
                pa, oa = a["after"][kind]
                ks = names[kind]
                if sorted(pa.keys()) != ks or sorted(pb.keys()) != ks or any(str(o) not in ks for o in ob):
                    chk.fail("operator probabilities are not a positive distribution over the configured names above the floor",
                             {"run": d, "generation": g, "kind": kind, "configured": ks, "names_after_the_update": sorted(pa.keys())},
                             {"optimizer": cn, "clause": "names_dropped"})
                    break
                opsidx = [ks.index(str(o)) for o in ob]
                thr = thr_of(kind)
                # S4: the documented update rule, recomputed independently
                fit_exact = all(float(f).is_integer() and abs(f) < 1e9 for f in a["fitness"])
                exp = None
                if pdp and a["prev"]:
                    exp = rule_pdp(ks, ob, [bool(x < y) for x, y in zip(a["prev"], a["fitness"])], thr)
                elif not pdp and fit_exact:
                    exp = rule_selfc(pb, ks, ob, a["fitness"], opt._K, opt._iters, thr)
                if exp is not None and not all(C.close(float(pa[k_]), e_) for k_, e_ in zip(ks, exp)):
                    chk.fail("the probabilities are not updated by the documented rule from the operators that created the population and its fitness",
                             {"run": d, "generation": g, "kind": kind, "operators": [str(o) for o in ob][:12], "before": {k_: float(pb[k_]) for k_ in ks},
                              "after": {k_: float(pa[k_]) for k_ in ks}, "rule": {k_: float(e_) for k_, e_ in zip(ks, exp)}},
                             {"optimizer": cn, "clause": "rule", "kind": kind})
                if pdp and g >= 1 and kind == "selection" and len(a["prev"]) != cfg["pop_size"]:
                    chk.fail("a PDP optimizer did not record one parent fitness per offspring, so its probabilities cannot follow the documented rule",
                             {"run": d, "generation": g, "recorded": len(a["prev"]), "pop_size": cfg["pop_size"]}, {"optimizer": cn, "clause": "rule_inputs"})
                if pdp:
                    if a["prev"]:
                        succ = [bool(x < y) for x, y in zip(a["prev"], a["fitness"])]
                        add({"op": "sc_pdp", "n": len(ks), "ops": opsidx, "succ": succ, "thr": C.rat(thr)},
                            ("pdp_update:" + cn, {"run": d, "generation": g, "kind": kind, "operators": [str(o) for o in ob], "success": succ}, [float(pa[k]) for k in ks]))
                    elif pa != pb:
                        chk.fail("PDP probabilities changed although no parent fitness was recorded", {"run": d, "generation": g, "kind": kind}, {"optimizer": cn, "clause": "update"})
                else:
                    fit_int = all(float(f).is_integer() and abs(f) < 1e9 for f in a["fitness"])
                    if fit_int:  # group means are then exact in double precision, ties are ties
                        add({"op": "sc_fittest", "n_ops": len(ks), "ops": opsidx, "fit": [C.rat(f) for f in a["fitness"]]},
                            ("fittest:" + cn, {"run": d, "generation": g, "kind": kind, "operators": [str(o) for o in ob], "fitness": a["fitness"]}, None))
                        # winner from the implementation = the only entry whose pre-normalisation value rose; recover it by the rule
                        means = {}
                        for o, f in zip(ob, a["fitness"]):
                            means.setdefault(str(o), []).append(f)
                        best = max(sorted(means), key=lambda k: (np.mean(means[k]), -sorted(means).index(k)))
                        w = ks.index(best)
                        add({"op": "sc_new_proba", "p": [C.rat(float(pb[k])) for k in ks], "winner": w, "K": C.rat(float(opt._K)), "iters": int(opt._iters), "thr": C.rat(thr)},
                            ("selfc_update:" + cn, {"run": d, "generation": g, "kind": kind, "before": {k: float(pb[k]) for k in ks}, "winner": best}, [float(pa[k]) for k in ks]))
                        ctx[-2] = (ctx[-2][0], ctx[-2][1], w)
                # the re-draw
                mine = [c for c in a["choices"] if sorted(c["proba"].keys()) == ks and all(abs(float(c["proba"][k]) - float(pa[k])) < 1e-15 for k in ks)]
                if not mine:
                    chk.fail("the operators of the next generation are not re-drawn from the updated probabilities",
                             {"run": d, "generation": g, "kind": kind, "redraws_this_generation": len(a["choices"])},
                             {"optimizer": cn, "clause": "redraw"})
                    continue
                c = mine[-1]
                if [str(x) for x in c["out"]] != [str(x) for x in oa] or len(oa) != cfg["pop_size"]:
                    chk.fail("the drawn operators are not installed one per individual", {"run": d, "generation": g, "kind": kind}, {"optimizer": cn, "clause": "redraw"})
                if any(str(x) not in ks for x in oa):
                    chk.fail("an operator outside the configured set was drawn", {"run": d, "generation": g, "kind": kind}, {"optimizer": cn, "clause": "support"})
                if mirror:
                    us = [Fraction(float(u)) for u in np.random.RandomState(c["seed"]).random_sample(len(c["out"]))]
                    pr = [Fraction(float(c["proba"][k])) for k in ks]
                    cum = np.cumsum([float(c["proba"][k]) for k in ks])
                    safe = all(min(abs(float(u) * cum[-1] - cc) for cc in cum) > 1e-9 for u in us)
                    if safe:
                        add({"op": "sc_draw", "p": [C.rat(x) for x in pr], "us": [C.rat(u) for u in us]},
                            ("draw:" + cn, {"run": d, "generation": g, "kind": kind, "proba": {k: float(c["proba"][k]) for k in ks}, "seed": c["seed"]}, [ks.index(str(x)) for x in c["out"]]))
        # ---- the triple applied to individual i in generation g+1 is the one drawn after generation g
        by_gen = {}
        for g, s, c, m in log["individ"]:
            by_gen.setdefault(g, []).append((s, c, m))
        for a in log["adapt"]:
            g = a["gen"]
            used = by_gen.get(g + 1)   # adapt of generation g runs before its snapshot is appended
            if used is None:
                continue
            drawn = list(zip(*[[str(x) for x in a["after"][k][1]] for k in KINDS]))
            if used != drawn:
                chk.fail("the operator triple applied to an individual is not the one drawn for it from the updated probabilities",
                         {"run": d, "generation": g + 1, "first_used": used[:2], "first_drawn": drawn[:2]}, {"optimizer": cn, "clause": "uses"})
        for mm in log["applied_mismatch"][:1]:
            chk.fail("the operator triple applied to an individual is not the one drawn for it from the updated probabilities",
                     {"run": d, **mm, "scenario": "the pool entries whose functions ran while this individual was created"}, {"optimizer": cn, "clause": "uses_applied"})
        # PDP*: the operator arrays must change across generations when several operators exist
        if pdp and gens >= 4 and any(len(names[k]) > 1 for k in KINDS):
            arrs = [tuple(tuple(str(x) for x in a["after"][k][1]) for k in KINDS) for a in log["adapt"]]
            if len(set(arrs)) == 1:
                chk.fail("the operator assignment never changes over the generations (updated probabilities are never used)",
                         {"run": d, "generations": gens}, {"optimizer": cn, "clause": "redraw"})

    # ---- a second fit() of the same object adapts in every generation as well (nothing left over from the first run switches it off)
    for cn in ("SelfCGA", "PDPGA", "SelfCGP", "PDPGP"):
        cfg2 = dict(pop_size=8 if cn.endswith("GA") else 7, iters=4, objective="onemax", elitism=True, seed=chk.seed * 100 + 97, keep_history=True)
        rec2 = T.Recorder(cn, cfg2)
        opt2, _ = T.build(cn, cfg2, rec2)
        calls2 = {"n": 0, "changed": 0}
        oa2 = opt2._adapt

        def adapt2(_oa=oa2, _o=opt2, _c=calls2):
            before = (dict(_o._selection_proba), dict(_o._crossover_proba), dict(_o._mutation_proba))
            _oa()
            _c["n"] += 1
            _c["changed"] += before != (dict(_o._selection_proba), dict(_o._crossover_proba), dict(_o._mutation_proba))
        opt2._adapt = adapt2
        opt2.fit()
        first = calls2["n"]
        opt2.fit()
        chk.count("second_fit")
        chk.case(("second_fit", cn))
        if first != 4 or calls2["n"] != 8:
            chk.fail("the operator probabilities are not updated once in every generation",
                     {"optimizer": cn, "generations_per_fit": 4, "updates_in_first_fit": first, "updates_in_second_fit": calls2["n"] - first},
                     {"optimizer": cn, "clause": "every_generation_refit"})
    # ---- the TRANSLATED SelfCGA._get_new_proba (TFV/Generated/Src/SelfCGA_get_new_proba.lean, read through TFV.Model.NpQ) evaluated by Lean
    #      against the real method on small dyadic tables (the winner given as a key to the code, as its position to the model)
    import random as _pyrandom
    import subprocess
    from thefittest.optimizers import SelfCGA as _SelfCGA
    prng = _pyrandom.Random(chk.seed + 77)
    pcases = []
    for _ in range(24 if tier == "quick" else 200):
        z_ = prng.randint(1, 5)
        raw_ = [prng.randint(1, 8) for _ in range(z_)]
        tab_ = [v / 32 for v in raw_]
        pcases.append((tab_, prng.randrange(z_), prng.choice([1, 2, 4]), prng.choice([2, 4, 8]), prng.choice([0, 1, 2, 4]) / 32))
    q32 = lambda v: "[" + ", ".join("(%d : Rat) / 32" % int(round(x * 32)) for x in v) + "]"   # noqa: E731
    plines = ["import TFV.Generated.Src.SelfCGA_get_new_proba", "open TFV TFV.Generated.Src",
              "def showQ : Option (List Rat) → String | none => \"none\" | some v => toString (v.map fun q => (q.num, q.den))"]
    for tab_, w_, K_, it_, thr_ in pcases:
        plines.append("#eval IO.println (showQ (SelfCGA_get_new_proba %d %d %s %d ((%d : Rat) / 32)))" % (K_, it_, q32(tab_), w_, round(thr_ * 32)))
    paudit = C.LEAN / "TFV" / "Audit" / "C14_np.lean"
    paudit.parent.mkdir(parents=True, exist_ok=True)
    paudit.write_text("\n".join(plines) + "\n")
    with C.LeanLock():
        ppr = subprocess.run(["lake", "env", "lean", str(paudit.relative_to(C.LEAN))], cwd=C.LEAN, capture_output=True, text=True, timeout=900)
    pgot = [l.strip() for l in ppr.stdout.splitlines() if l.strip()]
    chk.obligation("the translated SelfCGA._get_new_proba evaluates (lake env lean TFV/Audit/C14_np.lean)", ppr.returncode == 0 and len(pgot) == len(pcases), (ppr.stdout + ppr.stderr)[-600:])
    if ppr.returncode == 0 and len(pgot) == len(pcases):
        import re as _re
        for (tab_, w_, K_, it_, thr_), g in zip(pcases, pgot):
            so_ = _SelfCGA(fitness_function=lambda x: np.sum(x, axis=1, dtype=np.float64), iters=it_, pop_size=4, str_len=6, K=K_)
            names_ = ["op%d" % i for i in range(len(tab_))]
            with np.errstate(all="ignore"):
                real = [float(v) for v in so_._get_new_proba(dict(zip(names_, tab_)), names_[w_], thr_).values()]
            vals = None if g == "none" else [int(a) / int(b) for a, b in _re.findall(r"\((-?\d+), (\d+)\)", g)]
            chk.count("np_kernel_get_new_proba")
            same = vals is not None and len(vals) == len(real) and all(C.close(a, b, 1e-9, 1e-12) for a, b in zip(real, vals))
            (chk.agree("np_kernel:get_new_proba") if same else
             chk.disagree("np_kernel:get_new_proba", {"input": {"table": tab_, "winner": w_, "K": K_, "iters": it_, "threshold": thr_}, "impl": real, "model": g}))
    try:
        outs = C.lean_driver([json.dumps(o) for o in ops])
    except Exception as e:
        chk.obligation("driver run", False, str(e))
        outs = []
    for o, (kind, inp, impl) in zip(outs, ctx):
        if "error" in o:
            chk.disagree(kind, {"input": inp, "impl": impl, "model_error": o["error"]})
            continue
        m = o["ok"]
        if kind.startswith("fittest") or kind.startswith("draw"):
            ok = m == impl
        else:
            ok = len(m) == len(impl) and all(C.close(a, C.frac(b)) for a, b in zip(impl, m))
            m = [float(C.frac(b)) for b in m]
        (chk.agree(kind) if ok else chk.disagree(kind, {"input": inp, "impl": impl, "model": m}))
    chk.notes.append("SelfCGA/SelfCGP/PDPGA/PDPGP x operator subsets (defaults, single operator per kind, with/without 'empty', 'empty' alone) x objectives with ties/plateaus x pop sizes x K; every generation's update recomputed by the model; draws recomputed from mirrored uniforms")
    chk.assumptions.append("group means / tie-breaking compared only on integer-valued fitness (exact in double precision)")
    return chk.finish()


def replay(path: str) -> int:
    return main("quick")
