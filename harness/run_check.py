"""Entry point of every check: dispatches to harness/cXX.py, enforces the exit-code protocol."""
import argparse
import importlib
import os
import sys
import traceback


def main() -> int:
    ap = argparse.ArgumentParser()
    ap.add_argument("prop")
    ap.add_argument("--tier", default=os.environ.get("VERIF_TIER", "quick"), choices=["quick", "thorough"])
    ap.add_argument("--replay", default=None)
    a = ap.parse_args()
    prop = a.prop.upper()
    try:
        mod = importlib.import_module(prop.lower())
    except ModuleNotFoundError as e:
        print(f"no harness for {prop}: {e}", file=sys.stderr)
        return 2
    try:
        if a.replay:
            return int(mod.replay(a.replay))
        return int(mod.main(a.tier))
    except SystemExit as e:
        return int(e.code or 0)
    except Exception:
        traceback.print_exc()
        return 2


if __name__ == "__main__":
    sys.exit(main())
