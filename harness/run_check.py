"""Entry point of every check: dispatches to harness/cXX.py, enforces the exit-code protocol."""
import argparse
import importlib
import os
import sys
import traceback


def main() -> int:
    ap = argparse.ArgumentParser()
    ap.add_argument("prop")
    ap.add_argument("--tier", default=os.environ.get("VERIF_TIER", "quick"), choices=["quick", "thorough"])
    ap.add_argument("--replay", default=None)
    a = ap.parse_args()
    prop = a.prop.upper()
    try:
        mod = importlib.import_module(prop.lower())
    except ModuleNotFoundError as e:
        print(f"no harness for {prop}: {e}", file=sys.stderr)
        return 2
    try:
        if a.replay:
            # every case of a check is a deterministic function of (VERIF_SEED, tier): re-execute the
            # run that produced the replay file and print the same verdict lines
            import json
            r = json.loads(open(a.replay).read())
            os.environ["VERIF_SEED"] = str(r.get("seed", os.environ.get("VERIF_SEED", "0")))
            print(f"replaying {prop} seed={os.environ['VERIF_SEED']} tier={r.get('tier', a.tier)}: {r.get('what', r.get('kind'))}")
            return int(mod.main(r.get("tier", a.tier)))
        return int(mod.main(a.tier))
    except SystemExit as e:
        return int(e.code or 0)
    except Exception:
        traceback.print_exc()
        return 2


if __name__ == "__main__":
    sys.exit(main())
