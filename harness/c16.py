"""C16 — parallel evaluation is equivalent to serial evaluation.

S3: `_get_n_jobs` and `_split_population` of a bare EvolutionaryAlgorithm against
TFV.Model.Split for ALL (pop_size, n_jobs) pairs up to a bound (exact).
S4: chunks contiguous / non-empty / order preserving / covering; runs with n_jobs > 1 have the
trajectory of n_jobs = 1 whatever order the workers finish in (per-chunk delays); 0 is rejected.
"""
from __future__ import annotations

import json
import time

import numpy as np

import common as C
import c16_workers as W


def main(tier: str) -> int:
    chk = C.Check("C16", tier)
    chk.lean()
    from joblib import cpu_count
    from thefittest.base._ea import EvolutionaryAlgorithm
    from thefittest.optimizers import GeneticAlgorithm, DifferentialEvolution, SHAGA, SHADE

    cpu = cpu_count()
    pmax = 48 if tier == "quick" else 200
    ops, ctx = [], []

    def add(op, c):
        ops.append(op)
        ctx.append(c)

    for pop in range(1, pmax + 1):
        for nj in list(range(-20, 0)) + list(range(0, min(pop + 4, 40))) + ([pop + 3, 4 * pop] if pop >= 37 else []):
            try:
                ea = EvolutionaryAlgorithm(fitness_function=W.onemax, iters=1, pop_size=pop, n_jobs=nj)
                got = int(ea._n_jobs)
            except ValueError:
                got = None
            add({"op": "norm_jobs", "n": nj, "cpu": cpu, "pop": pop}, ("norm_jobs", {"pop_size": pop, "n_jobs": nj, "cpu": cpu}, got))
            if nj == 0:
                if got is not None:
                    chk.fail("n_jobs = 0 is not rejected", {"pop_size": pop, "n_jobs": nj}, {"fn": "_get_n_jobs", "clause": "zero"})
                continue
            if got is None or not (1 <= got <= pop):
                chk.fail("normalised n_jobs outside [1, pop_size]", {"pop_size": pop, "n_jobs": nj, "got": got}, {"fn": "_get_n_jobs", "clause": "range", "negative": nj < 0})
                if got is None:
                    continue
            chunks = ea._split_population(np.arange(pop))
            lens = [len(c) for c in chunks]
            flat = [int(x) for c in chunks for x in c]
            chk.case((pop, nj), sample={"pop_size": pop, "n_jobs": nj, "chunk_lengths": lens} if (pop, nj) in ((10, 3), (7, -1)) else None)
            good = flat == list(range(pop)) and all(l > 0 for l in lens) and len(chunks) == got
            if not good:
                chk.fail("the population is not split into contiguous, non-empty, order-preserving chunks covering every individual once",
                         {"pop_size": pop, "n_jobs": nj, "normalised": got, "chunk_lengths": lens}, {"fn": "_split_population", "negative": nj < 0})
            # an evaluated array with MORE rows than pop_size (a larger init_population in generation 0 of the GA family):
            # the chunks still cover every row once, in order
            if pop <= 12 and got > 1:
                for extra in (1, 5):
                    ch2 = ea._split_population(np.arange(pop + extra))
                    flat2 = [int(x) for c in ch2 for x in c]
                    chk.count("split_longer_array")
                    if flat2 != list(range(pop + extra)):
                        chk.fail("the chunks of an array with more rows than pop_size do not cover every individual exactly once",
                                 {"pop_size": pop, "n_jobs": nj, "rows": pop + extra, "chunk_lengths": [len(c) for c in ch2],
                                  "missing": sorted(set(range(pop + extra)) - set(flat2))[:5]}, {"fn": "_split_population", "clause": "longer"})
                        break
            cuts = [int(x) for x in np.linspace(start=0, stop=pop, num=got + 1, dtype=np.int64)]
            add({"op": "split", "len": pop, "cuts": cuts}, ("split", {"pop_size": pop, "n_jobs": nj, "cuts": cuts}, [[int(x) for x in c] for c in chunks]))
            if got <= pop:
                add({"op": "ideal_cuts", "p": pop, "n": got}, ("ideal_cuts", {"pop_size": pop, "n": got}, cuts))

    # ---- n_jobs is normalised the same way by every optimizer class (0 rejected, negative counted back from the CPUs, capped by pop_size)
    import thefittest.optimizers as O_
    import ea_trace as T_
    for cn_ in T_.ALL:
        for nj in (0, -1, -3, -(cpu + 5), 2, 50):
            cfg_ = dict(pop_size=8 if cn_ not in T_.GP else 7, iters=2, objective="onemax" if cn_ not in T_.FLOAT else "sphere", seed=1)
            rec_ = T_.Recorder(cn_, cfg_)
            try:
                o_, kw_ = T_.build(cn_, cfg_, rec_)
                kw_ = dict(kw_, n_jobs=nj)
                got_ = int(getattr(O_, cn_)(**kw_)._n_jobs)
            except ValueError:
                got_ = None
            except Exception as e:  # noqa
                got_ = repr(e)[:80]
            pop_ = cfg_["pop_size"]
            want_ = None if nj == 0 else (min(max(cpu + 1 + nj, 1), pop_) if nj < 0 else min(nj, pop_))
            chk.count("norm_jobs_classes")
            chk.case(("norm_jobs_class", cn_, nj))
            if got_ != want_:
                chk.fail("n_jobs = 0 is not rejected" if nj == 0 else "normalised n_jobs outside [1, pop_size]" if not isinstance(got_, int) or not (1 <= got_ <= pop_) else
                         "n_jobs is not normalised as documented (negative values count back from the number of CPUs)",
                         {"optimizer": cn_, "pop_size": pop_, "n_jobs": nj, "cpu": cpu, "got": got_, "expected": want_}, {"fn": "_get_n_jobs", "clause": "classes", "negative": nj < 0})
                break
    # ---- the tree-based family: populations are object arrays of trees of very different sizes; the chunks are still contiguous,
    #      non-empty, order-preserving and cover every tree once
    import treelib as TLb
    from thefittest.base import Tree as _T
    from thefittest.optimizers import GeneticProgramming, SelfCGP, PDPGP
    usb = TLb.uniset()
    sizes_sets = [[3, 9, 5, 7, 11, 3, 7, 5], [1, 1, 1, 25, 1, 1], [31, 1, 1, 1, 1, 1, 1, 1, 1, 1], [1, 1, 1, 1, 1, 1, 1, 29], [5] * 9, [1, 17, 1, 17, 1, 17, 1]]

    def tree_of_size(n):
        # a chain of unary nodes over a leaf (size n), or a leaf
        neg = next(x for x in usb._functional_set[1])
        leaf = usb._terminal_set[0]
        return _T([neg] * (n - 1) + [leaf])
    for cls in (GeneticProgramming, SelfCGP, PDPGP):
        for sizes in sizes_sets:
            popt = np.array([tree_of_size(n) for n in sizes], dtype=object)
            for nj in (2, 3, 4, 6, len(sizes)):
                try:
                    gp = cls(fitness_function=W.onemax, uniset=usb, iters=1, pop_size=len(sizes), n_jobs=nj)
                    ch = gp._split_population(popt)
                except Exception as e:  # noqa
                    chk.fail("splitting a population of trees raises", {"optimizer": cls.__name__, "tree_sizes": sizes, "n_jobs": nj, "error": repr(e)[:160]},
                             {"fn": "_split_population", "clause": "trees"})
                    break
                lens = [len(c) for c in ch]
                flat_ids = [id(t) for c in ch for t in c]
                chk.count("split_trees")
                chk.case(("split_trees", cls.__name__, tuple(sizes), nj))
                if flat_ids != [id(t) for t in popt] or any(l == 0 for l in lens) or len(ch) != int(gp._n_jobs):
                    chk.fail("the population is not split into contiguous, non-empty, order-preserving chunks covering every individual once",
                             {"optimizer": cls.__name__, "tree_sizes": sizes, "n_jobs": nj, "chunk_lengths": lens}, {"fn": "_split_population", "clause": "trees"})
                    break
            else:
                continue
            break
    # ---- runs: n_jobs > 1 versus n_jobs = 1, with per-chunk delays that reorder completion
    def run(cls, kw, nj, delays):
        W.DELAYS = delays
        kw = dict(kw)
        kw.update(n_jobs=nj, keep_history=True, random_state=11 + chk.seed)
        o = cls(**kw)
        o.fit()
        st = o.get_stats()
        first = {"fit": [list(map(float, f)) for f in st["fitness"]], "calls": int(o._calls)}
        # the same object run again (a second fit() must behave the same with and without workers)
        try:
            o.fit()
            st = o.get_stats()
            second = "ok"
        except Exception as e:  # noqa
            second = type(e).__name__ + ": " + str(e)[:80]
        return {"first_fit": first, "second_fit": second, "fit": [list(map(float, f)) for f in st["fitness"]], "calls": int(o._calls),
                "best": float(o.get_fittest()["fitness"]),
                "pop": [np.asarray(p, dtype=np.float64).tolist() for p in st["population_g"]],
                "pop_ph": [np.asarray(p, dtype=np.float64).tolist() for p in st["population_ph"]],
                "max_ph": [np.asarray(p, dtype=np.float64).tolist() for p in st["max_ph"]],
                "live_ph": np.asarray(o._population_ph_i, dtype=np.float64).tolist()}

    fams = [
        ("GeneticAlgorithm", GeneticAlgorithm, dict(fitness_function=W.onemax_delayed, iters=4, pop_size=9, str_len=12)),
        ("GeneticAlgorithm+g2p", GeneticAlgorithm, dict(fitness_function=W.sphere_delayed, genotype_to_phenotype=W.g2p_scale, iters=3, pop_size=8, str_len=10)),
        ("DifferentialEvolution", DifferentialEvolution, dict(fitness_function=W.sphere_delayed, iters=4, pop_size=8, left_border=-2.0, right_border=2.0, num_variables=3, minimization=True)),
        ("SHAGA", SHAGA, dict(fitness_function=W.onemax_delayed, iters=3, pop_size=7, str_len=10)),
        ("DifferentialEvolution+g2p", DifferentialEvolution, dict(fitness_function=W.sphere_delayed, genotype_to_phenotype=W.g2p_scale, iters=4, pop_size=8, left_border=-2.0, right_border=2.0, num_variables=3, minimization=True)),
        ("SHADE+g2p", SHADE, dict(fitness_function=W.sphere_delayed, genotype_to_phenotype=W.g2p_scale, iters=4, pop_size=7, left_border=-2.0, right_border=2.0, num_variables=2, minimization=True)),
        ("GeneticAlgorithm+longer init_population", GeneticAlgorithm, dict(fitness_function=W.onemax_delayed, iters=3, pop_size=8, str_len=10,
                                                                           init_population=(np.arange(130).reshape(13, 10) % 3 == 0).astype(np.byte))),
        ("GeneticAlgorithm+g2p+both argument dictionaries", GeneticAlgorithm,
         dict(fitness_function=W.weighted_sum, fitness_function_args={"weights": np.arange(1.0, 11.0), "scale": np.array(0.5), "table": np.ones((2, 2))},
              genotype_to_phenotype=W.g2p_shift, genotype_to_phenotype_args={"shift": np.linspace(-1.0, 1.0, 10)}, iters=3, pop_size=9, str_len=10)),
        ("DifferentialEvolution+g2p+both argument dictionaries", DifferentialEvolution,
         dict(fitness_function=W.weighted_sum, fitness_function_args={"weights": np.array([3.0, -1.0, 2.0]), "scale": np.array(2.0), "table": np.zeros((1, 1))},
              genotype_to_phenotype=W.g2p_shift, genotype_to_phenotype_args={"shift": np.array([0.5, -0.5, 0.25])}, iters=3, pop_size=8, left_border=-2.0, right_border=2.0,
              num_variables=3, minimization=True)),
        ("SHAGA+g2p", SHAGA, dict(fitness_function=W.sphere_delayed, genotype_to_phenotype=W.g2p_scale, iters=3, pop_size=7, str_len=10)),
        # one number per individual as the phenotype (a 1-D phenotype population; chunks of equal and of unequal length)
        ("GeneticAlgorithm+g2p to one number", GeneticAlgorithm, dict(fitness_function=W.scalar_value_delayed, genotype_to_phenotype=W.g2p_rowsum, iters=3, pop_size=8, str_len=10)),
        ("DifferentialEvolution+g2p to one number", DifferentialEvolution, dict(fitness_function=W.scalar_value_delayed, genotype_to_phenotype=W.g2p_rowsum, iters=3, pop_size=7,
                                                                                left_border=-2.0, right_border=2.0, num_variables=3)),
        # what the objective returns belongs to the objective: a view of its argument, a read-only array, a buffer it reuses
        ("DifferentialEvolution, objective returns a view", DifferentialEvolution, dict(fitness_function=W.first_column_view, iters=4, pop_size=8, left_border=-2.0, right_border=2.0,
                                                                                      num_variables=3, minimization=True)),
        ("GeneticAlgorithm+g2p, objective returns a view", GeneticAlgorithm, dict(fitness_function=W.first_column_view, genotype_to_phenotype=W.g2p_scale, iters=3, pop_size=8, str_len=10,
                                                                               minimization=True)),
        ("SHADE, objective returns a read-only array", SHADE, dict(fitness_function=W.readonly_sphere, iters=3, pop_size=7, left_border=-2.0, right_border=2.0, num_variables=2, minimization=True)),
        ("DifferentialEvolution, objective reuses its output buffer", DifferentialEvolution, dict(fitness_function=W.buffered_sphere, iters=4, pop_size=8, left_border=-2.0, right_border=2.0,
                                                                                               num_variables=3, minimization=True)),
        ("SHAGA, objective reuses its output buffer", SHAGA, dict(fitness_function=W.buffered_sphere, iters=3, pop_size=7, str_len=10)),
    ]
    if tier == "quick":
        njs = [2, 3, 13, -1]
    else:
        njs = [2, 3, 4, 5, 13, -1, -3]
    t0 = time.time()
    for name, cls, kw in fams:
        try:
            base = run(cls, kw, 1, 0)
        except Exception as e:  # noqa
            if "objective" not in name:
                raise
            base = {"raised": (type(e).__name__ + ": " + str(e))[:200], "second_fit": None, "calls": None, "best": None}
        for nj in (njs if "objective" not in name else njs[:2]):
            for delays in ((1, 2) if tier == "quick" else (1, 2, 3)):
                try:
                    got = run(cls, kw, nj, delays)
                except Exception as e:  # noqa
                    chk.fail("a run with n_jobs > 1 raises although the run with n_jobs = 1 completes",
                             {"optimizer": name, "n_jobs": nj, "delay_pattern": delays, "error": (type(e).__name__ + ": " + str(e))[:200]}, {"fn": "parallel_run", "clause": "raises"})
                    break
                chk.count("parallel_runs")
                chk.case(("run", name, nj, delays))
                if got != base:
                    what = "second fit() on the same object" if got["second_fit"] != base["second_fit"] else ("calls" if got["calls"] != base["calls"] else "trajectory")
                    chk.fail("a run with n_jobs > 1 differs from the run with n_jobs = 1",
                             {"optimizer": name, "n_jobs": nj, "delay_pattern": delays, "differs_in": what,
                              "calls": [base["calls"], got["calls"]], "best": [base["best"], got["best"]], "second_fit": [base["second_fit"], got["second_fit"]]},
                             {"fn": "parallel_run", "negative": nj < 0})
    # "for any n_jobs" on any host: the same comparison on a machine that reports a single core (and one that reports two)
    import thefittest.base._ea as _ea_mod
    real_cpu = _ea_mod.cpu_count
    for cores in (1, 2):
        _ea_mod.cpu_count = lambda *a, **k: cores      # noqa: E731
        try:
            for name, cls, kw in fams[:2]:
                base = run(cls, kw, 1, 0)
                for nj in (2, 9):
                    try:
                        got = run(cls, kw, nj, 1)
                    except Exception as e:  # noqa
                        chk.fail("a run with n_jobs > 1 raises although the run with n_jobs = 1 completes",
                                 {"optimizer": name, "n_jobs": nj, "cores_reported_by_the_host": cores, "error": (type(e).__name__ + ": " + str(e))[:200]},
                                 {"fn": "parallel_run", "clause": "raises_single_core"})
                        break
                    chk.count("parallel_runs_other_hosts")
                    chk.case(("run_cores", name, nj, cores))
                    if got != base:
                        chk.fail("a run with n_jobs > 1 differs from the run with n_jobs = 1", {"optimizer": name, "n_jobs": nj, "cores_reported_by_the_host": cores},
                                 {"fn": "parallel_run", "clause": "cores"})
        finally:
            _ea_mod.cpu_count = real_cpu
    chk.distribution["parallel_wall_s"] = round(time.time() - t0, 1)

    try:
        outs = C.lean_driver([json.dumps(o) for o in ops])
    except Exception as e:
        chk.obligation("driver run", False, str(e))
        outs = []
    n_ideal_diff = 0
    for o, (kind, inp, impl) in zip(outs, ctx):
        if "error" in o:
            chk.disagree(kind, {"input": inp, "impl": impl, "model_error": o["error"]})
            continue
        m = o["ok"]
        if kind == "ideal_cuts":
            # informational: truncated double-precision linspace vs floor(i*p/n); both are covered
            # by theorem C16_cuts as long as consecutive points are >= 1 apart
            n_ideal_diff += (m != impl)
            continue
        (chk.agree(kind) if m == impl else chk.disagree(kind, {"input": inp, "impl": impl, "model": m}))
    chk.distribution["linspace_cuts_differing_from_ideal_floor"] = n_ideal_diff
    chk.notes.append(f"all (pop_size<= {pmax}, n_jobs in [-20, pop+3]) pairs on {cpu} CPUs; 4 optimizer families x n_jobs x delay patterns vs n_jobs=1")
    chk.trusted.append("joblib.Parallel returns results in submission order (observed under forced completion reorderings, not proved)")
    return chk.finish()


def replay(path: str) -> int:
    return main("quick")
