"""py2lean — translates a small imperative subset of Python (the integer / array kernels of
thefittest) into state-passing Lean 4 definitions over TFV.Model.Imp, from /repo's CURRENT source.

Run on every check of the properties whose kernels are listed in KERNELS; the regenerated files
TFV/Generated/Src/<Kernel>.lean are then the subject of the equivalence theorems in
TFV/Properties/Src/*.lean (`<Cxx>_src_<kernel>`): the hand-written model the property theorems are
about equals what the source says now.  A construct outside the subset makes the translation fail
("not recognised"), which the check reports as a broken obligation.

Subset: int / bool / int-array locals; assignment, augmented assignment, subscript assignment,
tuple swaps; if / elif / else; `while`; `for` over range / np.arange; `break`; `return` at the end
of the function or of every branch of a final if-chain; `raise`; calls of len, min, max, np.int64,
.copy(), np.empty, np.arange, and of other translated kernels.
"""
from __future__ import annotations

import ast
import sys
import textwrap
from pathlib import Path

KERNELS = [
    dict(name="get_n_jobs", file="base/_ea.py", cls="EvolutionaryAlgorithm", func="_get_n_jobs",
         params=[("n_jobs", "Int")], self_attrs={"_pop_size": "pop_size"}, ext_calls={"cpu_count": "cpu"}, ret="Int", fuel=None),
    dict(name="binary_search_interval", file="utils/__init__.py", func="binary_search_interval",
         params=[("value", "Int"), ("intervals", "Arr")], ret="Int", fuel="intervals.length + 1"),
    dict(name="check_for_value", file="utils/__init__.py", func="check_for_value",
         params=[("value", "Int"), ("index_array", "Arr"), ("end", "Int")], ret="Bool", fuel=None),
    dict(name="find_end_subtree_from_i", file="utils/__init__.py", func="find_end_subtree_from_i",
         params=[("index", "Int"), ("n_args_array", "Arr")], ret="Int", fuel="n_args_array.length + 1"),
    dict(name="find_id_args_from_i", file="utils/__init__.py", func="find_id_args_from_i",
         params=[("index", "Int"), ("n_args_array", "Arr")], ret="Arr", fuel=None, uses=["find_end_subtree_from_i"]),
    dict(name="find_first_difference_between_two", file="utils/__init__.py", func="find_first_difference_between_two",
         params=[("array_1", "Arr"), ("array_2", "Arr")], ret="Int", fuel=None),
    dict(name="argsort_k", file="utils/__init__.py", func="argsort_k",
         params=[("array", "Arr"), ("k", "Int")], ret="Arr", fuel=None),
    dict(name="bounds_control", file="optimizers/_differentialevolution.py", func="bounds_control",
         params=[("array", "Arr"), ("left", "Arr"), ("right", "Arr")], ret="Arr", fuel=None),
]


class NotRecognised(Exception):
    pass


def find_func(tree, cls, func):
    for n in tree.body:
        if cls and isinstance(n, ast.ClassDef) and n.name == cls:
            for m in n.body:
                if isinstance(m, ast.FunctionDef) and m.name == func:
                    return m
        if not cls and isinstance(n, ast.FunctionDef) and n.name == func:
            return n
    raise NotRecognised(f"function {cls + '.' if cls else ''}{func} not found")


class Tr:
    def __init__(self, fn: ast.FunctionDef, cfg: dict):
        self.fn, self.cfg = fn, cfg
        self.params = dict(cfg["params"])
        self.self_attrs = cfg.get("self_attrs", {})
        self.ext_calls = cfg.get("ext_calls", {})
        self.uses = cfg.get("uses", [])
        self.locals: dict[str, str] = {}
        self.collect(fn.body)

    # ---- locals and their types
    def is_arr_expr(self, e):
        if isinstance(e, ast.Call):
            f = e.func
            if isinstance(f, ast.Attribute) and f.attr == "copy":
                return True
            if isinstance(f, ast.Attribute) and isinstance(f.value, ast.Name) and f.value.id in ("np", "numpy") and f.attr in ("empty", "arange", "zeros"):
                return True
        return False

    def setlocal(self, name, ty):
        if name in self.params:
            raise NotRecognised(f"assignment to parameter {name}")
        old = self.locals.get(name)
        if old and old != ty:
            raise NotRecognised(f"variable {name} used at types {old} and {ty}")
        self.locals[name] = ty

    def collect(self, stmts):
        for st in stmts:
            if isinstance(st, ast.Assign):
                for t in st.targets:
                    if isinstance(t, ast.Name):
                        ty = "Arr" if self.is_arr_expr(st.value) else ("Bool" if isinstance(st.value, ast.Constant) and isinstance(st.value.value, bool) else "Int")
                        self.setlocal(t.id, ty)
                    elif isinstance(t, ast.Tuple):
                        for el in t.elts:
                            if isinstance(el, ast.Name):
                                self.setlocal(el.id, "Int")
            elif isinstance(st, ast.AugAssign) and isinstance(st.target, ast.Name):
                self.setlocal(st.target.id, "Int")
            elif isinstance(st, ast.For):
                if not isinstance(st.target, ast.Name):
                    raise NotRecognised("for target")
                self.setlocal(st.target.id, "Int")
                self.collect(st.body)
                if st.orelse:
                    raise NotRecognised("for-else")
            elif isinstance(st, ast.While):
                self.collect(st.body)
            elif isinstance(st, ast.If):
                self.collect(st.body)
                self.collect(st.orelse)

    # ---- expressions
    def ty(self, e) -> str:
        if isinstance(e, ast.Constant):
            return "Bool" if isinstance(e.value, bool) else "Int"
        if isinstance(e, ast.Name):
            return self.locals.get(e.id) or self.params.get(e.id) or "Int"
        if isinstance(e, (ast.Compare, ast.BoolOp)) or (isinstance(e, ast.UnaryOp) and isinstance(e.op, ast.Not)):
            return "Bool"
        if self.is_arr_expr(e):
            return "Arr"
        return "Int"

    def E(self, e) -> str:
        if isinstance(e, ast.Constant):
            if isinstance(e.value, bool):
                return "true" if e.value else "false"
            if isinstance(e.value, int):
                return f"({e.value} : Int)"
            raise NotRecognised(f"constant {e.value!r}")
        if isinstance(e, ast.Name):
            if e.id in self.locals:
                return f"s.{self.id(e.id)}"
            if e.id in self.params:
                return self.id(e.id)
            raise NotRecognised(f"unknown name {e.id}")
        if isinstance(e, ast.Attribute):
            if isinstance(e.value, ast.Name) and e.value.id == "self" and e.attr in self.self_attrs:
                return self.self_attrs[e.attr]
            raise NotRecognised(f"attribute {ast.unparse(e)}")
        if isinstance(e, ast.BinOp):
            a, b = self.E(e.left), self.E(e.right)
            if isinstance(e.op, ast.Add):
                return f"({a} + {b})"
            if isinstance(e.op, ast.Sub):
                return f"({a} - {b})"
            if isinstance(e.op, ast.Mult):
                return f"({a} * {b})"
            if isinstance(e.op, ast.FloorDiv):
                if not (isinstance(e.right, ast.Constant) and isinstance(e.right.value, int) and e.right.value > 0):
                    raise NotRecognised("floor division by a non-literal")
                return f"({a} / {b})"      # Int `/` is floor division for a positive literal divisor
            raise NotRecognised(f"operator {type(e.op).__name__}")
        if isinstance(e, ast.UnaryOp):
            if isinstance(e.op, ast.USub):
                return f"(- {self.E(e.operand)})"
            if isinstance(e.op, ast.Not):
                return f"(! {self.B(e.operand)})"
            raise NotRecognised("unary operator")
        if isinstance(e, ast.Compare):
            parts, left = [], e.left
            for op, right in zip(e.ops, e.comparators):
                sym = {ast.Lt: "<", ast.LtE: "≤", ast.Gt: ">", ast.GtE: "≥", ast.Eq: "=", ast.NotEq: "≠"}.get(type(op))
                if sym is None:
                    raise NotRecognised("comparison operator")
                if self.ty(left) == "Bool" or self.ty(right) == "Bool":
                    raise NotRecognised("comparison of booleans")
                parts.append(f"decide ({self.E(left)} {sym} {self.E(right)})")
                left = right
            return "(" + " && ".join(parts) + ")"
        if isinstance(e, ast.BoolOp):
            sym = " && " if isinstance(e.op, ast.And) else " || "
            return "(" + sym.join(self.B(v) for v in e.values) + ")"
        if isinstance(e, ast.Subscript):
            if isinstance(e.slice, ast.Slice):
                raise NotRecognised("slice")
            return f"(Imp.geti {self.E(e.value)} {self.E(e.slice)})"
        if isinstance(e, ast.Call):
            f = e.func
            args = e.args
            if isinstance(f, ast.Name):
                if f.id == "len" and len(args) == 1:
                    return f"(Imp.leni {self.E(args[0])})"
                if f.id in ("min", "max") and len(args) == 2:
                    return f"({f.id} {self.E(args[0])} {self.E(args[1])})"
                if f.id in ("int",) and len(args) == 1:
                    return self.E(args[0])
                if f.id in self.ext_calls and not args:
                    return self.ext_calls[f.id]
                if f.id in self.uses:
                    return f"(({f.id} " + " ".join(self.E(a) for a in args) + ").getD 0)"
                raise NotRecognised(f"call of {f.id}")
            if isinstance(f, ast.Attribute) and isinstance(f.value, ast.Name) and f.value.id in ("np", "numpy") and f.attr in ("int64",) and len(args) == 1:
                return self.E(args[0])
            if isinstance(f, ast.Attribute) and f.attr == "copy" and not args:
                return self.E(f.value)
            if isinstance(f, ast.Attribute) and isinstance(f.value, ast.Name) and f.value.id in ("np", "numpy") and f.attr == "empty":
                return f"(List.replicate ({self.E(args[0])}).toNat (0 : Int))"
            if isinstance(f, ast.Attribute) and isinstance(f.value, ast.Name) and f.value.id in ("np", "numpy") and f.attr == "arange" and len(args) == 1:
                return f"((List.range ({self.E(args[0])}).toNat).map Int.ofNat)"
            raise NotRecognised(f"call {ast.unparse(e)}")
        raise NotRecognised(f"expression {ast.unparse(e)}")

    def B(self, e) -> str:
        return self.E(e) if self.ty(e) == "Bool" else f"(Imp.truthy {self.E(e)})"

    @staticmethod
    def id(name):
        return name + "'" if name in ("end", "at", "from", "to", "in", "do", "then", "fun", "match", "with", "open", "by") else name

    # ---- statements: each returns a Lean expression in the state variable `s`
    def rng(self, it):
        """(lo, hi) of a `range` / `np.arange` iteration"""
        if isinstance(it, ast.Call):
            f = it.func
            nm = f.id if isinstance(f, ast.Name) else (f.attr if isinstance(f, ast.Attribute) else None)
            if nm in ("range", "arange"):
                a = it.args
                if len(a) == 1:
                    return "(0 : Int)", self.E(a[0])
                if len(a) == 2:
                    return self.E(a[0]), self.E(a[1])
        raise NotRecognised(f"iteration over {ast.unparse(it)}")

    def stmt(self, st, ind) -> str:
        pad = "  " * ind
        if isinstance(st, ast.Expr) and isinstance(st.value, ast.Constant):
            return "s"
        if isinstance(st, ast.Assign):
            if len(st.targets) != 1:
                raise NotRecognised("chained assignment")
            t = st.targets[0]
            if isinstance(t, ast.Name):
                return f"{{ s with {self.id(t.id)} := {self.E(st.value)} }}"
            if isinstance(t, ast.Subscript) and isinstance(t.value, ast.Name) and t.value.id in self.locals:
                a = self.id(t.value.id)
                return f"{{ s with {a} := Imp.seti s.{a} {self.E(t.slice)} {self.E(st.value)} }}"
            if isinstance(t, ast.Tuple) and isinstance(st.value, ast.Tuple) and len(t.elts) == len(st.value.elts):
                # evaluate the whole right-hand side first, then assign left to right
                lets = [f"let v{k} := {self.E(v)}" for k, v in enumerate(st.value.elts)]
                cur = "s"
                for k, el in enumerate(t.elts):
                    if isinstance(el, ast.Subscript) and isinstance(el.value, ast.Name) and el.value.id in self.locals:
                        a = self.id(el.value.id)
                        idx = self.E(el.slice).replace("s.", "s0.")
                        cur = f"{{ {cur} with {a} := Imp.seti ({cur}).{a} {idx} v{k} }}"
                    elif isinstance(el, ast.Name):
                        cur = f"{{ {cur} with {self.id(el.id)} := v{k} }}"
                    else:
                        raise NotRecognised("tuple target")
                return "(let s0 := s; " + "; ".join(lets) + "; " + cur + ")"
            raise NotRecognised(f"assignment target {ast.unparse(t)}")
        if isinstance(st, ast.AugAssign) and isinstance(st.target, ast.Name):
            op = {ast.Add: "+", ast.Sub: "-", ast.Mult: "*"}.get(type(st.op))
            if op is None:
                raise NotRecognised("augmented operator")
            n = self.id(st.target.id)
            return f"{{ s with {n} := s.{n} {op} {self.E(st.value)} }}"
        if isinstance(st, ast.If):
            return f"(if {self.B(st.test)} then\n{self.block(st.body, ind + 1)}\n{pad}else\n{self.block(st.orelse, ind + 1)})"
        if isinstance(st, ast.While):
            if self.cfg.get("fuel") is None:
                raise NotRecognised("while loop without a fuel expression in the kernel table")
            return f"(Imp.whileN fuel (fun s => {self.B(st.test)}) (fun s =>\n{self.block(st.body, ind + 1)}) s)"
        if isinstance(st, ast.For):
            lo, hi = self.rng(st.iter)
            v = self.id(st.target.id)
            body = self.block(st.body, ind + 1)
            return (f"({{ (Imp.forRange {lo} {hi} (fun s => s.brk) (fun i s =>\n{pad}  let s := {{ s with {v} := i }}\n{body}) s) with brk := false }})")
        if isinstance(st, ast.Break):
            return "{ s with brk := true }"
        if isinstance(st, ast.Pass):
            return "s"
        raise NotRecognised(f"statement {type(st).__name__}")

    def block(self, stmts, ind) -> str:
        pad = "  " * ind
        lines = [f"{pad}let s := {self.stmt(st, ind)}" for st in stmts]
        lines.append(f"{pad}s")
        return "\n".join(lines)

    def ret(self, stmts, ind) -> str:
        """function tail: statements ending in return / raise / an if-chain of such"""
        pad = "  " * ind
        if not stmts:
            raise NotRecognised("function may fall off its end")
        *pre, last = stmts
        lines = [f"{pad}let s := {self.stmt(st, ind)}" for st in pre]
        if isinstance(last, ast.Return):
            val = self.E(last.value) if self.ty(last.value) != "Bool" or self.cfg["ret"] == "Bool" else self.E(last.value)
            lines.append(f"{pad}some ({val})")
        elif isinstance(last, ast.Raise):
            lines.append(f"{pad}none")
        elif isinstance(last, ast.If):
            lines.append(f"{pad}if {self.B(last.test)} then\n{self.ret(last.body, ind + 1)}\n{pad}else\n{self.ret(last.orelse, ind + 1)}")
        else:
            raise NotRecognised("function does not end in return / raise")
        return "\n".join(lines)

    def render(self) -> str:
        cfg = self.cfg
        name = cfg["name"]
        lty = {"Int": "Int", "Arr": "List Int", "Bool": "Bool"}
        fields = "".join(f"  {self.id(n)} : {lty[t]} := {'0' if t == 'Int' else ('[]' if t == 'Arr' else 'false')}\n" for n, t in sorted(self.locals.items()))
        params = " ".join(f"({self.id(n)} : {lty[t]})" for n, t in cfg["params"])
        extra = " ".join(f"({v} : Int)" for v in list(self.self_attrs.values()) + list(self.ext_calls.values()))
        imports = "".join(f"import TFV.Generated.Src.{u}\n" for u in self.uses)
        opens = ""
        body = self.ret([st for st in self.fn.body], 1)
        fuel = f"  let fuel : Nat := {cfg['fuel']}\n" if cfg.get("fuel") else ""
        return (f"/- GENERATED by harness/extract/py2lean.py from /repo/src/thefittest/{cfg['file']} ({(cfg.get('cls') + '.') if cfg.get('cls') else ''}{cfg['func']})\n"
                f"   on every run of the checks that depend on it. Do not edit. -/\n"
                f"import TFV.Model.Imp\n{imports}\nnamespace TFV.Generated.Src\nopen TFV\n{opens}\n"
                f"structure {name}.S where\n{fields}  brk : Bool := false\n\n"
                f"def {name} {params} {extra} : Option ({lty[cfg['ret']]}) :=\n"
                f"  let s : {name}.S := {{}}\n{fuel}{body}\n\nend TFV.Generated.Src\n")


def translate(repo: Path, cfg: dict) -> str:
    src = (repo / "src" / "thefittest" / cfg["file"]).read_text()
    fn = find_func(ast.parse(src), cfg.get("cls"), cfg["func"])
    return Tr(fn, cfg).render()


def main(repo="/repo", out="/verif/lean/TFV/Generated/Src", only=None):
    repo, out = Path(repo), Path(out)
    out.mkdir(parents=True, exist_ok=True)
    status = {}
    for cfg in KERNELS:
        if only and cfg["name"] not in only:
            continue
        target = out / f"{cfg['name']}.lean"
        try:
            text = translate(repo, cfg)
            status[cfg["name"]] = "ok"
        except NotRecognised as e:
            # keep the file compilable but make every equivalence theorem about it fail to check
            text = (f"/- GENERATED: translation FAILED ({e}) -/\nimport TFV.Model.Imp\nnamespace TFV.Generated.Src\n"
                    f"/-- the source of `{cfg['func']}` is outside the translatable subset: {e} -/\n"
                    f"def {cfg['name']}.notRecognised : Unit := ()\nend TFV.Generated.Src\n")
            status[cfg["name"]] = f"not recognised: {e}"
        if not target.exists() or target.read_text() != text:
            target.write_text(text)
    return status


if __name__ == "__main__":
    st = main(*(sys.argv[1:3]))
    for k, v in st.items():
        print(k, "->", v)
