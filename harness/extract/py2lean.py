"""py2lean — translates a small imperative subset of Python (the integer / array kernels of
thefittest) into state-passing Lean 4 definitions over TFV.Model.Imp, from /repo's CURRENT source.

Run on every check of the properties whose kernels are listed in KERNELS; the regenerated files
TFV/Generated/Src/<kernel>.lean are then the subject of the equivalence theorems in
TFV/Properties/Src/*.lean (`<Cxx>_src_<kernel>`): the hand-written model the property theorems are
about equals what the source says now.  A construct outside the subset makes the translation fail
("not recognised"), which the check reports as a broken obligation.

What the generated definition means
  * every local becomes a field of a state record `<kernel>.S`; statements are state transformers;
  * `err` is set as soon as an array / list is read or written outside its bounds (or an empty stack
    is popped / peeked, or a called kernel fails): the result is then `none`.  A theorem
    `kernel args = some v` therefore also says that the kernel makes no out-of-range access on `args`;
  * `raise` gives `none` as well;
  * random draws are explicit parameters: `us` is the stream of `random.random()` results (as order
    keys, only compared), `ns` the stream of integer draws (`np.random.randint(lo, hi)`,
    `randint(lo, hi, 1)[0]`, `np.int64(np.floor(random.random() * x))`); `dry` is set when a stream
    runs out, and the result is `none`;
  * calls listed under `ext` are replaced by a parameter holding the call's result (the callee is
    modelled by its contract in the theorem's hypotheses).

Subset: int / bool / int-array / int-matrix values and list stacks; assignment, augmented assignment,
subscript assignment, tuple swaps; if / elif / else; `while` (with break / continue); `for` over
range / np.arange / a suffix slice of an array (with break); `return` at the end of the function or of
every branch of a final if-chain; `raise`; `assert`; calls of len, min, max, int, sorted, np.int64,
np.array, .copy(), .append(), .pop(), np.empty, np.empty_like, np.arange, np.zeros, flip_coin and of
other translated kernels.
"""
from __future__ import annotations

import ast
import sys
from pathlib import Path

U = "utils/__init__.py"
KERNELS = [
    dict(name="get_n_jobs", file="base/_ea.py", cls="EvolutionaryAlgorithm", func="_get_n_jobs",
         params=[("n_jobs", "Int")], self_attrs={"_pop_size": ("pop_size", "Int")}, ext={"cpu_count": ("cpu", "Int")}, ret="Int"),
    dict(name="binary_search_interval", file=U, func="binary_search_interval",
         params=[("value", "Int"), ("intervals", "Arr")], ret="Int", fuel="intervals.length + 1"),
    dict(name="check_for_value", file=U, func="check_for_value",
         params=[("value", "Int"), ("index_array", "Arr"), ("end", "Int")], ret="Bool"),
    dict(name="find_end_subtree_from_i", file=U, func="find_end_subtree_from_i",
         params=[("index", "Int"), ("n_args_array", "Arr")], ret="Int", fuel="n_args_array.length + 1"),
    dict(name="find_id_args_from_i", file=U, func="find_id_args_from_i",
         params=[("index", "Int"), ("n_args_array", "Arr")], ret="Arr", uses=["find_end_subtree_from_i"]),
    dict(name="find_first_difference_between_two", file=U, func="find_first_difference_between_two",
         params=[("array_1", "Arr"), ("array_2", "Arr")], ret="Int"),
    dict(name="argsort_k", file=U, func="argsort_k",
         params=[("array", "Arr"), ("k", "Int")], ret="Arr"),
    dict(name="bounds_control", file="optimizers/_differentialevolution.py", func="bounds_control",
         params=[("array", "Arr"), ("left", "Arr"), ("right", "Arr")], ret="Arr"),
    # ---- second batch: list stacks, draw streams, matrices
    dict(name="get_levels_tree_from_i", file=U, func="get_levels_tree_from_i",
         params=[("origin", "Int"), ("n_args_array", "Arr")], ret="Arr"),
    dict(name="flip_mutation", file="utils/mutations.py", func="flip_mutation",
         params=[("individual", "Arr"), ("proba", "Int")], ret="Arr", streams=True),
    dict(name="binomialGA", file="utils/crossovers.py", func="binomialGA",
         params=[("individ", "Arr"), ("mutant", "Arr"), ("CR", "Int")], ret="Arr", streams=True),
    dict(name="binomial", file="utils/crossovers.py", func="binomial",
         params=[("individ", "Arr"), ("mutant", "Arr"), ("CR", "Int")], ret="Arr", streams=True),
    dict(name="one_point_crossover", file="utils/crossovers.py", func="one_point_crossover",
         params=[("individs", "Mat"), ("fitness", "Arr"), ("rank", "Arr")], ret="Arr", streams=True,
         ext_fn={"random_sample": ("sampler", ["range_size", "quantity", "replace"])}),
    dict(name="two_point_crossover", file="utils/crossovers.py", func="two_point_crossover",
         params=[("individs", "Mat"), ("fitness", "Arr"), ("rank", "Arr")], ret="Arr", streams=True,
         ext_fn={"random_sample": ("sampler", ["range_size", "quantity", "replace"])}),
    dict(name="uniform_crossover", file="utils/crossovers.py", func="uniform_crossover",
         params=[("individs", "Mat"), ("fitness", "Arr"), ("rank", "Arr")], ret="Arr", streams=True,
         ext_fn={"random_sample": ("sampler", ["range_size", "quantity", "replace"])}),
    dict(name="uniform_proportional_crossover", file="utils/crossovers.py", func="uniform_proportional_crossover",
         params=[("individs", "Mat"), ("fitness", "Arr"), ("rank", "Arr")], ret="Arr", streams=True,
         ext_fn={"random_weighted_sample": ("wsampler", ["weights", "quantity", "replace"])}),
    dict(name="uniform_rank_crossover", file="utils/crossovers.py", func="uniform_rank_crossover",
         params=[("individs", "Mat"), ("fitness", "Arr"), ("rank", "Arr")], ret="Arr", streams=True,
         ext_fn={"random_weighted_sample": ("wsampler", ["weights", "quantity", "replace"])}),
    dict(name="empty_crossover", file="utils/crossovers.py", func="empty_crossover",
         params=[("individs", "Mat"), ("fitness", "Arr"), ("rank", "Arr")], ret="Arr"),
    dict(name="sattolo_shuffle", file="utils/random.py", func="sattolo_shuffle",
         params=[("arr", "Arr")], ret="Arr", streams=True),
    dict(name="random_sample", file="utils/random.py", func="random_sample",
         params=[("range_size", "Int"), ("quantity", "Int"), ("replace", "Bool")], ret="Arr", streams=True,
         fuel="ns.length + 1", uses=["check_for_value"]),
    dict(name="random_weighted_sample", file="utils/random.py", func="random_weighted_sample",
         params=[("weights", "Arr"), ("quantity", "Int"), ("replace", "Bool")], ret="Arr", streams=True,
         fuel="rolls.length + 1", uses=["check_for_value", "binary_search_interval"],
         # the two float expressions of the kernel are parameters: the cumulative sums (np.cumsum) and the
         # stream of rolls `sumweights * random.random()`; `roll == 0.0 and sumweights > 0.0` is `roll = 0 ∧ 0 < sum`
         ext={"np.cumsum": ("cumsumweights_ext", "Arr")}, roll_stream=True),
    # ---- third batch
    dict(name="common_region_two_trees", file=U, func="common_region_two_trees",
         params=[("n_args_array_1", "Arr"), ("n_args_array_2", "Arr")], ret="Mat",
         fuel="n_args_array_1.length + n_args_array_2.length + 1",
         uses=["find_first_difference_between_two", "find_end_subtree_from_i"]),
    # ---- methods of the run engine (Python level): the self attributes they touch are a list in declared order
    dict(name="TheFittest_replace", file="base/_ea.py", cls="TheFittest", func="_replace",
         params=[("new_genotype", "Int"), ("new_phenotype", "Int"), ("new_fitness", "Int")], ret="Self",
         self_state=["_genotype", "_phenotype", "_fitness", "_no_update_counter"]),
    dict(name="TheFittest_update", file="base/_ea.py", cls="TheFittest", func="_update",
         params=[("population_g", "Arr"), ("population_ph", "Arr"), ("fitness", "Arr")], ret="Self",
         self_state=["_genotype", "_phenotype", "_fitness", "_no_update_counter"],
         method_uses={"_replace": "TheFittest_replace"}),
    dict(name="termination_check", file="base/_ea.py", cls="EvolutionaryAlgorithm", func="_termitation_check",
         params=[], ret="Bool",
         self_attrs={"_thefittest._fitness": ("best_fitness", "Int"), "_thefittest._no_update_counter": ("no_update_counter", "Int"),
                     "_aim": ("aim", "Int"), "_no_increase_num": ("no_increase_num", "Int")}),
    dict(name="get_remains_calls", file="base/_ea.py", cls="EvolutionaryAlgorithm", func="get_remains_calls",
         params=[], ret="Int",
         self_attrs={"_pop_size": ("pop_size", "Int"), "_iters": ("iters", "Int"), "_calls": ("calls", "Int")}),
    # ---- Tree methods (a Tree value is its two parallel arrays: node identifiers and arities)
    dict(name="Tree_subtree_id", file="base/_tree.py", cls="Tree", func="subtree_id", params=[("index", "Int")], ret="Arr",
         self_tree=True, uses=["find_end_subtree_from_i"]),
    dict(name="Tree_subtree", file="base/_tree.py", cls="Tree", func="subtree", params=[("index", "Int")], ret="Tree",
         self_tree=True, uses=["find_end_subtree_from_i"]),
    dict(name="Tree_concat", file="base/_tree.py", cls="Tree", func="concat", params=[("index", "Int"), ("other_tree", "Tree")], ret="Tree",
         self_tree=True, tree_methods={"subtree_id": "Tree_subtree_id"}),
    # ---- Tree.__call__: the stack machine over the reversed node list (values are identifiers; applying a function symbol to its popped
    #      arguments and reading a terminal's value are function parameters on node identifiers)
    dict(name="Tree_call", file="base/_tree.py", cls="Tree", func="__call__", params=[], ret="Int", self_tree=True,
         node_preds={"FunctionalNode": "isFunctional"}, node_attrs={"_n_args": "nodeArity", "_value": "valueOf"},
         star_call={"node._value": "applyFn"}, node_names=["node"]),
    # ---- Tree._init_n_args: the recorded arity array is the nodes' own `_n_args`, position by position
    dict(name="Tree_init_n_args", file="base/_tree.py", cls="Tree", func="_init_n_args", params=[], ret="Arr", self_tree=True,
         node_attrs={"_n_args": "nodeArity"}, node_names=["node_i"]),
    # ---- Tree.__eq__: equal length and no position at which the nodes differ (`node_1 != node_2` is a function parameter on identifiers; the
    #      TypeError for a non-Tree operand is outside the reading: `other` IS a Tree here)
    dict(name="Tree_eq", file="base/_tree.py", cls="Tree", func="__eq__", params=[("other", "Tree")], ret="Bool", self_tree=True,
         node_names=["node_1", "node_2"], node_ne="nodeNe", skip_ifs=["not isinstance(other, Tree)"], normalise_returns=True, loop_return=True),
    # ---- Tree.__str__: the same stack machine with the formatter of a function symbol and the name of a terminal (strings are identifiers)
    dict(name="Tree_str", file="base/_tree.py", cls="Tree", func="__str__", params=[], ret="Int", self_tree=True,
         node_preds={"FunctionalNode": "isFunctional"}, node_attrs={"_n_args": "nodeArity", "_name": "nameOf"},
         star_call={"node._value._write": "writeFn"}, node_names=["node"]),
    # ---- the integer counting loops of the classification metrics (the float tail - per-class ratios and their mean - is
    #      not translated: `until` names the first statement that is left out, `returns` the arrays handed back)
    dict(name="recall_counts", file="utils/_metrics.py", func="recall_score", params=[("y_true", "Arr"), ("y_predict", "Arr")], ret="Mat",
         ext={"np.unique": ("classes", "Arr")}, until="for i in range(n_classes)", returns=["true_positives", "false_negatives"], skip_float_zeros=True),
    dict(name="precision_counts", file="utils/_metrics.py", func="precision_score", params=[("y_true", "Arr"), ("y_predict", "Arr")], ret="Mat",
         ext={"np.unique": ("classes", "Arr")}, until="for i in range(n_classes)", returns=["true_positives", "false_negatives"], skip_float_zeros=True),
    dict(name="f1_counts", file="utils/_metrics.py", func="f1_score", params=[("y_true", "Arr"), ("y_predict", "Arr")], ret="Mat",
         ext={"np.unique": ("classes", "Arr")}, until="for i in range(n_classes)", returns=["true_positives", "false_negatives", "down_precision"], skip_float_zeros=True),
    # ---- _get_fitness: however the objective values are obtained (serial call or joblib map - both outside the subset and
    #      replaced by the parameter `value`), the evaluation counter advances by their number and the sign is applied once
    dict(name="EA_get_fitness", file="base/_ea.py", cls="EvolutionaryAlgorithm", func="_get_fitness", params=[("population_ph", "Arr")], ret="ArrSelf",
         self_state=["_calls"], self_attrs={"_sign": ("sign", "Int")}, opaque_if={"self._n_jobs > 1": ("value", "value_ext")}),
    # ---- the skeleton of a run: the method calls of fit() become a log of action codes; the results of
    #      _termitation_check() are a stream parameter (1 = stop), `self._on_generation is not None` a Bool parameter
    dict(name="EA_fit", file="base/_ea.py", cls="EvolutionaryAlgorithm", func="fit", params=[], ret="Arr",
         self_attrs={"_iters": ("iters", "Int"), "_random_state": ("random_state", "Int")},
         actions={"check_random_state": 1, "self._get_init_population": 2, "self._from_population_g_to_fitness": 3, "self._show_progress": 4,
                  "self._get_new_population": 6, "self._on_generation": 7},
         bool_stream={"self._termitation_check": ("stops", 5)}, not_none={"_on_generation": "has_callback"}, returns_log=True),
    # ---- a GP mutation at the Python level: Tree values, draws, calls of the translated Tree methods
    dict(name="shrink_mutation", file="utils/mutations.py", func="shrink_mutation",
         params=[("tree", "Tree"), ("uniset", "Opaque"), ("proba", "Int"), ("max_level", "Int")], ret="Tree", streams=True,
         tree_calls={"get_args_id": "Tree_get_args_id", "subtree": "Tree_subtree", "concat": "Tree_concat"}),
    dict(name="Tree_get_args_id", file="base/_tree.py", cls="Tree", func="get_args_id", params=[("index", "Int")], ret="Arr",
         self_tree=True, uses=["find_id_args_from_i"]),
    # ---- Tree.get_levels / get_max_level and the Python-level GP crossover standard_crossover (two parents: `individs[0]`, `individs[1]`)
    dict(name="Tree_get_levels", file="base/_tree.py", cls="Tree", func="get_levels", params=[("index", "Int")], ret="Arr",
         self_tree=True, uses=["get_levels_tree_from_i"]),
    dict(name="Tree_get_max_level", file="base/_tree.py", cls="Tree", func="get_max_level", params=[], ret="Int",
         self_tree=True, tree_methods={"get_levels": "Tree_get_levels"}),
    dict(name="standard_crossover", file="utils/crossovers.py", func="standard_crossover",
         params=[("individs", "Tree2"), ("fitness", "Arr"), ("rank", "Arr"), ("max_level", "Int")], ret="Tree", streams=True,
         tree_calls={"subtree": "Tree_subtree", "concat": "Tree_concat", "get_max_level": "Tree_get_max_level"}),
    # ---- Tree.get_common_region for ONE other tree (`other_trees` is a one-element list: `len(other_trees) == 1` holds by the
    #      declared shape, the k-tree branch is not part of this kernel) and the GP crossover one_point_crossoverGP
    dict(name="Tree_get_common_region", file="base/_tree.py", cls="Tree", func="get_common_region", params=[("other_trees", "Tree1")], ret="Mat",
         self_tree=True, uses=["common_region_two_trees"]),
    dict(name="one_point_crossoverGP", file="utils/crossovers.py", func="one_point_crossoverGP",
         params=[("individs", "Tree2"), ("fitness", "Arr"), ("rank", "Arr"), ("max_level", "Int")], ret="Tree", streams=True,
         tree_calls={"subtree": "Tree_subtree", "concat": "Tree_concat", "get_common_region": "Tree_get_common_region"}),
    # ---- growing_mutation: the freshly grown tree is `grower budget` (the result of Tree.growing_method(uniset, budget)),
    #      so the theorem also says which depth budget the source passes
    dict(name="growing_mutation", file="utils/mutations.py", func="growing_mutation",
         params=[("tree", "Tree"), ("uniset", "Opaque"), ("proba", "Int"), ("max_level", "Int")], ret="Tree", streams=True,
         tree_calls={"concat": "Tree_concat", "get_levels": "Tree_get_levels"}, tree_ext_fn={"Tree.growing_method": "grower"}),
    # ---- point_mutation: nodes are identifiers; `isinstance(node, FunctionalNode)` and `node._n_args` are function parameters
    #      on identifiers, the two draws of the universal set are function parameters of their argument and the call's ordinal
    dict(name="point_mutation", file="utils/mutations.py", func="point_mutation",
         params=[("tree", "Tree"), ("uniset", "Opaque"), ("proba", "Int"), ("max_level", "Int")], ret="Tree", streams=True,
         node_preds={"FunctionalNode": "isFunctional"}, node_attrs={"_n_args": "nodeArity"},
         opaque_fn={"uniset._random_functional": ("randFunctional", ["Int"]), "uniset._random_terminal_or_ephemeral": ("randTerminal", [])}),
    # ---- swap_mutation: the shuffled argument positions are `shuffler args_id k` (the result of sattolo_shuffle), the loop runs over the
    #      pairs (old position, new position) in descending order of the new position
    dict(name="swap_mutation", file="utils/mutations.py", func="swap_mutation",
         params=[("tree", "Tree"), ("uniset", "Opaque"), ("proba", "Int"), ("max_leve", "Int")], ret="Tree", streams=True,
         tree_calls={"get_args_id": "Tree_get_args_id", "subtree": "Tree_subtree", "concat": "Tree_concat"},
         ext_fn={"sattolo_shuffle": ("shuffler", ["arr"])}),
    # ---- tree initialisation: the two stack loops of Tree.full_growing_method / Tree.growing_method; the draws of the universal set are
    #      function parameters of the call's ordinal, `node._n_args` a function on identifiers, the loop bound an explicit fuel parameter
    dict(name="Tree_full_growing_method", file="base/_tree.py", cls="Tree", func="full_growing_method",
         params=[("uniset", "Opaque"), ("max_level", "Int")], ret="Tree", streams=True, fuel="fuelp", fuel_param=True, cls_ctor=True,
         node_attrs={"_n_args": "nodeArity"},
         opaque_fn={"uniset._random_functional": ("randFunctional", []), "uniset._random_terminal_or_ephemeral": ("randTerminal", [])}),
    dict(name="Tree_growing_method", file="base/_tree.py", cls="Tree", func="growing_method",
         params=[("uniset", "Opaque"), ("max_level", "Int")], ret="Tree", streams=True, fuel="fuelp", fuel_param=True, cls_ctor=True,
         node_attrs={"_n_args": "nodeArity"},
         opaque_fn={"uniset._random_functional": ("randFunctional", []), "uniset._random_terminal_or_ephemeral": ("randTerminal", [])}),
    # ---- Tree.random_tree: a fair coin between the two initialisation methods, both called with the SAME depth bound
    dict(name="Tree_random_tree", file="base/_tree.py", cls="Tree", func="random_tree",
         params=[("uniset", "Opaque"), ("max_level", "Int")], ret="Tree", streams=True,
         tree_ext_fn={"cls.full_growing_method": "fullFn", "cls.growing_method": "growFn"}),
    # ---- the donor strategies of differential evolution: straight-line vector arithmetic (translated over the ring Int: the
    #      float operations are read as ring operations) on rows chosen by random_sample, which is a parameter taking
    #      the call's actual arguments and the call's ordinal: `sample range_size quantity replace k`
    *[dict(name=n, file="utils/mutations.py", func=n,
           params=[("current_individual", "Arr"), ("best_individual", "Arr"), ("population", "Mat"), ("F", "Int")], ret="Arr",
           ext_fn={"random_sample": ("sampler", ["range_size", "quantity", "replace"])})
      for n in ("best_1", "rand_1", "rand_to_best1", "current_to_best_1", "best_2", "rand_2")],
    dict(name="current_to_pbest_1_archive", file="utils/mutations.py", func="current_to_pbest_1_archive",
         params=[("current", "Arr"), ("population", "Mat"), ("pbest", "Arr"), ("F", "Int"), ("pop_archive", "Mat")], ret="Arr", streams=True,
         ext_fn={"random_sample": ("sampler", ["range_size", "quantity", "replace"])}),
    # ---- the composition of one DE / SHADE trial: donor -> binomial crossover -> boundary repair.  The strategy looked up in the pool
    #      is `donorFn`, `binomial` is `crossFn` (both applied to the call's actual arguments and ordinal; tied separately),
    #      bounds_control is a real call of its translation
    dict(name="DE_get_new_individ_g", file="optimizers/_differentialevolution.py", cls="DifferentialEvolution", func="_get_new_individ_g",
         params=[("individ_g", "Arr"), ("F", "Int"), ("CR", "Int")], ret="Arr",
         self_attrs={"_thefittest._genotype": ("best", "Arr"), "_population_g_i": ("population", "Mat"), "_left": ("left", "Arr"), "_right": ("right", "Arr")},
         opaque_lookups=["self._mutation_pool[self._specified_mutation]"], opaque_assign=["mutation_func"], uses=["bounds_control"],
         ext_fn={"mutation_func": ("donorFn", ["current", "best", "population", "F"], ["Arr", "Arr", "Mat", "Int"]),
                 "binomial": ("crossFn", ["individ", "mutant", "CR"])}),
    dict(name="SHADE_get_new_individ_g", file="optimizers/_shade.py", cls="SHADE", func="_get_new_individ_g",
         params=[("individ_g", "Arr"), ("F", "Int"), ("CR", "Int")], ret="Arr",
         self_attrs={"_population_g_i": ("population", "Mat"), "_pbest_id": ("pbest", "Arr"), "_population_archive": ("pop_archive", "Mat"),
                     "_left": ("left", "Arr"), "_right": ("right", "Arr")},
         ext_fn={"current_to_pbest_1_archive_p_min": ("donorFn", ["current", "population", "pbest", "F", "pop_archive"], ["Arr", "Mat", "Arr", "Int", "Mat"]),
                 "binomial": ("crossFn", ["individ", "mutant", "CR"]),
                 "bounds_control_mean": ("repairFn", ["array", "parent", "left", "right"], ["Arr", "Arr", "Arr", "Arr"])}),
    # ---- the composition of one GA offspring: selection -> crossover of the selected rows -> mutation.  The three operators looked up
    #      in the pools are function parameters of their actual arguments; the settings that come with them (tour_size, quantity, proba,
    #      is_constant_rate) are parameters; the float expression proba / len(offspring) is the parameter `proba_eff`
    dict(name="GA_get_new_individ_g", file="optimizers/_geneticalgorithm.py", cls="GeneticAlgorithm", func="_get_new_individ_g",
         params=[("specified_selection", "Opaque"), ("specified_crossover", "Opaque"), ("specified_mutation", "Opaque")], ret="Arr",
         self_attrs={"_fitness_scale_i": ("fitness_scale", "Arr"), "_fitness_rank_i": ("fitness_rank", "Arr"), "_population_g_i": ("population", "Mat")},
         opaque_lookups=["self._selection_pool[specified_selection]", "self._crossover_pool[specified_crossover]", "self._mutation_pool[specified_mutation]"],
         opaque_unpack={"selection_func": None, "crossover_func": None, "mutation_func": None,
                        "tour_size": "Int", "quantity": "Int", "proba": "Int", "is_constant_rate": "Bool"},
         opaque_if={"is_constant_rate": ("proba", "proba_eff", "Int")},
         ext_fn={"selection_func": ("selFn", ["fitness", "rank", "tour_size", "quantity"], ["Arr", "Arr", "Int", "Int"]),
                 "crossover_func": ("crossFn", ["individs", "fitness", "rank"], ["Mat", "Arr", "Arr"]),
                 "mutation_func": ("mutFn", ["individual", "proba"], ["Arr", "Int"])}),
    # ---- the same composition for GP: trees are identifiers here (the population is an array of identifiers, the offspring one identifier)
    dict(name="GP_get_new_individ_g", file="optimizers/_geneticprogramming.py", cls="GeneticProgramming", func="_get_new_individ_g",
         params=[("specified_selection", "Opaque"), ("specified_crossover", "Opaque"), ("specified_mutation", "Opaque")], ret="Int",
         self_attrs={"_fitness_scale_i": ("fitness_scale", "Arr"), "_fitness_rank_i": ("fitness_rank", "Arr"), "_population_g_i": ("population", "Arr"),
                     "_max_level": ("max_level", "Int"), "_uniset": ("uniset", "Int")},
         opaque_lookups=["self._selection_pool[specified_selection]", "self._crossover_pool[specified_crossover]", "self._mutation_pool[specified_mutation]"],
         opaque_unpack={"selection_func": None, "crossover_func": None, "mutation_func": None,
                        "tour_size": "Int", "quantity": "Int", "proba": "Int", "is_constant_rate": "Bool"},
         opaque_if={"is_constant_rate": ("proba", "proba_eff", "Int")},
         ext_fn={"selection_func": ("selFn", ["fitness", "rank", "tour_size", "quantity"], ["Arr", "Arr", "Int", "Int"]),
                 "crossover_func": ("crossFn", ["individs", "fitness", "rank", "max_level"], ["Arr", "Arr", "Arr", "Int"], "Int"),
                 "mutation_func": ("mutFn", ["tree", "uniset", "proba", "max_level"], ["Int", "Int", "Int", "Int"], "Int")}),
    # ---- _update_data: what is recorded per generation.  The final call self._update_stats(**kwargs) is read as "return these keyword
    #      values": the three scalars max_fitness / max_g / max_ph and the three series (individuals are identifiers here)
    dict(name="EA_update_data", file="base/_ea.py", cls="EvolutionaryAlgorithm", func="_update_data", params=[], ret="Mat",
         self_attrs={"_fitness_i": ("fitness_i", "Arr"), "_population_g_i": ("population_g_i", "Arr"), "_population_ph_i": ("population_ph_i", "Arr")},
         actions={"self._update_fittest": 1},
         return_call_kwargs=("self._update_stats", [["max_fitness", "max_g", "max_ph"], "fitness", "population_g", "population_ph"])),
    # ---- _split_population: the cut points are `linspaceFn 0 pop_size (n_jobs + 1) k` (np.linspace(..., dtype=int64), a float computation)
    dict(name="EA_split_population", file="base/_ea.py", cls="EvolutionaryAlgorithm", func="_split_population",
         params=[("population", "Arr")], ret="Mat", self_attrs={"_pop_size": ("pop_size", "Int"), "_n_jobs": ("n_jobs", "Int")},
         ext_fn={"np.linspace": ("linspaceFn", ["start", "stop", "num"], ["Int", "Int", "Int"])}),
    # ---- _get_aim: the threshold the stopping rule compares the record with (float arithmetic read over the ring Int; np.inf a parameter)
    dict(name="EA_get_aim", file="base/_ea.py", cls="EvolutionaryAlgorithm", func="_get_aim",
         params=[("optimal_value", "Int"), ("termination_error_value", "Int")], ret="Int",
         self_attrs={"_sign": ("sign", "Int")}, not_none={"optimal_value": "has_optimal"}),
    # ---- SHAGA's offspring: tournament of two on the fitness (both key arguments), binomial crossover with the parent first, flip mutation
    dict(name="SHAGA_get_new_individ_g", file="optimizers/_shaga.py", cls="SHAGA", func="_get_new_individ_g",
         params=[("individ_g", "Arr"), ("MR", "Int"), ("CR", "Int")], ret="Arr",
         self_attrs={"_fitness_i": ("fitness_i", "Arr"), "_population_g_i": ("population", "Mat")},
         ext_fn={"tournament_selection": ("tourFn", ["fitness", "rank", "tour_size", "quantity"]),
                 "binomialGA": ("crossFn", ["individ", "mutant", "CR"]),
                 "flip_mutation": ("flipFn", ["individual", "proba"])}),
    # ---- SelfCGA._adapt: which statistics and which threshold feed which probability table, and which table the next operators are
    #      drawn from (tables, operator arrays and the fitness are identifiers here; the three helper methods are function parameters)
    dict(name="SelfCGA_adapt", file="optimizers/_selfcga.py", cls="SelfCGA", func="_adapt", params=[], ret="Self",
         self_state=["_selection_proba", "_crossover_proba", "_mutation_proba", "_selection_operators", "_crossover_operators", "_mutation_operators"],
         self_attrs={"_fitness_i": ("fitness_i", "Int")},
         self_items={"_thresholds": {"selection": "thr_selection", "crossover": "thr_crossover", "mutation": "thr_mutation"}},
         ext_fn={"self._find_fittest_operator": ("fittestFn", ["operators", "fitness"], ["Int", "Int"], "Int"),
                 "self._get_new_proba": ("newProbaFn", ["proba_dict", "operator", "threshold"], ["Int", "Int", "Int"], "Int"),
                 "self._choice_operators": ("choiceFn", ["proba_dict"], ["Int"], "Int")}),
    # ---- PDPGA._adapt: when parent fitness values were remembered, the success flags are recomputed from them, each table is updated once
    #      from the operators of its own kind with its own threshold and the memory is emptied; the next operators are ALWAYS drawn, each
    #      from the (updated) table of its own kind (finding F8: they were never re-drawn)
    dict(name="PDPGA_adapt", file="optimizers/_pdpga.py", cls="PDPGA", func="_adapt", params=[], ret="Self",
         self_state=["_selection_proba", "_crossover_proba", "_mutation_proba", "_selection_operators", "_crossover_operators", "_mutation_operators",
                     "_success_i", "_previous_fitness_i"],
         self_items={"_thresholds": {"selection": "thr_selection", "crossover": "thr_crossover", "mutation": "thr_mutation"}},
         opaque_exprs={"len(self._previous_fitness_i)": "n_remembered",
                       "np.array(self._previous_fitness_i, dtype=np.float64) < self._fitness_i": "success_flags", "[]": "empty_list"},
         ext_fn={"self._get_new_proba_pdp": ("newProbaFn", ["proba_dict", "operators", "threshold"], ["Int", "Int", "Int"], "Int"),
                 "self._choice_operators": ("choiceFn", ["proba_dict"], ["Int"], "Int")}),
    # ---- PDPGA's offspring: as GA's, plus the remembered parent fitness (what `self._previous_fitness_i.append(...)` appends is returned
    #      as a second row)
    dict(name="PDPGA_get_new_individ_g", file="optimizers/_pdpga.py", cls="PDPGA", func="_get_new_individ_g",
         params=[("specified_selection", "Opaque"), ("specified_crossover", "Opaque"), ("specified_mutation", "Opaque")], ret="Mat",
         self_attrs={"_fitness_scale_i": ("fitness_scale", "Arr"), "_fitness_rank_i": ("fitness_rank", "Arr"), "_population_g_i": ("population", "Mat"),
                     "_fitness_i": ("fitness_i", "Arr")},
         opaque_lookups=["self._selection_pool[specified_selection]", "self._crossover_pool[specified_crossover]", "self._mutation_pool[specified_mutation]"],
         opaque_unpack={"selection_func": None, "crossover_func": None, "mutation_func": None,
                        "tour_size": "Int", "quantity": "Int", "proba": "Int", "is_constant_rate": "Bool"},
         opaque_if={"is_constant_rate": ("proba", "proba_eff", "Int")}, self_append=["_previous_fitness_i"],
         ext_fn={"selection_func": ("selFn", ["fitness", "rank", "tour_size", "quantity"], ["Arr", "Arr", "Int", "Int"]),
                 "crossover_func": ("crossFn", ["individs", "fitness", "rank"], ["Mat", "Arr", "Arr"]),
                 "mutation_func": ("mutFn", ["individual", "proba"], ["Arr", "Int"]),
                 "self._choice_parent": ("parentFn", ["fitness_i_selected"], ["Arr"], "Int")}),
    # ---- SHADE: the per-individual parameters are generated from ONE memory cell r_i (same cell for F and CR); randc01 / randn01 are
    #      function parameters of their argument and the call's ordinal; the memory-cell rule "no successes -> copy the old value"
    dict(name="SHADE_generate_F_CR", file="optimizers/_shade.py", cls="SHADE", func="_generate_F_CR", params=[], ret="Mat", streams=True,
         self_attrs={"_pop_size": ("pop_size", "Int"), "_H_size": ("H_size", "Int"), "_H_F": ("H_F", "Arr"), "_H_CR": ("H_CR", "Arr")},
         opaque_fn={"randc01": ("randcFn", ["Int"]), "randn01": ("randnFn", ["Int"])}),
    dict(name="SHAGA_generate_MR_CR", file="optimizers/_shaga.py", cls="SHAGA", func="_generate_MR_CR", params=[], ret="Mat", streams=True,
         self_attrs={"_pop_size": ("pop_size", "Int"), "_H_size": ("H_size", "Int"), "_H_MR": ("H_MR", "Arr"), "_H_CR": ("H_CR", "Arr")},
         opaque_exprs={"0.1 / self._str_len": "scale_MR"},
         opaque_fn={"self._randc": ("randcFn", ["Int", "Int"]), "self._randn": ("randnFn", ["Int", "Int"])}),
    dict(name="SHADE_update_u_F", file="optimizers/_shade.py", cls="SHADE", func="_update_u_F", params=[("u_F", "Int"), ("S_F", "Arr")], ret="Int", normalise_returns=True,
         opaque_fn={"lehmer_mean": ("lehmerFn", ["Arr"])}),
    # ---- the greedy replacement block at the end of DifferentialEvolution._get_new_population (suffix translation: the statements from
    #      `mask = ...` on; the evaluated trials are parameters; individuals are identifiers; the three population arrays are returned)
    dict(name="DE_greedy_replacement", file="optimizers/_differentialevolution.py", cls="DifferentialEvolution", func="_get_new_population", params=[], ret="Mat",
         start_at="mask = ", inputs={"mutant_cr_b_g": "Arr", "mutant_cr_ph": "Arr", "mutant_cr_fit": "Arr"},
         self_arrays=["_population_g_i", "_population_ph_i", "_fitness_i"]),
    dict(name="jDE_greedy_replacement", file="optimizers/_jde.py", cls="jDE", func="_get_new_population", params=[], ret="Mat",
         start_at="mask = ", inputs={"mutant_cr_b_g": "Arr", "mutant_cr_ph": "Arr", "mutant_cr_fit": "Arr", "mutate_F": "Arr", "mutate_CR": "Arr"},
         self_arrays=["_population_g_i", "_population_ph_i", "_fitness_i", "_F", "_CR"]),
    # ---- SHADE's bookkeeping after the trials are evaluated (suffix translation): successes, archive, greedy replacement, improvements,
    #      and the success-history ring (which cell is read, which is written, how the index advances); the three helper methods are
    #      function parameters of their actual arguments
    dict(name="SHADE_bookkeeping", file="optimizers/_shade.py", cls="SHADE", func="_get_new_population", params=[], ret="Mat",
         start_at="mask = ", inputs={"mutant_cr_b_g": "Arr", "mutant_cr_ph": "Arr", "mutant_cr_fit": "Arr"},
         self_arrays=["_population_g_i", "_population_ph_i", "_fitness_i", "_F", "_CR", "_population_g_archive_i", "_H_F", "_H_CR"], self_ints=["_k"],
         self_attrs={"_H_size": ("H_size", "Int")},
         ext_fn={"self._append_archive": ("appendFn", ["archive", "worse_g"], ["Arr", "Arr"]),
                 "self._update_u_F": ("updateFFn", ["u_F", "S_F"], ["Int", "Arr"], "Int"),
                 "self._update_u_CR": ("updateCRFn", ["u_CR", "S_CR", "df"], ["Int", "Arr", "Arr"], "Int")}),
    dict(name="SHAGA_bookkeeping", file="optimizers/_shaga.py", cls="SHAGA", func="_get_new_population", params=[], ret="Mat",
         start_at="mask = ", inputs={"mutant_cr_b_g": "Arr", "mutant_cr_ph": "Arr", "mutant_cr_fit": "Arr"},
         self_arrays=["_population_g_i", "_population_ph_i", "_fitness_i", "_MR", "_CR", "_H_MR", "_H_CR"], self_ints=["_k"],
         self_attrs={"_H_size": ("H_size", "Int")},
         ext_fn={"self._update_u": ("updateFn", ["u", "S", "df"], ["Int", "Arr", "Arr"], "Int")}),
    # ---- TheFittest.get (the values of the returned dictionary, in its order) and the base class's _from_population_g_to_fitness:
    #      evaluate, update the record, THEN write the record into the last slot when elitism is on.  _get_phenotype / _get_fitness are
    #      function parameters; the effect of _update_data() on the record is `recordFn population_g population_ph fitness k` (the new
    #      genotype, phenotype, fitness of the record; tied separately: TheFittest._update)
    dict(name="TheFittest_get", file="base/_ea.py", cls="TheFittest", func="get", params=[], ret="Arr",
         self_state=["_genotype", "_phenotype", "_fitness", "_no_update_counter"], dict_values=True),
    dict(name="EA_from_population_g_to_fitness", file="base/_ea.py", cls="EvolutionaryAlgorithm", func="_from_population_g_to_fitness", params=[], ret="Mat",
         self_arrays=["_population_g_i", "_population_ph_i", "_fitness_i"], self_attrs={"_elitism": ("elitism", "Bool")},
         self_ints=["_thefittest._genotype", "_thefittest._phenotype", "_thefittest._fitness", "_thefittest._no_update_counter"],
         ext_fn={"self._get_phenotype": ("phenFn", ["population_g"], ["Arr"]), "self._get_fitness": ("fitFn", ["population_ph"], ["Arr"])},
         effects={"self._update_data": ("recordFn", ["_population_g_i", "_population_ph_i", "_fitness_i"],
                                        ["_thefittest._genotype", "_thefittest._phenotype", "_thefittest._fitness"])},
         record_get=("self._thefittest.get().values()", "TheFittest_get",
                     ["_thefittest._genotype", "_thefittest._phenotype", "_thefittest._fitness", "_thefittest._no_update_counter"]),
         append_self_return=True),
    dict(name="DE_from_population_g_to_fitness", file="optimizers/_differentialevolution.py", cls="DifferentialEvolution", func="_from_population_g_to_fitness", params=[], ret="Mat",
         self_arrays=["_population_g_i", "_population_ph_i", "_fitness_i"], self_attrs={"_elitism": ("elitism", "Bool")},
         self_ints=["_thefittest._genotype", "_thefittest._phenotype", "_thefittest._fitness", "_thefittest._no_update_counter"],
         effects={"self._update_data": ("recordFn", ["_population_g_i", "_population_ph_i", "_fitness_i"],
                                        ["_thefittest._genotype", "_thefittest._phenotype", "_thefittest._fitness"])},
         actions={"self._adapt": 9},
         record_get=("self._thefittest.get().values()", "TheFittest_get",
                     ["_thefittest._genotype", "_thefittest._phenotype", "_thefittest._fitness", "_thefittest._no_update_counter"]),
         append_self_return=True),
    dict(name="SHAGA_from_population_g_to_fitness", file="optimizers/_shaga.py", cls="SHAGA", func="_from_population_g_to_fitness", params=[], ret="Mat",
         self_arrays=["_population_g_i", "_population_ph_i", "_fitness_i"], self_attrs={"_elitism": ("elitism", "Bool")},
         self_ints=["_thefittest._genotype", "_thefittest._phenotype", "_thefittest._fitness", "_thefittest._no_update_counter"],
         effects={"self._update_data": ("recordFn", ["_population_g_i", "_population_ph_i", "_fitness_i"],
                                        ["_thefittest._genotype", "_thefittest._phenotype", "_thefittest._fitness"])},
         actions={"self._adapt": 9},
         record_get=("self._thefittest.get().values()", "TheFittest_get",
                     ["_thefittest._genotype", "_thefittest._phenotype", "_thefittest._fitness", "_thefittest._no_update_counter"]),
         append_self_return=True),
    # ---- find_pbest_id: the float product p * size (truncated) is the parameter `count_raw`; the rest is code
    dict(name="find_pbest_id", file=U, func="find_pbest_id", params=[("array", "Arr"), ("p", "Opaque")], ret="Arr",
         uses=["argsort_k"], opaque_exprs={"np.int64(p * size)": "count_raw"}),
    dict(name="PDPGP_get_new_individ_g", file="optimizers/_pdpgp.py", cls="PDPGP", func="_get_new_individ_g",
         params=[("specified_selection", "Opaque"), ("specified_crossover", "Opaque"), ("specified_mutation", "Opaque")], ret="Mat",
         self_attrs={"_fitness_scale_i": ("fitness_scale", "Arr"), "_fitness_rank_i": ("fitness_rank", "Arr"), "_population_g_i": ("population", "Arr"),
                     "_fitness_i": ("fitness_i", "Arr"), "_max_level": ("max_level", "Int"), "_uniset": ("uniset", "Int")},
         opaque_lookups=["self._selection_pool[specified_selection]", "self._crossover_pool[specified_crossover]", "self._mutation_pool[specified_mutation]"],
         opaque_unpack={"selection_func": None, "crossover_func": None, "mutation_func": None,
                        "tour_size": "Int", "quantity": "Int", "proba": "Int", "is_constant_rate": "Bool"},
         opaque_if={"is_constant_rate": ("proba", "proba_eff", "Int")}, self_append=["_previous_fitness_i"], append_row_of_int=True,
         ext_fn={"selection_func": ("selFn", ["fitness", "rank", "tour_size", "quantity"], ["Arr", "Arr", "Int", "Int"]),
                 "crossover_func": ("crossFn", ["individs", "fitness", "rank", "max_level"], ["Arr", "Arr", "Arr", "Int"], "Int"),
                 "mutation_func": ("mutFn", ["tree", "uniset", "proba", "max_level"], ["Int", "Int", "Int", "Int"], "Int"),
                 "self._choice_parent": ("parentFn", ["fitness_i_selected"], ["Arr"], "Int")}),
    # ---- the GA family's evaluation step: the base class's step first (its effect on the three arrays is `stepFn g ph fit k`), then the
    #      scaled fitness and the ranks are computed from the fitness vector AS IT IS AFTER that step (elite included)
    dict(name="GA_from_population_g_to_fitness", file="optimizers/_geneticalgorithm.py", cls="GeneticAlgorithm", func="_from_population_g_to_fitness", params=[], ret="Mat",
         self_arrays=["_population_g_i", "_population_ph_i", "_fitness_i", "_fitness_scale_i", "_fitness_rank_i"],
         effects_arr={"super()._from_population_g_to_fitness()": ("stepFn", ["_population_g_i", "_population_ph_i", "_fitness_i"],
                                                                 ["_population_g_i", "_population_ph_i", "_fitness_i"])},
         ext_fn={"minmax_scale": ("scaleFn", ["data"], ["Arr"]), "rankdata": ("rankFn", ["a"], ["Arr"])},
         actions={"self._adapt": 9}, append_self_return=True),
    dict(name="tournament_selection", file="utils/selections.py", func="tournament_selection",
         params=[("fitness", "Arr"), ("rank", "Arr"), ("tour_size", "Int"), ("quantity", "Int")], ret="Arr",
         ext_fn={"random_sample": ("sampler", ["range_size", "quantity", "replace"])}),
    # ---- the two roulette selections: one call of random_weighted_sample, whose result is `wsampler weights quantity replace k`
    dict(name="proportional_selection", file="utils/selections.py", func="proportional_selection",
         params=[("fitness", "Arr"), ("rank", "Arr"), ("tour_size", "Int"), ("quantity", "Int")], ret="Arr",
         ext_fn={"random_weighted_sample": ("wsampler", ["weights", "quantity", "replace"])}),
    dict(name="rank_selection", file="utils/selections.py", func="rank_selection",
         params=[("fitness", "Arr"), ("rank", "Arr"), ("tour_size", "Int"), ("quantity", "Int")], ret="Arr",
         ext_fn={"random_weighted_sample": ("wsampler", ["weights", "quantity", "replace"])}),
]

LTY = {"Int": "Int", "Arr": "List Int", "Bool": "Bool", "Mat": "List (List Int)", "Self": "List Int", "Tree": "List (List Int)",
       "ArrSelf": "List (List Int)"}
TREE_ATTR = {"_nodes": "nodes", "_n_args": "nargs"}
DEFAULT = {"Int": "0", "Arr": "[]", "Bool": "false", "Mat": "[]"}
RESERVED = ("fullFn", "growFn", "randcFn", "randnFn", "lehmerFn", "parentFn", "tourFn", "flipFn", "fittestFn", "newProbaFn", "choiceFn", "linspaceFn", "selFn", "mutFn", "donorFn", "crossFn", "repairFn", "_", "shuffler", "grower", "sampler", "wsampler", "end", "at", "from", "to", "in", "do", "then", "fun", "match", "with", "open", "by", "s", "us", "ns", "fuel", "rolls", "max", "min", "hi0", "samples", "self", "self_nodes", "self_nargs", "log", "stops", "kb", "value_ext", "tree")


class NotRecognised(Exception):
    pass


def find_func(tree, cls, func):
    for n in tree.body:
        if cls and isinstance(n, ast.ClassDef) and n.name == cls:
            for m in n.body:
                if isinstance(m, ast.FunctionDef) and m.name == func:
                    return m
        if not cls and isinstance(n, ast.FunctionDef) and n.name == func:
            return n
    raise NotRecognised(f"function {cls + '.' if cls else ''}{func} not found")


def is_np(f, *names):
    return isinstance(f, ast.Attribute) and isinstance(f.value, ast.Name) and f.value.id in ("np", "numpy") and f.attr in names


def callname(f):
    if isinstance(f, ast.Name):
        return f.id
    if isinstance(f, ast.Attribute) and isinstance(f.value, ast.Name):
        return f"{f.value.id}.{f.attr}"
    if isinstance(f, ast.Attribute) and isinstance(f.value, ast.Attribute) and isinstance(f.value.value, ast.Name):
        return f"{f.value.value.id}.{f.value.attr}.{f.attr}"
    return None


def bor(*xs):
    xs = [x for x in xs if x and x != "false"]
    if not xs:
        return "false"
    return xs[0] if len(xs) == 1 else "(" + " || ".join(xs) + ")"


class Tr:
    def __init__(self, fn: ast.FunctionDef, cfg: dict):
        self.fn, self.cfg = fn, cfg
        self.params = {n: t for n, t in cfg["params"] if t != "Opaque"}
        self.params.update(cfg.get("inputs", {}))
        self.self_attrs = cfg.get("self_attrs", {})
        self.ext = cfg.get("ext", {})
        self.ext_stream = cfg.get("ext_stream", {})
        self.ext_fn = cfg.get("ext_fn", {})
        self.tree_ext_fn = cfg.get("tree_ext_fn", {})
        self.node_preds = cfg.get("node_preds", {})
        self.node_attrs = cfg.get("node_attrs", {})
        self.opaque_fn = cfg.get("opaque_fn", {})
        self.opaque_params = {n for n, t in cfg["params"] if t == "Opaque"}
        self.self_state = cfg.get("self_state", [])
        self.method_uses = cfg.get("method_uses", {})
        self.tree_calls = cfg.get("tree_calls", {})
        self.masks: set = set()
        self.opaque_if = cfg.get("opaque_if", {})
        self.opaque_unpack = cfg.get("opaque_unpack", {})
        self.self_items = cfg.get("self_items", {})
        self.self_append = cfg.get("self_append", [])
        self.self_arrays = cfg.get("self_arrays", [])
        self.self_ints = cfg.get("self_ints", [])
        self.actions = cfg.get("actions", {})
        self.bool_stream = cfg.get("bool_stream", {})
        self.not_none = cfg.get("not_none", {})
        self.self_tree = bool(cfg.get("self_tree"))
        self.tree_methods = cfg.get("tree_methods", {})
        self.uses = cfg.get("uses", [])
        self.streams = bool(cfg.get("streams"))
        self.roll_stream = bool(cfg.get("roll_stream"))
        self.locals: dict[str, str] = {}
        self.ntmp = 0
        self.tmps: dict[str, str] = {"app" + a_: "Arr" for a_ in self.self_append}
        self.tmps.update({"arr" + a_: "Arr" for a_ in cfg.get("self_arrays", [])})
        self.tmps.update({"int" + a_.replace(".", "_"): "Int" for a_ in cfg.get("self_ints", [])})
        self.keyconsts: dict[str, float] = {}
        self.used_streams: set = set()
        self.collect(fn.body)

    # ---- names
    @staticmethod
    def id(name):
        return name + "'" if name in RESERVED else name

    def tmp(self, ty):
        n = f"t{self.ntmp}"
        self.ntmp += 1
        self.tmps[n] = ty
        return n

    # ---- types
    def ty(self, e) -> str:
        if self.cfg.get("opaque_exprs") and not isinstance(e, (ast.Name, ast.Constant)) and ast.unparse(e) in self.cfg["opaque_exprs"]:
            return "Int"
        if isinstance(e, ast.Constant):
            return "Bool" if isinstance(e.value, bool) else "Int"
        if isinstance(e, ast.Name):
            if e.id == "self" and self.self_tree:
                return "Tree"
            t = self.locals.get(e.id) or self.params.get(e.id)
            if t is None:
                raise NotRecognised(f"unknown name {e.id}")
            return t
        if isinstance(e, ast.Compare) and len(e.ops) == 1 and isinstance(e.ops[0], ast.Gt) and not isinstance(e.left, ast.Constant) \
                and self._safe_ty(e.left) == "Arr":
            return "Arr"
        if self.is_mask_ge(e):
            return "Arr"
        if isinstance(e, ast.Attribute) and self.self_path(e) in getattr(self, "self_arrays", []):
            return "Arr"
        if isinstance(e, ast.Attribute) and self.self_path(e) in getattr(self, "self_ints", []):
            return "Int"
        if isinstance(e, (ast.Compare, ast.BoolOp)) or (isinstance(e, ast.UnaryOp) and isinstance(e.op, ast.Not)):
            return "Bool"
        if isinstance(e, ast.List):
            return "Arr"
        if isinstance(e, ast.Attribute):
            if self.tree_attr(e) is not None:
                return "Arr"
            dotted = self.self_path(e)
            if dotted is not None and dotted in self.self_attrs:
                return self.self_attrs[dotted][1]
            return "Int"
        if self.tree2(e) is not None:
            return "Tree"
        if self.self_item(e) is not None:
            return "Int"
        if isinstance(e, ast.Subscript):
            if self.is_sample1(e) or self.is_uniform1(e):
                return "Int"
            if isinstance(e.slice, ast.Slice) or is_np(e.value, "r_") or self.is_mask_index(e) or self.is_mask_get(e):
                return "Arr"
            if self._safe_ty(e.slice) == "Arr" and self._safe_ty(e.value) in ("Mat", "Arr"):
                return self.ty(e.value)
            return {"Mat": "Arr", "Arr": "Int"}.get(self.ty(e.value), "Int")
        if isinstance(e, ast.BinOp) and isinstance(e.op, ast.Mult) and self.ty(e.left) == "Int" and self.ty(e.right) == "Arr":
            return "Arr"
        if isinstance(e, ast.BinOp) and isinstance(e.op, (ast.Add, ast.Sub)) and self.ty(e.left) == "Arr" and self.ty(e.right) == "Arr":
            return "Arr"
        if isinstance(e, ast.Call):
            f = e.func
            nm = callname(f)
            if isinstance(f, ast.Attribute) and f.attr == "copy":
                return "Tree" if self.is_tree_value(f.value) else self.ty(f.value)
            if isinstance(f, ast.Name) and (f.id == "Tree" or (f.id == "cls" and self.cfg.get("cls_ctor"))):
                return "Tree"
            if nm in self.tree_ext_fn:
                return "Tree"
            if self.is_tree_call(e):
                return {"get_args_id": "Arr", "get_levels": "Arr", "get_max_level": "Int", "get_common_region": "Mat"}.get(f.attr, "Tree")
            if isinstance(f, ast.Attribute) and isinstance(f.value, ast.Name) and f.value.id == "self" and f.attr in self.tree_methods:
                return KERNEL_BY_NAME[self.tree_methods[f.attr]]["ret"]
            if is_np(f, "split") and len(e.args) == 2:
                return "Mat"
            if is_np(f, "abs") and len(e.args) == 1 and self._safe_ty(e.args[0]) == "Arr":
                return "Arr"
            if is_np(f, "empty", "arange", "zeros", "empty_like", "array", "cumsum"):
                return "Arr"
            if nm in ("sorted", "range"):
                return "Arr"
            if nm in self.ext_fn and len(self.ext_fn[nm]) > 3:
                return self.ext_fn[nm][3]
            if nm in self.ext_stream or nm in self.ext_fn:
                return "Arr"
            if nm in ("flip_coin", "bool") or self.self_call_name(e) in self.bool_stream:
                return "Bool"
            if nm == "isinstance" and len(e.args) == 2 and isinstance(e.args[1], ast.Name) and e.args[1].id in self.node_preds:
                return "Bool"
            if nm in self.opaque_fn:
                return "Int"
            if nm in self.ext:
                return self.ext[nm][1]
            if nm in self.uses:
                return KERNEL_BY_NAME[nm]["ret"]
        return "Int"

    def _safe_ty(self, e):
        try:
            return self.ty(e)
        except NotRecognised:
            return None

    def setlocal(self, name, ty):
        if name in self.params:
            raise NotRecognised(f"assignment to parameter {name}")
        old = self.locals.get(name)
        if old and old != ty:
            raise NotRecognised(f"variable {name} used at types {old} and {ty}")
        self.locals[name] = ty

    def collect(self, stmts):
        for st in stmts:
            if isinstance(st, ast.Assign) and len(st.targets) == 1 and isinstance(st.targets[0], ast.Name) and st.targets[0].id in self.cfg.get("opaque_assign", []):
                continue
            if self.is_opaque_unpack(st):
                for el in st.targets[0].elts:
                    if self.opaque_unpack[el.id] is not None:
                        self.setlocal(el.id, self.opaque_unpack[el.id])
                continue
            if isinstance(st, ast.Assign):
                for t in st.targets:
                    if isinstance(t, ast.Name):
                        if self.is_mask_expr(st.value) or self.is_mask_ge(st.value):
                            self.masks.add(t.id)
                        self.setlocal(t.id, self.ty(st.value))
                    elif isinstance(t, ast.Tuple) and self.is_tree_call(st.value, "get_common_region"):
                        for el in t.elts:
                            if isinstance(el, ast.Name):
                                self.setlocal(el.id, "Mat")
                    elif isinstance(t, ast.Tuple):
                        for el in t.elts:
                            if isinstance(el, ast.Name):
                                self.setlocal(el.id, "Int")
            elif isinstance(st, ast.AnnAssign) and isinstance(st.target, ast.Name) and st.value is not None:
                self.setlocal(st.target.id, self.ty(st.value))
            elif isinstance(st, ast.AugAssign) and isinstance(st.target, ast.Name):
                self.setlocal(st.target.id, "Int")
            elif isinstance(st, ast.For) and self.sorted_zip(st) is not None:
                for el in st.target.elts:
                    self.setlocal(el.id, "Int")
                self.collect(st.body)
                if st.orelse:
                    raise NotRecognised("for-else")
            elif isinstance(st, ast.For) and self.zip_tree_nodes(st) is not None:
                for el in st.target.elts:
                    self.setlocal(el.id, "Int")
                self.collect(st.body)
                if st.orelse:
                    raise NotRecognised("for-else")
            elif isinstance(st, ast.If) and ast.unparse(st.test) in self.cfg.get("skip_ifs", []):
                pass
            elif isinstance(st, ast.For) and self.enum_self_nodes(st) is not None:
                for el in st.target.elts:
                    self.setlocal(el.id, "Int")
                self.collect(st.body)
                if st.orelse:
                    raise NotRecognised("for-else")
            elif isinstance(st, ast.For):
                if not isinstance(st.target, ast.Name):
                    raise NotRecognised("for target")
                self.setlocal(st.target.id, "Int")
                self.collect(st.body)
                if st.orelse:
                    raise NotRecognised("for-else")
            elif isinstance(st, ast.While):
                self.collect(st.body)
                if st.orelse:
                    raise NotRecognised("while-else")
            elif isinstance(st, ast.If) and ast.unparse(st.test) in self.opaque_if:
                oi = self.opaque_if[ast.unparse(st.test)]
                self.setlocal(oi[0], oi[2] if len(oi) > 2 else "Arr")
            elif isinstance(st, ast.If) and self.static_true(st.test):
                self.collect(st.body)
            elif isinstance(st, ast.If):
                self.collect(st.body)
                self.collect(st.orelse)

    # ---- effects hoisted out of an expression, in evaluation order: draws, pops, kernel calls.
    #      Returns (lines, rewritten-expression-environment): sub-expressions are replaced by `s.tN`.
    def hoist(self, e, lines, env, guarded=False):
        """walk `e` in evaluation order; effectful sub-expressions get a temporary"""
        if self.cfg.get("opaque_exprs") and not isinstance(e, (ast.Name, ast.Constant)) and ast.unparse(e) in self.cfg["opaque_exprs"]:
            return
        if isinstance(e, ast.BoolOp):
            self.hoist(e.values[0], lines, env, guarded)
            for v in e.values[1:]:
                self.hoist(v, lines, env, True)
            return
        if isinstance(e, ast.IfExp):
            raise NotRecognised("conditional expression")
        if self.is_sample1(e):
            for k in e.value.keywords:
                self.hoist(k.value, lines, env, guarded)
            if guarded:
                raise NotRecognised(f"effectful call {ast.unparse(e)} under a short-circuit operator")
            if not self.streams:
                raise NotRecognised("random draw in a kernel without streams")
            t = self.tmp("Int")
            self.used_streams.add("ns")
            lines.append(f"{{ s with {t} := Imp.geti ns s.kn, dry := s.dry || decide (ns.length ≤ s.kn), kn := s.kn + 1 }}")
            env[id(e)] = f"s.{t}"
            return
        if self.is_tree_call(e, "get_args_id"):
            for a in e.args:
                self.hoist(a, lines, env, guarded)
            if guarded:
                raise NotRecognised(f"effectful call {ast.unparse(e)} under a short-circuit operator")
            nodes, nargs = self.tree_pair(e.func.value, env)
            t = self.tmp("Arr")
            lines.append(f"(match {self.tree_calls['get_args_id']} {nodes} {nargs} {self.E(e.args[0], env)} with | some v => {{ s with {t} := v }} | none => {{ s with err := true }})")
            env[id(e)] = f"s.{t}"
            return
        if self.is_tree_call(e, "get_levels"):
            for a in e.args:
                self.hoist(a, lines, env, guarded)
            if guarded:
                raise NotRecognised(f"effectful call {ast.unparse(e)} under a short-circuit operator")
            nodes, nargs = self.tree_pair(e.func.value, env)
            t = self.tmp("Arr")
            lines.append(f"(match {self.tree_calls['get_levels']} {nodes} {nargs} {self.E(e.args[0], env)} with | some v => {{ s with {t} := v }} | none => {{ s with err := true }})")
            env[id(e)] = f"s.{t}"
            return
        if self.is_tree_call(e, "get_max_level"):
            if guarded:
                raise NotRecognised(f"effectful call {ast.unparse(e)} under a short-circuit operator")
            nodes, nargs = self.tree_pair(e.func.value, env)
            t = self.tmp("Int")
            lines.append(f"(match {self.tree_calls['get_max_level']} {nodes} {nargs} with | some v => {{ s with {t} := v }} | none => {{ s with err := true }})")
            env[id(e)] = f"s.{t}"
            return
        if isinstance(e, ast.Call) and isinstance(e.func, ast.Attribute) and isinstance(e.func.value, ast.Name) and e.func.value.id == "self" \
                and e.func.attr in self.tree_methods and self.self_tree:
            for a in e.args:
                self.hoist(a, lines, env, guarded)
            if guarded:
                raise NotRecognised(f"effectful call {ast.unparse(e)} under a short-circuit operator")
            callee = self.tree_methods[e.func.attr]
            t = self.tmp(KERNEL_BY_NAME[callee]["ret"])
            args = " ".join(self.E(a, env) for a in e.args)
            lines.append(f"(match {callee} self_nodes self_nargs {args} with | some v => {{ s with {t} := v }} | none => {{ s with err := true }})")
            env[id(e)] = f"s.{t}"
            return
        if self.is_uniform1(e):
            if guarded:
                raise NotRecognised(f"effectful call {ast.unparse(e)} under a short-circuit operator")
            if not self.streams:
                raise NotRecognised("random draw in a kernel without streams")
            t = self.tmp("Int")
            self.used_streams.add("us")
            lines.append(f"{{ s with {t} := Imp.geti us s.ku, dry := s.dry || decide (us.length ≤ s.ku), ku := s.ku + 1 }}")
            env[id(e)] = f"s.{t}"
            return
        if self.is_randint1(e):
            for a in e.value.args[:2]:
                self.hoist(a, lines, env, guarded)
            if guarded:
                raise NotRecognised(f"effectful call {ast.unparse(e)} under a short-circuit operator")
            if not self.streams:
                raise NotRecognised("random draw in a kernel without streams")
            t = self.tmp("Int")
            self.used_streams.add("ns")
            lines.append(f"{{ s with {t} := Imp.geti ns s.kn, dry := s.dry || decide (ns.length ≤ s.kn), kn := s.kn + 1 }}")
            env[id(e)] = f"s.{t}"
            return
        if isinstance(e, ast.Call) and isinstance(e.func, ast.Name) and e.func.id == "isinstance" and len(e.args) == 2:
            self.hoist(e.args[0], lines, env, guarded)
            return
        if isinstance(e, ast.Call):
            nm = callname(e.func)
            kind = self.effect_kind(e)
            if kind == "scaled":
                # np.int64(np.floor(random.random() * X)): the arguments of the inner product are walked, not the draw
                inner = e.args[0].args[0]
                other = inner.right if self.is_rr(inner.left) else inner.left
                self.hoist(other, lines, env, guarded)
            elif isinstance(e.func, ast.Attribute) and not is_np(e.func, *NP_FUNCS) and nm not in ("random.random", "np.random.randint") \
                    and nm not in self.opaque_fn \
                    and not (isinstance(e.func.value, ast.Name) and e.func.value.id == "self"):
                self.hoist(e.func.value, lines, env, guarded)
                for a in e.args:
                    self.hoist(a, lines, env, guarded)
            else:
                for a in e.args:
                    self.hoist(a, lines, env, guarded)
                for k in e.keywords:
                    self.hoist(k.value, lines, env, guarded)
            if kind is None:
                return
            if guarded:
                raise NotRecognised(f"effectful call {ast.unparse(e)} under a short-circuit operator")
            argcond = bor(*[self.oob(a, env) for a in list(e.args) + [k.value for k in e.keywords]])
            if argcond != "false":
                lines.append(f"{{ s with err := s.err || {argcond} }}")
            if kind in ("u", "coin"):
                if not self.streams:
                    raise NotRecognised("random draw in a kernel without streams")
                t = self.tmp("Int")
                self.used_streams.add("us")
                lines.append(f"{{ s with {t} := Imp.geti us s.ku, dry := s.dry || decide (us.length ≤ s.ku), ku := s.ku + 1 }}")
                env[id(e)] = f"s.{t}" if kind == "u" else f"(decide (s.{t} < {self.E(e.args[0], env)}))"
            elif kind in ("n", "scaled"):
                if not self.streams:
                    raise NotRecognised("random draw in a kernel without streams")
                t = self.tmp("Int")
                self.used_streams.add("ns")
                lines.append(f"{{ s with {t} := Imp.geti ns s.kn, dry := s.dry || decide (ns.length ≤ s.kn), kn := s.kn + 1 }}")
                env[id(e)] = f"s.{t}"
            elif kind == "roll":
                t = self.tmp("Int")
                lines.append(f"{{ s with {t} := Imp.geti rolls s.kr, dry := s.dry || decide (rolls.length ≤ s.kr), kr := s.kr + 1 }}")
                env[id(e)] = f"s.{t}"
            elif kind == "bstream":
                par, code = self.bool_stream[self.self_call_name(e)]
                t = self.tmp("Int")
                lines.append(f"{{ s with {t} := Imp.geti {par} (s.kb : Int), dry := s.dry || decide ({par}.length ≤ s.kb), kb := s.kb + 1, log := s.log ++ [({code} : Int)] }}")
                env[id(e)] = f"(Imp.truthy s.{t})"
            elif kind == "xstream":
                t = self.tmp("Arr")
                xs = self.ext_stream[nm]
                lines.append(f"{{ s with {t} := Imp.getrow {xs} (s.kx : Int), dry := s.dry || decide ({xs}.length ≤ s.kx), kx := s.kx + 1 }}")
                env[id(e)] = f"s.{t}"
            elif kind == "xfn":
                par, names = self.ext_fn[nm][:2]
                kw = {k.arg: k.value for k in e.keywords if not (k.arg == "dtype" and nm.startswith("np."))}
                actual = list(e.args) + [kw.get(n) for n in names[len(e.args):]]
                if len(actual) != len(names) or any(a is None for a in actual) or len(kw) != len(names) - len(e.args):
                    raise NotRecognised(f"arguments of {ast.unparse(e)}")
                t = self.tmp(self.ext_fn[nm][3] if len(self.ext_fn[nm]) > 3 else "Arr")
                lines.append(f"{{ s with {t} := {par} " + " ".join(self.E(a, env) for a in actual) + f" s.kx, kx := s.kx + 1 }}")
                env[id(e)] = f"s.{t}"
            elif kind == "ofn":
                par, tys = self.opaque_fn[nm]
                if len(e.args) != len(tys) or e.keywords:
                    raise NotRecognised(f"arguments of {ast.unparse(e)}")
                t = self.tmp("Int")
                lines.append(f"{{ s with {t} := {par} " + " ".join(self.E(a, env) for a in e.args) + f" s.kx, kx := s.kx + 1 }}")
                env[id(e)] = f"s.{t}"
            elif kind == "pop":
                a = self.id(e.func.value.id)
                t = self.tmp("Int")
                lines.append(f"{{ s with {t} := Imp.last s.{a}, err := s.err || s.{a}.isEmpty, {a} := s.{a}.dropLast }}")
                env[id(e)] = f"s.{t}"
            elif kind == "kernel":
                ret = KERNEL_BY_NAME[nm]["ret"]
                t = self.tmp(ret)
                args = " ".join(self.E(a, env) for a in e.args)
                lines.append(f"(match {nm} {args} with | some v => {{ s with {t} := v }} | none => {{ s with err := true }})")
                env[id(e)] = f"s.{t}"
            return
        for c in ast.iter_child_nodes(e):
            if isinstance(c, ast.expr):
                self.hoist(c, lines, env, guarded)

    @staticmethod
    def self_call_name(e):
        """`self.m(...)` -> 'self.m'; `f(...)` -> 'f'"""
        if isinstance(e, ast.Call):
            f = e.func
            if isinstance(f, ast.Name):
                return f.id
            if isinstance(f, ast.Attribute) and isinstance(f.value, ast.Name) and f.value.id == "self":
                return "self." + f.attr
        return None

    def tree_attr(self, e):
        """`X._nodes` / `X._n_args` of a Tree value X (self, a parameter or a local) -> Lean expression, else None"""
        if isinstance(e, ast.Attribute) and e.attr in TREE_ATTR and self.tree2(e.value) is not None:
            return f"{self.tree2(e.value)}_{TREE_ATTR[e.attr]}"
        if isinstance(e, ast.Attribute) and e.attr in TREE_ATTR and isinstance(e.value, ast.Name):
            x, a = e.value.id, TREE_ATTR[e.attr]
            if x == "self" and self.self_tree:
                return f"self_{a}"
            if self.params.get(x) == "Tree":
                return f"{self.id(x)}_{a}"
            if self.locals.get(x) == "Tree":
                return f"s.{self.id(x)}__{a}"
        return None

    def tree2(self, e):
        """`P[k]` for a parameter P holding two trees and a literal k -> 'P_k', else None"""
        if isinstance(e, ast.Subscript) and isinstance(e.value, ast.Name) and self.params.get(e.value.id) == "Tree2" \
                and isinstance(e.slice, ast.Constant) and e.slice.value in (0, 1):
            return f"{self.id(e.value.id)}_{e.slice.value}"
        if isinstance(e, ast.Subscript) and isinstance(e.value, ast.Name) and self.params.get(e.value.id) == "Tree1" \
                and isinstance(e.slice, ast.Constant) and e.slice.value == 0:
            return f"{self.id(e.value.id)}_0"
        return None

    def zip_tree_nodes(self, st):
        """`for a, b in zip(X._nodes, Y._nodes)` for two Tree values -> the two Lean arrays, else None"""
        if isinstance(st.target, ast.Tuple) and len(st.target.elts) == 2 and all(isinstance(e_, ast.Name) for e_ in st.target.elts) \
                and isinstance(st.iter, ast.Call) and isinstance(st.iter.func, ast.Name) and st.iter.func.id == "zip" and len(st.iter.args) == 2 \
                and not st.iter.keywords and all(isinstance(a_, ast.Attribute) and a_.attr == "_nodes" and self.tree_attr(a_) is not None for a_ in st.iter.args):
            return self.tree_attr(st.iter.args[0]), self.tree_attr(st.iter.args[1])
        return None

    def enum_self_nodes(self, st):
        """`for i, x in enumerate(self._nodes)` of a Tree method -> the Lean array, else None"""
        if isinstance(st.target, ast.Tuple) and len(st.target.elts) == 2 and all(isinstance(e_, ast.Name) for e_ in st.target.elts) \
                and isinstance(st.iter, ast.Call) and isinstance(st.iter.func, ast.Name) and st.iter.func.id == "enumerate" and len(st.iter.args) == 1 \
                and not st.iter.keywords and self.self_tree and ast.unparse(st.iter.args[0]) == "self._nodes":
            return "self_nodes"
        return None

    @staticmethod
    def sorted_zip(st):
        """`for a, b in sorted(zip(X, Y), key=lambda pair: -pair[1])` -> (X, Y), else None"""
        it = st.iter
        if not (isinstance(st.target, ast.Tuple) and len(st.target.elts) == 2 and all(isinstance(el, ast.Name) for el in st.target.elts)):
            return None
        if not (isinstance(it, ast.Call) and isinstance(it.func, ast.Name) and it.func.id == "sorted" and len(it.args) == 1
                and len(it.keywords) == 1 and it.keywords[0].arg == "key"):
            return None
        z, key = it.args[0], it.keywords[0].value
        if not (isinstance(z, ast.Call) and isinstance(z.func, ast.Name) and z.func.id == "zip" and len(z.args) == 2 and not z.keywords):
            return None
        if not isinstance(key, ast.Lambda) or len(key.args.args) != 1:
            return None
        if ast.unparse(key.body) != f"-{key.args.args[0].arg}[1]":
            return None
        return z.args[0], z.args[1]

    def is_opaque_unpack(self, st):
        """`a, b, ... = <lookup outside the subset>` where every target is declared in opaque_unpack"""
        ok = (isinstance(st, ast.Assign) and len(st.targets) == 1 and isinstance(st.targets[0], ast.Tuple)
              and all(isinstance(el, ast.Name) and el.id in self.opaque_unpack for el in st.targets[0].elts)
              and isinstance(st.value, ast.Subscript))
        if ok and self.cfg.get("opaque_lookups") is not None and ast.unparse(st.value) not in self.cfg["opaque_lookups"]:
            # WHICH table is read with WHICH key is part of what the theorem's parameters stand for
            raise NotRecognised(f"lookup {ast.unparse(st.value)} is not one of the declared ones")
        return ok

    @staticmethod
    def is_minus_one(b):
        return isinstance(b, ast.UnaryOp) and isinstance(b.op, ast.USub) and isinstance(b.operand, ast.Constant) and b.operand.value == 1

    def self_item(self, e):
        """`self._d["key"]` for a declared dictionary attribute -> parameter name, else None"""
        if isinstance(e, ast.Subscript) and isinstance(e.slice, ast.Constant) and isinstance(e.slice.value, str):
            d = self.self_path(e.value)
            if d in self.self_items and e.slice.value in self.self_items[d]:
                return self.self_items[d][e.slice.value]
        return None

    def is_mask_ge(self, e):
        """<array> >= <array> : the elementwise mask"""
        return (isinstance(e, ast.Compare) and len(e.ops) == 1 and isinstance(e.ops[0], (ast.GtE, ast.Gt))
                and self._safe_ty(e.left) == "Arr" and self._safe_ty(e.comparators[0]) == "Arr")

    def is_mask_get(self, e):
        """<array>[<mask>] : the entries at which a 0/1 mask (a local assigned from an array comparison) is set"""
        return (isinstance(e, ast.Subscript) and isinstance(e.slice, ast.Name) and e.slice.id in self.masks
                and not (isinstance(e.value, ast.Call) and is_np(e.value.func, "arange")) and self._safe_ty(e.value) == "Arr")

    def static_true(self, test):
        """`len(P) == 1` for a parameter P declared as a one-element list of trees"""
        return (isinstance(test, ast.Compare) and len(test.ops) == 1 and isinstance(test.ops[0], ast.Eq)
                and isinstance(test.left, ast.Call) and callname(test.left.func) == "len" and len(test.left.args) == 1
                and isinstance(test.left.args[0], ast.Name) and self.params.get(test.left.args[0].id) == "Tree1"
                and isinstance(test.comparators[0], ast.Constant) and test.comparators[0].value == 1)

    def is_tree_value(self, e):
        if self.tree2(e) is not None:
            return True
        if isinstance(e, ast.Name):
            return (e.id == "self" and self.self_tree) or self.params.get(e.id) == "Tree" or self.locals.get(e.id) == "Tree"
        return False

    def tree_pair(self, e, env):
        """a Tree-valued expression as (nodes, nargs) Lean expressions"""
        if isinstance(e, ast.Call) and isinstance(e.func, ast.Attribute) and e.func.attr == "copy" and self.is_tree_value(e.func.value):
            e = e.func.value
        if self.tree2(e) is not None:
            return f"{self.tree2(e)}_nodes", f"{self.tree2(e)}_nargs"
        if isinstance(e, ast.Name) and self.is_tree_value(e):
            mk = lambda a: self.tree_attr(ast.Attribute(value=e, attr=a))
            return mk("_nodes"), mk("_n_args")
        if isinstance(e, ast.Call) and isinstance(e.func, ast.Name) and (e.func.id == "Tree" or (e.func.id == "cls" and self.cfg.get("cls_ctor"))) and len(e.args) == 2:
            return self.E(e.args[0], env), self.E(e.args[1], env)
        raise NotRecognised(f"tree expression {ast.unparse(e)}")

    def tree_value(self, e, L, env):
        """a Tree-valued expression, possibly a (nested) call of a translated Tree method: emits the calls into L and
        returns the (nodes, nargs) Lean expressions of the result"""
        if self.is_tree_call(e) and e.func.attr in ("subtree", "concat"):
            rn, ra = self.tree_pair(e.func.value, env)
            args = []
            for a in e.args:
                if self._safe_ty(a) == "Tree" or self.is_tree_call(a):
                    an, aa = self.tree_value(a, L, env)
                    args += [an, aa]
                else:
                    env.update(self.pre([a], L))
                    args.append(self.E(a, env))
            tn, ta = self.tmp("Arr"), self.tmp("Arr")
            L.append(f"(match {self.tree_calls[e.func.attr]} {rn} {ra} {' '.join(args)} with | some v => {{ s with {tn} := Imp.getrow v (0 : Int), {ta} := Imp.getrow v (1 : Int), "
                     f"err := s.err || decide (v.length ≠ 2) }} | none => {{ s with err := true }})")
            return f"s.{tn}", f"s.{ta}"
        if isinstance(e, ast.Call) and callname(e.func) in self.tree_ext_fn:
            par = self.tree_ext_fn[callname(e.func)]
            actual = [a for a in e.args if not (isinstance(a, ast.Name) and a.id in self.opaque_params)]
            if e.keywords:
                raise NotRecognised(f"keyword arguments of {ast.unparse(e)}")
            env.update(self.pre(actual, L))
            tn, ta = self.tmp("Arr"), self.tmp("Arr")
            call = f"({par} " + " ".join(self.E(a, env) for a in actual) + ")"
            L.append(f"{{ s with {tn} := Imp.getrow {call} (0 : Int), {ta} := Imp.getrow {call} (1 : Int), err := s.err || decide (({call}).length ≠ 2) }}")
            return f"s.{tn}", f"s.{ta}"
        return self.tree_pair(e, env)

    @staticmethod
    def self_path(e):
        """`self.a.b` -> 'a.b'"""
        parts = []
        while isinstance(e, ast.Attribute):
            parts.append(e.attr)
            e = e.value
        if isinstance(e, ast.Name) and e.id == "self":
            return ".".join(reversed(parts))
        return None

    @staticmethod
    def is_randint1(e):
        """randint(lo, hi, 1)[0]"""
        if not (isinstance(e, ast.Subscript) and isinstance(e.slice, ast.Constant) and e.slice.value == 0 and isinstance(e.value, ast.Call)
                and callname(e.value.func) == "randint"):
            return False
        c = e.value
        size = c.args[2] if len(c.args) == 3 else next((k.value for k in c.keywords if k.arg == "size"), None)
        return len(c.args) + len(c.keywords) == 3 and len(c.args) >= 2 and isinstance(size, ast.Constant) and size.value == 1

    @staticmethod
    def is_uniform1(e):
        """uniform(low=0, high=1, size=1)[0]: one uniform draw from [0, 1)"""
        if not (isinstance(e, ast.Subscript) and isinstance(e.slice, ast.Constant) and e.slice.value == 0 and isinstance(e.value, ast.Call)
                and callname(e.value.func) == "uniform"):
            return False
        c = e.value
        vals = {k.arg: k.value for k in c.keywords}
        for n_, a in zip(("low", "high", "size"), c.args):
            vals[n_] = a
        ok = lambda n_, v: isinstance(vals.get(n_), ast.Constant) and vals[n_].value == v
        return len(vals) == 3 and ok("low", 0) and ok("high", 1) and ok("size", 1)

    def is_sample1(self, e):
        """random_sample(range_size=R, quantity=1, replace=True)[0]"""
        if "random_sample" in self.ext or "random_sample" in self.ext_fn:
            return False
        if not (isinstance(e, ast.Subscript) and isinstance(e.slice, ast.Constant) and e.slice.value == 0 and isinstance(e.value, ast.Call)
                and callname(e.value.func) == "random_sample"):
            return False
        kw = {k.arg: k.value for k in e.value.keywords}
        q = kw.get("quantity", e.value.args[1] if len(e.value.args) > 1 else None)
        return isinstance(q, ast.Constant) and q.value == 1

    def is_tree_call(self, e, kind=None):
        """X.get_args_id(i) / X.subtree(i) / X.concat(i, T) on a Tree value X"""
        ok = (isinstance(e, ast.Call) and isinstance(e.func, ast.Attribute) and e.func.attr in self.tree_calls and self.is_tree_value(e.func.value))
        return ok and (kind is None or e.func.attr == kind)

    def is_mask_expr(self, e):
        """<array> > <int> : a boolean mask"""
        return (isinstance(e, ast.Compare) and len(e.ops) == 1 and isinstance(e.ops[0], ast.Gt) and self.ty(e.left) == "Arr"
                and self.ty(e.comparators[0]) == "Int")

    def is_mask_index(self, e):
        """np.arange(len(T), ...)[mask]"""
        return (isinstance(e, ast.Subscript) and isinstance(e.value, ast.Call) and is_np(e.value.func, "arange") and isinstance(e.slice, ast.Name)
                and e.slice.id in self.masks)

    @staticmethod
    def is_rr(e):
        return isinstance(e, ast.Call) and callname(e.func) == "random.random" and not e.args

    def effect_kind(self, e: ast.Call):
        nm = callname(e.func)
        if self.roll_stream and isinstance(e, ast.Call) and False:
            return None
        if nm == "random.random" and not e.args:
            return "u"
        if nm == "flip_coin" and len(e.args) == 1:
            return "coin"
        if nm == "np.random.randint" and len(e.args) == 2:
            return "n"
        if is_np(e.func, "int64") and len(e.args) == 1 and isinstance(e.args[0], ast.Call) and is_np(e.args[0].func, "floor") \
                and isinstance(e.args[0].args[0], ast.BinOp) and isinstance(e.args[0].args[0].op, ast.Mult) \
                and (self.is_rr(e.args[0].args[0].left) or self.is_rr(e.args[0].args[0].right)):
            return "scaled"
        if isinstance(e.func, ast.Attribute) and e.func.attr == "pop" and not e.args and isinstance(e.func.value, ast.Name) and e.func.value.id in self.locals:
            return "pop"
        if nm in self.uses:
            return "kernel"
        if nm in self.ext_stream:
            return "xstream"
        if nm in self.ext_fn:
            return "xfn"
        if nm in self.opaque_fn:
            return "ofn"
        if self.self_call_name(e) in self.bool_stream:
            return "bstream"
        return None

    # ---- expressions (pure, after hoisting)
    def E(self, e, env) -> str:
        if id(e) in env:
            return env[id(e)]
        if isinstance(e, ast.Call) and ast.unparse(e.func) in self.cfg.get("star_call", {}) and len(e.args) == 1 and isinstance(e.args[0], ast.Starred) and not e.keywords:
            # <node>.<attr>(*args): the symbol of the node applied to the list of its arguments (a function parameter on identifiers)
            recv = e.func
            while isinstance(recv, ast.Attribute):
                recv = recv.value
            if not (isinstance(recv, ast.Name) and recv.id in self.cfg.get("node_names", []) and self.ty(e.args[0].value) == "Arr"):
                raise NotRecognised("starred call operands")
            return f"({self.cfg['star_call'][ast.unparse(e.func)]} {self.E(recv, env)} {self.E(e.args[0].value, env)})"
        if self.cfg.get("opaque_exprs") and isinstance(e, ast.AST) and not isinstance(e, (ast.Name, ast.Constant)) and ast.unparse(e) in self.cfg["opaque_exprs"]:
            return self.cfg["opaque_exprs"][ast.unparse(e)]
        if isinstance(e, ast.Constant):
            if isinstance(e.value, bool):
                return "true" if e.value else "false"
            if isinstance(e.value, int):
                return f"({e.value} : Int)"
            if isinstance(e.value, float) and e.value == int(e.value):
                return f"({int(e.value)} : Int)"
            if isinstance(e.value, float):
                # a float literal is only compared: it becomes a parameter holding its order key
                n = "key_" + repr(e.value).replace(".", "_").replace("-", "m")
                self.keyconsts[n] = e.value
                return n
            raise NotRecognised(f"constant {e.value!r}")
        if isinstance(e, ast.Name):
            if e.id in self.locals:
                return f"s.{self.id(e.id)}"
            if e.id in self.params:
                return self.id(e.id)
            raise NotRecognised(f"unknown name {e.id}")
        if isinstance(e, ast.List):
            return "[" + ", ".join(self.E(x, env) for x in e.elts) + "]"
        if isinstance(e, ast.Attribute) and is_np(e, "inf"):
            self.keyconsts["key_inf"] = float("inf")
            return "key_inf"
        if isinstance(e, ast.Attribute):
            ta = self.tree_attr(e)
            if ta is not None:
                return ta
            dotted = self.self_path(e)
            if dotted is not None and dotted in self.self_attrs:
                return self.self_attrs[dotted][0]
            if dotted is not None and dotted in self.self_state:
                return f"s.self{dotted}"
            if dotted is not None and dotted in self.self_arrays:
                return f"s.arr{dotted}"
            if dotted is not None and dotted in self.self_ints:
                return f"s.int{dotted.replace('.', '_')}"
            if e.attr == "size" and self.ty(e.value) == "Arr":
                return f"(Imp.leni {self.E(e.value, env)})"
            if e.attr in self.node_attrs and self._safe_ty(e.value) == "Int" and not isinstance(e.value, ast.Name):
                return f"({self.node_attrs[e.attr]} {self.E(e.value, env)})"
            if e.attr in self.node_attrs and isinstance(e.value, ast.Name) and e.value.id in self.cfg.get("node_names", []) and self.locals.get(e.value.id) == "Int":
                return f"({self.node_attrs[e.attr]} {self.E(e.value, env)})"
            raise NotRecognised(f"attribute {ast.unparse(e)}")
        if isinstance(e, ast.BinOp):
            if self.roll_stream and isinstance(e.op, ast.Mult) and (self.is_rr(e.left) or self.is_rr(e.right)):
                raise NotRecognised("roll expression outside an assignment")
            a, b = self.E(e.left, env), self.E(e.right, env)
            if isinstance(e.op, ast.Mult) and self.ty(e.left) == "Int" and self.ty(e.right) == "Arr":
                return f"(({b}).map fun v => {a} * v)"
            if isinstance(e.op, (ast.Add, ast.Sub)) and (self.ty(e.left) == "Arr" or self.ty(e.right) == "Arr"):
                if self.ty(e.left) != "Arr" or self.ty(e.right) != "Arr":
                    raise NotRecognised("array + scalar")
                return f"(Imp.{'vadd' if isinstance(e.op, ast.Add) else 'vsub'} {a} {b})"
            if isinstance(e.op, ast.Add):
                return f"({a} + {b})"
            if isinstance(e.op, ast.Sub):
                return f"({a} - {b})"
            if isinstance(e.op, ast.Mult):
                return f"({a} * {b})"
            if isinstance(e.op, ast.FloorDiv):
                if not (isinstance(e.right, ast.Constant) and isinstance(e.right.value, int) and e.right.value > 0):
                    raise NotRecognised("floor division by a non-literal")
                return f"({a} / {b})"      # Int `/` is floor division for a positive literal divisor
            raise NotRecognised(f"operator {type(e.op).__name__}")
        if isinstance(e, ast.UnaryOp):
            if isinstance(e.op, ast.USub):
                return f"(- {self.E(e.operand, env)})"
            if isinstance(e.op, ast.Not):
                return f"(! {self.B(e.operand, env)})"
            raise NotRecognised("unary operator")
        if isinstance(e, ast.Compare) and len(e.ops) == 1 and isinstance(e.ops[0], (ast.IsNot, ast.Is)) and isinstance(e.comparators[0], ast.Constant) \
                and e.comparators[0].value is None and (self.self_path(e.left) in self.not_none or (isinstance(e.left, ast.Name) and e.left.id in self.not_none)):
            v = self.not_none[e.left.id if isinstance(e.left, ast.Name) else self.self_path(e.left)]
            return v if isinstance(e.ops[0], ast.IsNot) else f"(! {v})"
        if self.is_mask_ge(e):
            return f"(Imp.{'maskGE' if isinstance(e.ops[0], ast.GtE) else 'maskGT'} {self.E(e.left, env)} {self.E(e.comparators[0], env)})"
        if self.is_mask_expr(e):
            return f"(({self.E(e.left, env)}).map fun v => if v > {self.E(e.comparators[0], env)} then (1 : Int) else 0)"
        if isinstance(e, ast.Compare) and len(e.ops) == 1 and isinstance(e.ops[0], ast.NotEq) and self.cfg.get("node_ne") and isinstance(e.left, ast.Name) \
                and isinstance(e.comparators[0], ast.Name) and e.left.id in self.cfg.get("node_names", []) and e.comparators[0].id in self.cfg.get("node_names", []):
            return f"({self.cfg['node_ne']} {self.E(e.left, env)} {self.E(e.comparators[0], env)})"
        if isinstance(e, ast.Compare):
            parts, left = [], e.left
            for op, right in zip(e.ops, e.comparators):
                sym = {ast.Lt: "<", ast.LtE: "≤", ast.Gt: ">", ast.GtE: "≥", ast.Eq: "=", ast.NotEq: "≠"}.get(type(op))
                if sym is None:
                    raise NotRecognised("comparison operator")
                if self.ty(left) != "Int" or self.ty(right) != "Int":
                    raise NotRecognised("comparison of non-integers")
                parts.append(f"decide ({self.E(left, env)} {sym} {self.E(right, env)})")
                left = right
            return "(" + " && ".join(parts) + ")"
        if isinstance(e, ast.BoolOp):
            sym = " && " if isinstance(e.op, ast.And) else " || "
            return "(" + sym.join(self.B(v, env) for v in e.values) + ")"
        if self.self_item(e) is not None:
            return self.self_item(e)
        if isinstance(e, ast.Subscript):
            if self.is_mask_get(e):
                return f"(Imp.maskGet {self.E(e.value, env)} {self.E(e.slice, env)})"
            if self.is_mask_index(e):
                return f"(Imp.whereNZ {self.E(e.slice, env)})"
            if is_np(e.value, "r_"):
                parts = e.slice.elts if isinstance(e.slice, ast.Tuple) else [e.slice]
                if any(self.ty(x) != "Arr" for x in parts):
                    raise NotRecognised("np.r_ of non-arrays")
                return "(" + " ++ ".join(self.E(x, env) for x in parts) + ")"
            if isinstance(e.slice, ast.Slice):
                sl = e.slice
                if sl.step is not None or self.ty(e.value) != "Arr":
                    raise NotRecognised(f"slice {ast.unparse(e)}")
                lo = self.E(sl.lower, env) if sl.lower is not None else "(0 : Int)"
                if self.is_minus_one(sl.upper):
                    return f"(Imp.slice {self.E(e.value, env)} {lo} (Imp.leni {self.E(e.value, env)} - 1))"
                if sl.upper is None:
                    return f"(Imp.dropFrom {self.E(e.value, env)} {lo})"
                return f"(Imp.slice {self.E(e.value, env)} {lo} {self.E(sl.upper, env)})"
            vt = self.ty(e.value)
            if isinstance(e.slice, ast.UnaryOp) and isinstance(e.slice.op, ast.USub) and isinstance(e.slice.operand, ast.Constant) and e.slice.operand.value == 1 and vt == "Arr":
                return f"(Imp.last {self.E(e.value, env)})"
            if vt in ("Mat", "Arr") and self._safe_ty(e.slice) == "Arr":
                return f"(Imp.{'gatherM' if vt == 'Mat' else 'gather'} {self.E(e.value, env)} {self.E(e.slice, env)})"
            if vt == "Mat":
                return f"(Imp.getrow {self.E(e.value, env)} {self.E(e.slice, env)})"
            if vt == "Arr":
                return f"(Imp.geti {self.E(e.value, env)} {self.E(e.slice, env)})"
            raise NotRecognised(f"subscript of a {vt}")
        if isinstance(e, ast.Call):
            f = e.func
            args = e.args
            nm = callname(f)
            if nm in self.ext:
                return self.ext[nm][0]
            if isinstance(f, ast.Name):
                if f.id == "isinstance" and len(args) == 2 and isinstance(args[1], ast.Name) and args[1].id in self.node_preds and self.ty(args[0]) == "Int":
                    return f"({self.node_preds[args[1].id]} {self.E(args[0], env)})"
                if f.id == "len" and len(args) == 1 and self.is_tree_value(args[0]):
                    return f"(Imp.leni {self.tree_pair(args[0], env)[0]})"
                if f.id == "len" and len(args) == 1:
                    t = self.ty(args[0])
                    if t == "Mat":
                        return f"(({self.E(args[0], env)}).length : Int)"
                    return f"(Imp.leni {self.E(args[0], env)})"
                if f.id == "max" and len(args) == 1 and self.ty(args[0]) == "Arr":
                    return f"(Imp.maxArr {self.E(args[0], env)})"
                if f.id in ("min", "max") and len(args) == 2:
                    return f"({f.id} {self.E(args[0], env)} {self.E(args[1], env)})"
                if f.id == "int" and len(args) == 1:
                    return self.E(args[0], env)
                if f.id == "bool" and len(args) == 1:
                    return self.B(args[0], env)
                if f.id == "sorted" and len(args) == 1:
                    return f"(Imp.sorted {self.E(args[0], env)})"
                if f.id == "range" and len(args) == 1:
                    return f"((List.range ({self.E(args[0], env)}).toNat).map Int.ofNat)"
                raise NotRecognised(f"call of {f.id}")
            if is_np(f, "int64", "float64") and len(args) == 1:
                return self.E(args[0], env)
            if is_np(f, "array") and len(args) == 1:
                return self.E(args[0], env)
            if is_np(f, "abs") and len(args) == 1 and self.ty(args[0]) == "Arr":
                return f"(({self.E(args[0], env)}).map fun v => if v < 0 then -v else v)"
            if is_np(f, "split") and len(args) == 2 and self.ty(args[0]) == "Arr" and self.ty(args[1]) == "Arr":
                return f"(Imp.npSplit {self.E(args[0], env)} {self.E(args[1], env)})"
            if is_np(f, "argmax") and len(args) == 1 and self.ty(args[0]) == "Arr" and not isinstance(args[0], ast.Subscript):
                return f"(Imp.argmax {self.E(args[0], env)})"
            if is_np(f, "argmax") and len(args) == 1 and isinstance(args[0], ast.Subscript) and self.ty(args[0].slice) == "Arr":
                return f"(Imp.argmax (Imp.gather {self.E(args[0].value, env)} {self.E(args[0].slice, env)}))"
            if isinstance(f, ast.Attribute) and f.attr == "copy" and not args:
                return self.E(f.value, env)
            if is_np(f, "empty", "zeros") and (len(args) >= 1 or any(k.arg == "shape" for k in e.keywords)):
                shp = args[0] if args else next(k.value for k in e.keywords if k.arg == "shape")
                return f"(List.replicate ({self.E(shp, env)}).toNat (0 : Int))"
            if is_np(f, "empty_like") and len(args) == 1:
                return f"(List.replicate ({self.E(args[0], env)}).length (0 : Int))"
            if is_np(f, "arange") and len(args) == 1:
                return f"((List.range ({self.E(args[0], env)}).toNat).map Int.ofNat)"
            raise NotRecognised(f"call {ast.unparse(e)}")
        raise NotRecognised(f"expression {ast.unparse(e)}")

    def B(self, e, env) -> str:
        return self.E(e, env) if self.ty(e) == "Bool" else f"(Imp.truthy {self.E(e, env)})"

    def shape(self, e, env):
        """`m.shape[k]` of a matrix parameter"""
        if isinstance(e, ast.Subscript) and isinstance(e.value, ast.Attribute) and e.value.attr == "shape" and isinstance(e.slice, ast.Constant):
            m = self.E(e.value.value, env)
            if self.ty(e.value.value) != "Mat":
                raise NotRecognised("shape of a non-matrix")
            return f"(({m}).length : Int)" if e.slice.value == 0 else f"(Imp.leni (Imp.getrow {m} (0 : Int)))"
        return None

    # ---- out-of-range condition of evaluating `e` (a Lean Bool expression over the state)
    def oob(self, e, env) -> str:
        if id(e) in env and not isinstance(e, ast.Call):
            return "false"
        if self.cfg.get("opaque_exprs") and not isinstance(e, (ast.Name, ast.Constant)) and ast.unparse(e) in self.cfg["opaque_exprs"]:
            return "false"
        if isinstance(e, ast.BoolOp):
            vals = e.values
            acc = self.oob(vals[-1], env)
            for v in reversed(vals[:-1]):
                cond = self.B(v, env)
                if acc != "false":
                    acc = bor(self.oob(v, env), f"({cond} && {acc})" if isinstance(e.op, ast.And) else f"(!{cond} && {acc})")
                else:
                    acc = self.oob(v, env)
            return acc
        if isinstance(e, ast.Call) and isinstance(e.func, ast.Name) and e.func.id == "isinstance" and len(e.args) == 2:
            return self.oob(e.args[0], env)
        if self.self_item(e) is not None:
            return "false"
        if self.tree2(e) is not None:
            return "false"          # a component of a parameter declared as a list of that many trees
        if isinstance(e, ast.Subscript) and is_np(e.value, "r_"):
            parts = e.slice.elts if isinstance(e.slice, ast.Tuple) else [e.slice]
            return bor(*[self.oob(x, env) for x in parts])
        if self.is_mask_get(e):
            return bor(self.oob(e.value, env), f"decide (Imp.leni {self.E(e.value, env)} ≠ Imp.leni {self.E(e.slice, env)})")
        if self.is_mask_index(e):
            return f"decide (({self.E(e.value.args[0], env)}) ≠ Imp.leni {self.E(e.slice, env)})"
        if self.is_mask_ge(e):
            return bor(self.oob(e.left, env), self.oob(e.comparators[0], env), f"decide (Imp.leni {self.E(e.left, env)} ≠ Imp.leni {self.E(e.comparators[0], env)})")
        if self.is_mask_expr(e):
            return bor(self.oob(e.left, env), self.oob(e.comparators[0], env))
        if isinstance(e, ast.Subscript) and isinstance(e.slice, ast.Slice):
            sl = e.slice
            parts = [self.oob(e.value, env)]
            for b in (sl.lower, sl.upper):
                if b is not None and not self.is_minus_one(b):
                    parts += [self.oob(b, env), f"decide ({self.E(b, env)} < 0)"]
            return bor(*parts)
        if isinstance(e, ast.Call) and id(e) not in env and is_np(e.func, "argmax") and len(e.args) == 1 and not isinstance(e.args[0], ast.Subscript) \
                and self.ty(e.args[0]) == "Arr":
            return bor(self.oob(e.args[0], env), f"({self.E(e.args[0], env)}).isEmpty")
        if isinstance(e, ast.Call) and id(e) not in env and is_np(e.func, "argmax") and len(e.args) == 1 and isinstance(e.args[0], ast.Subscript) \
                and not isinstance(e.args[0].slice, ast.Slice) and self.ty(e.args[0].slice) == "Arr":
            a, ix = self.E(e.args[0].value, env), self.E(e.args[0].slice, env)
            return bor(self.oob(e.args[0].value, env), self.oob(e.args[0].slice, env), f"(! Imp.allInb {a} {ix})", f"({ix}).isEmpty")
        if isinstance(e, ast.Subscript) and not isinstance(e.slice, ast.Slice):
            sh = None
            if isinstance(e.value, ast.Attribute) and e.value.attr == "shape":
                return "false"
            vt = self.ty(e.value)
            a = self.E(e.value, env)
            inner = bor(self.oob(e.value, env), self.oob(e.slice, env))
            if isinstance(e.slice, ast.UnaryOp) and isinstance(e.slice.op, ast.USub):
                return bor(inner, f"({a}).isEmpty")
            i = self.E(e.slice, env)
            if self._safe_ty(e.slice) == "Arr" and vt in ("Mat", "Arr"):
                return bor(inner, f"(! Imp.allInbM {a} {i})" if vt == "Mat" else f"(! Imp.allInb {a} {i})")
            return bor(inner, f"(! Imp.inbM {a} {i})" if vt == "Mat" else f"(! Imp.inb {a} {i})")
        if isinstance(e, ast.Call) and id(e) in env:
            # a hoisted call: its arguments were evaluated before; their reads are checked where the call was hoisted
            return "false"
        if isinstance(e, ast.Call) and isinstance(e.func, ast.Name) and e.func.id == "max" and len(e.args) == 1 and self._safe_ty(e.args[0]) == "Arr":
            return bor(self.oob(e.args[0], env), f"({self.E(e.args[0], env)}).isEmpty")
        if isinstance(e, ast.BinOp) and isinstance(e.op, (ast.Add, ast.Sub)) and self._safe_ty(e) == "Arr":
            # elementwise operation: operands of different lengths are a shape error
            return bor(self.oob(e.left, env), self.oob(e.right, env), f"decide (Imp.leni {self.E(e.left, env)} ≠ Imp.leni {self.E(e.right, env)})")
        return bor(*[self.oob(c, env) for c in ast.iter_child_nodes(e) if isinstance(c, ast.expr)])

    def Ex(self, e, env):
        sh = self.shape(e, env)
        return sh if sh is not None else self.E(e, env)

    # ---- statements: each returns a list of Lean expressions in the state variable `s`
    def rng(self, it, env):
        """(lo, hi) of a `range` / `np.arange` iteration"""
        if isinstance(it, ast.Call):
            nm = callname(it.func)
            if nm in ("range", "np.arange"):
                a = it.args
                if len(a) == 1:
                    return "(0 : Int)", self.Ex(a[0], env)
                if len(a) == 2:
                    return self.Ex(a[0], env), self.Ex(a[1], env)
                if len(a) == 3 and isinstance(a[2], ast.UnaryOp) and isinstance(a[2].op, ast.USub) and isinstance(a[2].operand, ast.Constant) and a[2].operand.value == 1:
                    return ("down", self.Ex(a[0], env), self.Ex(a[1], env))
        raise NotRecognised(f"iteration over {ast.unparse(it)}")

    def pre(self, exprs, lines):
        """hoist effects of the expressions (in order) and record their out-of-range condition"""
        env = {}
        for e in exprs:
            self.hoist(e, lines, env)
        cond = bor(*[self.oob(e, env) for e in exprs])
        if cond != "false":
            lines.append(f"{{ s with err := s.err || {cond} }}")
        return env

    def stmt(self, st, ind) -> list:
        pad = "  " * ind
        L: list = []
        if isinstance(st, ast.Expr) and isinstance(st.value, ast.Constant):
            return []
        if isinstance(st, ast.Assert):
            return []          # an assertion states a precondition; it is a hypothesis of the theorems, not behaviour
        if isinstance(st, ast.If) and ast.unparse(st.test) in self.cfg.get("skip_ifs", []):
            return []          # a branch that the declared parameter kinds exclude (documented per kernel)
        if isinstance(st, ast.Expr) and isinstance(st.value, ast.Call) and isinstance(st.value.func, ast.Attribute) \
                and self.self_path(st.value.func) in self.method_uses:
            # self.method(k=v, ...): the translated callee runs on the current self attributes
            c = st.value
            callee = self.method_uses[self.self_path(c.func)]
            cc = KERNEL_BY_NAME[callee]
            if c.args or sorted(k.arg for k in c.keywords) != sorted(n for n, _ in cc["params"]) or cc.get("self_state") != self.self_state:
                raise NotRecognised(f"method call {ast.unparse(c)}")
            kw = {k.arg: k.value for k in c.keywords}
            env = self.pre([kw[n] for n, _ in cc["params"]], L)
            args = " ".join(self.E(kw[n], env) for n, _ in cc["params"])
            selfl = "[" + ", ".join(f"s.self{a}" for a in self.self_state) + "]"
            upd = ", ".join(f"self{a} := Imp.geti v ({k} : Int)" for k, a in enumerate(self.self_state))
            L.append(f"(match {callee} {selfl} {args} with | some v => {{ s with {upd} }} | none => {{ s with err := true }})")
            return L
        if isinstance(st, ast.Expr) and isinstance(st.value, ast.Call) and self.self_call_name(st.value) in self.cfg.get("effects", {}) and not st.value.args and not st.value.keywords:
            # a method call whose effect on the listed attributes is a function parameter of the listed arrays (and the call's ordinal)
            par, reads, writes = self.cfg["effects"][self.self_call_name(st.value)]
            t = self.tmp("Arr")
            L.append(f"{{ s with {t} := {par} " + " ".join(f"s.arr{r}" for r in reads) + " s.kx, kx := s.kx + 1 }")
            L.append(f"{{ s with err := s.err || decide ((s.{t}).length ≠ {len(writes)}), " +
                     ", ".join(f"int{w.replace('.', '_')} := Imp.geti s.{t} ({k} : Int)" for k, w in enumerate(writes)) + " }")
            return L
        if isinstance(st, ast.Expr) and isinstance(st.value, ast.Call) and ast.unparse(st.value) in self.cfg.get("effects_arr", {}):
            # a call whose effect on the listed arrays is a function parameter of the listed arrays (rows of its result, in order)
            par, reads, writes = self.cfg["effects_arr"][ast.unparse(st.value)]
            t = self.tmp("Mat")
            L.append(f"{{ s with {t} := {par} " + " ".join(f"s.arr{r}" for r in reads) + " s.kx, kx := s.kx + 1 }")
            L.append(f"{{ s with err := s.err || decide ((s.{t}).length ≠ {len(writes)}), " +
                     ", ".join(f"arr{w} := Imp.getrow s.{t} ({k} : Int)" for k, w in enumerate(writes)) + " }")
            return L
        if isinstance(st, ast.Assign) and len(st.targets) == 1 and isinstance(st.targets[0], ast.Tuple) and self.cfg.get("record_get") \
                and ast.unparse(st.value) == self.cfg["record_get"][0]:
            # (X[-1], Y[-1], Z[-1]) = self._thefittest.get().values(): the translated get() on the current record, its values in order
            _, callee, attrs = self.cfg["record_get"]
            tg = st.targets[0]
            ok = all(isinstance(el, ast.Subscript) and self.self_path(el.value) in self.self_arrays and isinstance(el.slice, ast.UnaryOp)
                     and isinstance(el.slice.op, ast.USub) and isinstance(el.slice.operand, ast.Constant) and el.slice.operand.value == 1 for el in tg.elts)
            if not ok:
                raise NotRecognised(f"targets of {ast.unparse(st)}")
            t = self.tmp("Arr")
            selfl = "[" + ", ".join(f"s.int{a_.replace('.', '_')}" for a_ in attrs) + "]"
            L.append(f"(match {callee} {selfl} with | some v => {{ s with {t} := v }} | none => {{ s with err := true }})")
            L.append(f"{{ s with err := s.err || decide ((s.{t}).length ≠ {len(tg.elts)}) || " + " || ".join(f"s.arr{self.self_path(el.value)}.isEmpty" for el in tg.elts) + " }")
            L.append("{ s with " + ", ".join(f"arr{self.self_path(el.value)} := Imp.setlast s.arr{self.self_path(el.value)} (Imp.geti s.{t} ({k} : Int))" for k, el in enumerate(tg.elts)) + " }")
            return L
        if isinstance(st, ast.Expr) and isinstance(st.value, ast.Call) and self.self_call_name(st.value) in self.actions:
            # an action of the run skeleton: its arguments are evaluated (range checks), its effect is the log entry
            env = self.pre([a for a in st.value.args if not (isinstance(a, ast.Name) and a.id == "self")], L)
            L.append(f"{{ s with log := s.log ++ [({self.actions[self.self_call_name(st.value)]} : Int)] }}")
            return L
        if isinstance(st, ast.Expr) and isinstance(st.value, ast.Call) and isinstance(st.value.func, ast.Attribute) and st.value.func.attr == "append" \
                and self.self_path(st.value.func.value) in self.self_append and len(st.value.args) == 1:
            fld = "app" + self.self_path(st.value.func.value)
            env = self.pre([st.value.args[0]], L)
            L.append(f"{{ s with {fld} := s.{fld} ++ [{self.E(st.value.args[0], env)}] }}")
            return L
        if isinstance(st, ast.Expr) and isinstance(st.value, ast.Call):
            c = st.value
            if isinstance(c.func, ast.Attribute) and isinstance(c.func.value, ast.Name) and c.func.value.id in self.locals and self.locals[c.func.value.id] == "Arr":
                a = self.id(c.func.value.id)
                if c.func.attr == "append" and len(c.args) == 1:
                    env = self.pre([c.args[0]], L)
                    L.append(f"{{ s with {a} := s.{a} ++ [{self.E(c.args[0], env)}] }}")
                    return L
                if c.func.attr == "pop" and not c.args:
                    L.append(f"{{ s with err := s.err || s.{a}.isEmpty, {a} := s.{a}.dropLast }}")
                    return L
                if c.func.attr == "extend" and len(c.args) == 1 and self.ty(c.args[0]) == "Arr":
                    env = self.pre([c.args[0]], L)
                    L.append(f"{{ s with {a} := s.{a} ++ {self.E(c.args[0], env)} }}")
                    return L
            raise NotRecognised(f"expression statement {ast.unparse(st)}")
        if isinstance(st, ast.AnnAssign) and st.value is None:
            return []
        if isinstance(st, ast.AnnAssign) and isinstance(st.target, ast.Name) and st.value is not None:
            env = self.pre([st.value], L)
            L.append(f"{{ s with {self.id(st.target.id)} := {self.Ex(st.value, env)} }}")
            return L
        if isinstance(st, ast.Assign) and len(st.targets) == 1 and isinstance(st.targets[0], ast.Name) and st.targets[0].id in self.cfg.get("opaque_assign", []):
            if self.cfg.get("opaque_lookups") is not None and ast.unparse(st.value) not in self.cfg["opaque_lookups"]:
                raise NotRecognised(f"lookup {ast.unparse(st.value)} is not one of the declared ones")
            return []
        if self.is_opaque_unpack(st):
            vs = [el.id for el in st.targets[0].elts if self.opaque_unpack[el.id] is not None]
            return ["{ s with " + ", ".join(f"{self.id(v)} := {v}_p" for v in vs) + " }"] if vs else []
        if isinstance(st, ast.Assign):
            if len(st.targets) != 1:
                raise NotRecognised("chained assignment")
            t = st.targets[0]
            if self.roll_stream and isinstance(st.value, ast.BinOp) and isinstance(st.value.op, ast.Mult) and (self.is_rr(st.value.left) or self.is_rr(st.value.right)) and isinstance(t, ast.Name):
                # roll = sumweights * random.random(): the next element of the stream of rolls
                tt = self.id(t.id)
                L.append(f"{{ s with {tt} := Imp.geti rolls s.kr, dry := s.dry || decide (rolls.length ≤ s.kr), kr := s.kr + 1 }}")
                return L
            if isinstance(t, ast.Name) and self.locals.get(t.id) == "Tree":
                env = self.pre(list(st.value.args) if isinstance(st.value, ast.Call) and isinstance(st.value.func, ast.Name) else [], L)
                a, b = self.tree_value(st.value, L, env)
                n = self.id(t.id)
                L.append(f"{{ s with {n}__nodes := {a}, {n}__nargs := {b} }}")
                return L
            if isinstance(t, ast.Tuple) and all(isinstance(el, ast.Name) for el in t.elts) and isinstance(st.value, ast.Call) \
                    and isinstance(st.value.func, ast.Attribute) and isinstance(st.value.func.value, ast.Name) and st.value.func.value.id == "self" \
                    and st.value.func.attr in self.tree_methods:
                callee = self.tree_methods[st.value.func.attr]
                env = self.pre(list(st.value.args), L)
                tmpn = self.tmp("Arr")
                args = " ".join(self.E(a_, env) for a_ in st.value.args)
                L.append(f"(match {callee} self_nodes self_nargs {args} with | some v => {{ s with {tmpn} := v }} | none => {{ s with err := true }})")
                L.append(f"{{ s with err := s.err || decide ((s.{tmpn}).length ≠ {len(t.elts)}) }}")
                L.append("{ s with " + ", ".join(f"{self.id(el.id)} := Imp.geti s.{tmpn} ({k} : Int)" for k, el in enumerate(t.elts)) + " }")
                return L
            if isinstance(t, ast.Tuple) and len(t.elts) == 2 and all(isinstance(el, ast.Name) for el in t.elts) and self.is_tree_call(st.value, "get_common_region"):
                # common, border = X.get_common_region([Y]): the callee returns the four index arrays [c1, c2, b1, b2]
                c = st.value
                if len(c.args) != 1 or not isinstance(c.args[0], ast.List) or len(c.args[0].elts) != 1 or not self.is_tree_value(c.args[0].elts[0]):
                    raise NotRecognised(f"argument of {ast.unparse(c)}")
                xn, xa = self.tree_pair(c.func.value, {})
                yn, ya = self.tree_pair(c.args[0].elts[0], {})
                tm = self.tmp("Mat")
                L.append(f"(match {self.tree_calls['get_common_region']} {xn} {xa} {yn} {ya} with | some v => {{ s with {tm} := v, err := s.err || decide (v.length ≠ 4) }} | none => {{ s with err := true }})")
                L.append(f"{{ s with {self.id(t.elts[0].id)} := s.{tm}.take 2, {self.id(t.elts[1].id)} := s.{tm}.drop 2 }}")
                return L
            if isinstance(t, ast.Tuple) and all(isinstance(el, ast.Name) for el in t.elts) and isinstance(st.value, ast.Call) and self._safe_ty(st.value) == "Arr":
                # a, b, ... = <array>: the array must have exactly that many elements
                env = self.pre([st.value], L)
                v = self.E(st.value, env)
                L.append(f"{{ s with err := s.err || decide (({v}).length ≠ {len(t.elts)}) }}")
                L.append("{ s with " + ", ".join(f"{self.id(el.id)} := Imp.geti {v} ({k} : Int)" for k, el in enumerate(t.elts)) + " }")
                return L
            if isinstance(t, ast.Name):
                env = self.pre([st.value], L)
                L.append(f"{{ s with {self.id(t.id)} := {self.Ex(st.value, env)} }}")
                return L
            if isinstance(t, ast.Attribute) and self.tree_attr(t) is not None and self.tree_attr(t).startswith("s."):
                env = self.pre([st.value], L)
                L.append(f"{{ s with {self.tree_attr(t)[2:]} := {self.E(st.value, env)} }}")
                return L
            if isinstance(t, ast.Subscript) and isinstance(t.slice, ast.Slice) and t.slice.step is None and t.slice.lower is not None and t.slice.upper is not None \
                    and self.tree_attr(t.value) is not None and self.tree_attr(t.value).startswith("s."):
                # X._nodes[l:r] = E : the segment is replaced (Python allows l > r and bounds past the end; both are flagged)
                fld = self.tree_attr(t.value)[2:]
                env = self.pre([st.value, t.slice.lower, t.slice.upper], L)
                lo, hi = self.E(t.slice.lower, env), self.E(t.slice.upper, env)
                L.append(f"{{ s with err := s.err || decide ({lo} < 0) || decide ({hi} < {lo}) || decide ((Imp.leni s.{fld}) < {hi}), "
                         f"{fld} := (s.{fld}.take ({lo}).toNat) ++ {self.E(st.value, env)} ++ (s.{fld}.drop ({hi}).toNat) }}")
                return L
            if isinstance(t, ast.Subscript) and not isinstance(t.slice, ast.Slice) and self.tree_attr(t.value) is not None and self.tree_attr(t.value).startswith("s."):
                fld = self.tree_attr(t.value)[2:]
                env = self.pre([st.value, t.slice], L)
                i = self.E(t.slice, env)
                L.append(f"{{ s with err := s.err || (! Imp.inb s.{fld} {i}), {fld} := Imp.seti s.{fld} {i} {self.E(st.value, env)} }}")
                return L
            if isinstance(t, ast.Subscript) and self.self_path(t.value) in self.self_arrays and isinstance(t.slice, ast.Name) and self._safe_ty(t.slice) == "Arr" \
                    and isinstance(st.value, ast.Subscript) and isinstance(st.value.slice, ast.Name) and st.value.slice.id == t.slice.id and self._safe_ty(st.value.value) == "Arr":
                # X[mask] = Y[mask] : the entries at which the mask is set are taken from Y (all three arrays of one length)
                fld = "arr" + self.self_path(t.value)
                m, y = self.E(t.slice, {}), self.E(st.value.value, {})
                L.append(f"{{ s with err := s.err || decide (Imp.leni s.{fld} ≠ Imp.leni {m}) || decide (Imp.leni {y} ≠ Imp.leni {m}), {fld} := Imp.maskSet s.{fld} {m} {y} }}")
                return L
            if isinstance(t, ast.Attribute) and self.self_path(t) in self.self_arrays:
                env = self.pre([st.value], L)
                L.append(f"{{ s with arr{self.self_path(t)} := {self.E(st.value, env)} }}")
                return L
            if isinstance(t, ast.Attribute) and self.self_path(t) in self.self_ints:
                env = self.pre([st.value], L)
                L.append(f"{{ s with int{self.self_path(t).replace('.', '_')} := {self.E(st.value, env)} }}")
                return L
            if isinstance(t, ast.Subscript) and self.self_path(t.value) in self.self_arrays and not isinstance(t.slice, ast.Slice) and self._safe_ty(t.slice) == "Int":
                fld = "arr" + self.self_path(t.value)
                env = self.pre([st.value, t.slice], L)
                i = self.E(t.slice, env)
                L.append(f"{{ s with err := s.err || (! Imp.inb s.{fld} {i}), {fld} := Imp.seti s.{fld} {i} {self.E(st.value, env)} }}")
                return L
            if isinstance(t, ast.Attribute) and self.self_path(t) in self.self_state:
                env = self.pre([st.value], L)
                L.append(f"{{ s with self{self.self_path(t)} := {self.Ex(st.value, env)} }}")
                return L
            if isinstance(t, ast.Subscript) and isinstance(t.value, ast.Name) and t.value.id in self.locals and self.locals[t.value.id] == "Arr":
                a = self.id(t.value.id)
                env = self.pre([st.value, t.slice], L)
                if isinstance(t.slice, ast.UnaryOp) and isinstance(t.slice.op, ast.USub) and isinstance(t.slice.operand, ast.Constant) and t.slice.operand.value == 1:
                    L.append(f"{{ s with err := s.err || s.{a}.isEmpty, {a} := Imp.setlast s.{a} {self.E(st.value, env)} }}")
                else:
                    i = self.E(t.slice, env)
                    L.append(f"{{ s with err := s.err || (! Imp.inb s.{a} {i}), {a} := Imp.seti s.{a} {i} {self.E(st.value, env)} }}")
                return L
            if isinstance(t, ast.Tuple) and isinstance(st.value, ast.Tuple) and len(t.elts) == len(st.value.elts):
                # evaluate the whole right-hand side first, then assign left to right
                env = self.pre(list(st.value.elts) + [el.slice for el in t.elts if isinstance(el, ast.Subscript)], L)
                lets = [f"let v{k} := {self.E(v, env)}" for k, v in enumerate(st.value.elts)]
                cur, errs = "s", []
                for k, el in enumerate(t.elts):
                    if isinstance(el, ast.Subscript) and isinstance(el.value, ast.Name) and el.value.id in self.locals:
                        a = self.id(el.value.id)
                        idx = self.E(el.slice, env).replace("s.", "s0.")
                        errs.append(f"(! Imp.inb s0.{a} {idx})")
                        cur = f"{{ {cur} with {a} := Imp.seti ({cur}).{a} {idx} v{k} }}"
                    elif isinstance(el, ast.Name):
                        cur = f"{{ {cur} with {self.id(el.id)} := v{k} }}"
                    else:
                        raise NotRecognised("tuple target")
                if errs:
                    L.append("(let s0 := s; { s with err := s.err || " + " || ".join(errs) + " })")
                L.append("(let s0 := s; " + "; ".join(lets) + "; " + cur + ")")
                return L
            raise NotRecognised(f"assignment target {ast.unparse(t)}")
        if isinstance(st, ast.AugAssign) and isinstance(st.target, ast.Subscript) and isinstance(st.target.value, ast.Name) \
                and self.locals.get(st.target.value.id) == "Arr" and not isinstance(st.target.slice, ast.Slice):
            op = {ast.Add: "+", ast.Sub: "-", ast.Mult: "*"}.get(type(st.op))
            if op is None:
                raise NotRecognised("augmented operator")
            a = self.id(st.target.value.id)
            env = self.pre([st.value, st.target.slice], L)
            i = self.E(st.target.slice, env)
            L.append(f"{{ s with err := s.err || (! Imp.inb s.{a} {i}), {a} := Imp.seti s.{a} {i} ((Imp.geti s.{a} {i}) {op} {self.E(st.value, env)}) }}")
            return L
        if isinstance(st, ast.AugAssign) and isinstance(st.target, ast.Attribute) and self.self_path(st.target) in self.self_ints:
            op = {ast.Add: "+", ast.Sub: "-", ast.Mult: "*"}.get(type(st.op))
            if op is None:
                raise NotRecognised("augmented operator")
            n = "int" + self.self_path(st.target).replace(".", "_")
            env = self.pre([st.value], L)
            L.append(f"{{ s with {n} := s.{n} {op} {self.E(st.value, env)} }}")
            return L
        if isinstance(st, ast.AugAssign) and (isinstance(st.target, ast.Name) or (isinstance(st.target, ast.Attribute) and self.self_path(st.target) in self.self_state)):
            op = {ast.Add: "+", ast.Sub: "-", ast.Mult: "*"}.get(type(st.op))
            if op is None:
                raise NotRecognised("augmented operator")
            n = self.id(st.target.id) if isinstance(st.target, ast.Name) else "self" + self.self_path(st.target)
            env = self.pre([st.value], L)
            L.append(f"{{ s with {n} := s.{n} {op} {self.E(st.value, env)} }}")
            return L
        if isinstance(st, ast.If) and ast.unparse(st.test) in self.opaque_if:
            var, par = self.opaque_if[ast.unparse(st.test)][:2]
            # both branches must do nothing but compute `var` (by means outside the subset)
            assigned = {t.id for b in (st.body, st.orelse) for x in b for n_ in ast.walk(x) if isinstance(n_, ast.Assign) for t in n_.targets if isinstance(t, ast.Name)}
            if var not in assigned or any(isinstance(n_, (ast.AugAssign, ast.Return, ast.Raise)) or (isinstance(n_, ast.Assign) and any(isinstance(t, ast.Attribute) for t in n_.targets))
                                          for b in (st.body, st.orelse) for x in b for n_ in ast.walk(x)):
                raise NotRecognised("the opaque branches do more than compute " + var)
            L.append(f"{{ s with {self.id(var)} := {par} }}")
            return L
        if isinstance(st, ast.If) and self.static_true(st.test):
            for x in st.body:
                L += self.stmt(x, ind)
            return L
        if isinstance(st, ast.If):
            env = self.pre([st.test], L)
            L.append(f"(if {self.B(st.test, env)} then\n{self.block(st.body, ind + 1)}\n{pad}else\n{self.block(st.orelse, ind + 1)})")
            return L
        if isinstance(st, ast.While):
            if self.cfg.get("fuel") is None:
                raise NotRecognised("while loop without a fuel expression in the kernel table")
            tmp = []
            env = {}
            self.hoist(st.test, tmp, env)
            if tmp:
                raise NotRecognised("effectful while condition")
            ob = self.oob(st.test, env)
            head = f"{pad}  let s := {{ s with cnt := false" + (f", err := s.err || {ob}" if ob != "false" else "") + " }\n"
            L.append(f"(Imp.whileN fuel (fun s => (! s.brk) && {self.B(st.test, env)}) (fun s =>\n{head}{self.block(st.body, ind + 1)}) s)")
            L.append("{ s with brk := false, cnt := false" + (f", err := s.err || {ob}" if ob != "false" else "") + " }")
            return L
        if isinstance(st, ast.For) and self.sorted_zip(st) is not None:
            X, Y = self.sorted_zip(st)
            if self.ty(X) != "Arr" or self.ty(Y) != "Arr":
                raise NotRecognised("zip of non-arrays")
            env = self.pre([X, Y], L)
            ta, tb = self.tmp("Arr"), self.tmp("Arr")
            L.append(f"{{ s with {ta} := Imp.sortDescSndA {self.E(X, env)} {self.E(Y, env)}, {tb} := Imp.sortDescSndB {self.E(X, env)} {self.E(Y, env)} }}")
            a, b = (self.id(el.id) for el in st.target.elts)
            body = self.block(st.body, ind + 1)
            L.append(f"(Imp.forRange (0 : Int) (Imp.leni s.{ta}) (fun s => s.brk) (fun i s =>\n{pad}  let s := {{ s with {a} := Imp.geti s.{ta} i, {b} := Imp.geti s.{tb} i }}\n{body}) s)")
            L.append("{ s with brk := false }")
            return L
        if isinstance(st, ast.If) and ast.unparse(st.test) in self.cfg.get("skip_ifs", []):
            return []
        if isinstance(st, ast.For) and self.zip_tree_nodes(st) is not None:
            a, b = self.zip_tree_nodes(st)
            va, vb = (self.id(el.id) for el in st.target.elts)
            body = self.block(st.body, ind + 1)
            L.append(f"(Imp.forRange (0 : Int) (min (Imp.leni {a}) (Imp.leni {b})) (fun s => s.brk) (fun i s =>\n{pad}  let s := {{ s with {va} := Imp.geti {a} i, {vb} := Imp.geti {b} i }}\n{body}) s)")
            L.append("{ s with brk := false }")
            return L
        if isinstance(st, ast.For) and self.enum_self_nodes(st) is not None:
            a = self.enum_self_nodes(st)
            vi, vx = (self.id(el.id) for el in st.target.elts)
            body = self.block(st.body, ind + 1)
            L.append(f"(Imp.forRange (0 : Int) (Imp.leni {a}) (fun s => s.brk) (fun i s =>\n{pad}  let s := {{ s with {vi} := i, {vx} := Imp.geti {a} i }}\n{body}) s)")
            L.append("{ s with brk := false }")
            return L
        if isinstance(st, ast.For):
            v = self.id(st.target.id)
            body = self.block(st.body, ind + 1)
            it = st.iter
            if isinstance(it, ast.Subscript) and isinstance(it.slice, ast.Slice) and it.slice.upper is None and it.slice.step is None and self.ty(it.value) == "Arr":
                # for x in a[lo:]  (only over a parameter: the body cannot change what is iterated)
                if not (isinstance(it.value, ast.Name) and it.value.id in self.params):
                    raise NotRecognised("iteration over a slice of a local array")
                env = self.pre([it.slice.lower] if it.slice.lower is not None else [], L)
                a = self.E(it.value, env)
                lo = self.E(it.slice.lower, env) if it.slice.lower is not None else "(0 : Int)"
                L.append(f"{{ s with err := s.err || decide ({lo} < 0) }}")
                L.append(f"(Imp.forRange {lo} (Imp.leni {a}) (fun s => s.brk) (fun i s =>\n{pad}  let s := {{ s with {v} := Imp.geti {a} i }}\n{body}) s)")
                L.append("{ s with brk := false }")
                return L
            if isinstance(it, ast.Call) and isinstance(it.func, ast.Name) and it.func.id == "reversed" and len(it.args) == 1 and not it.keywords \
                    and self.tree_attr(it.args[0]) is not None and self.tree_attr(it.args[0]).startswith("self_"):
                # for x in reversed(self._nodes): the body cannot change what is iterated (a Tree's arrays are not assigned in a translated method)
                a = self.tree_attr(it.args[0])
                L.append(f"(Imp.forRange (0 : Int) (Imp.leni {a}) (fun s => s.brk) (fun i s =>\n{pad}  let s := {{ s with {v} := Imp.geti {a} (Imp.leni {a} - 1 - i) }}\n{body}) s)")
                L.append("{ s with brk := false }")
                return L
            r = self.rng(it, {})
            if r[0] == "down":
                env = self.pre(list(it.args[:2]), L)
                _, hi, lo = self.rng(it, env)
                # range(hi, lo, -1): hi, hi-1, ..., lo+1
                L.append(f"(let hi0 := {hi}; Imp.forRange (0 : Int) (hi0 - {lo}) (fun s => s.brk) (fun i s =>\n{pad}  let s := {{ s with {v} := hi0 - i }}\n{body}) s)")
            else:
                env = self.pre(list(it.args), L)
                lo, hi = self.rng(it, env)
                L.append(f"(Imp.forRange {lo} {hi} (fun s => s.brk) (fun i s =>\n{pad}  let s := {{ s with {v} := i }}\n{body}) s)")
            L.append("{ s with brk := false }")
            return L
        if isinstance(st, ast.Break):
            return ["{ s with brk := true }"]
        if isinstance(st, ast.Continue):
            return ["{ s with cnt := true }"]
        if isinstance(st, ast.Pass):
            return []
        raise NotRecognised(f"statement {type(st).__name__}")

    @staticmethod
    def may_exit(st) -> bool:
        """does the statement contain a break / continue of the enclosing loop?"""
        if isinstance(st, (ast.Break, ast.Continue)):
            return True
        if isinstance(st, ast.If):
            return any(Tr.may_exit(x) for x in st.body + st.orelse)
        return False

    def block(self, stmts, ind) -> str:
        pad = "  " * ind
        lines = []
        for k, st in enumerate(stmts):
            for ln in self.stmt(st, ind):
                lines.append(f"{pad}let s := {ln}")
            rest = stmts[k + 1:]
            if self.may_exit(st) and rest:
                lines.append(f"{pad}let s := (if s.brk || s.cnt then s else\n{self.block(rest, ind + 1)})")
                break
        lines.append(f"{pad}s")
        return "\n".join(lines)

    def ret(self, stmts, ind) -> str:
        """function tail: statements ending in return / raise / an if-chain of such"""
        pad = "  " * ind
        if self.cfg["ret"] == "Self":
            # a method that updates self and returns nothing: the result is the list of self attributes
            if any(isinstance(n, ast.Return) for st in stmts for n in ast.walk(st)):
                raise NotRecognised("return inside a self-updating method")
            body = self.block(stmts, ind)
            selfl = "[" + ", ".join(f"s.self{a}" for a in self.self_state) + "]"
            return f"{pad}let s := (\n{body})\n{pad}if s.err || s.dry then none else some ({selfl})"
        if not stmts:
            raise NotRecognised("function may fall off its end")
        *pre, last = stmts
        lines = []
        for st in pre:
            if self.may_exit(st):
                raise NotRecognised("break / continue outside a loop")
            for ln in self.stmt(st, ind):
                lines.append(f"{pad}let s := {ln}")
        if isinstance(last, ast.Return) and self.cfg["ret"] == "Mat" and isinstance(last.value, (ast.Tuple, ast.List)):
            flatn, leaves = [], []

            def walk(v):
                if isinstance(v, (ast.Tuple, ast.List)) and not (isinstance(v, ast.List) and all(self.ty(x) == "Int" for x in v.elts) and v.elts):
                    for x in v.elts:
                        walk(x)
                elif self.ty(v) == "Arr":
                    flatn.append(self.E(v, {}))
                    leaves.append(v)
                else:
                    raise NotRecognised("returned structure")
            walk(last.value)
            cond = bor(*[self.oob(v, {}) for v in leaves])
            if cond != "false":
                lines.append(f"{pad}let s := {{ s with err := s.err || {cond} }}")
            lines.append(f"{pad}if s.err || s.dry then none else some ([" + ", ".join(flatn) + "])")
        elif isinstance(last, ast.Return) and self.cfg["ret"] == "ArrSelf":
            L = []
            env = self.pre([last.value], L)
            for ln in L:
                lines.append(f"{pad}let s := {ln}")
            selfl = "[" + ", ".join(f"s.self{a}" for a in self.self_state) + "]"
            lines.append(f"{pad}if s.err || s.dry then none else some ([{self.E(last.value, env)}, {selfl}])")
        elif isinstance(last, ast.Return) and self.self_append:
            L = []
            env = self.pre([last.value], L)
            for ln in L:
                lines.append(f"{pad}let s := {ln}")
            val = self.E(last.value, env)
            if self.cfg.get("append_row_of_int"):
                val = f"[{val}]"
            lines.append(f"{pad}if s.err || s.dry then none else some ([{val}, " + ", ".join(f"s.app{a_}" for a_ in self.self_append) + "])")
        elif isinstance(last, ast.Return) and self.cfg.get("returns_log"):
            lines.append(f"{pad}if s.err || s.dry then none else some (s.log)")
        elif isinstance(last, ast.Return) and self.cfg["ret"] == "Tree":
            a, b = self.tree_pair(last.value, {})
            lines.append(f"{pad}if s.err || s.dry then none else some ([{a}, {b}])")
        elif isinstance(last, ast.Return) and self.cfg["ret"] == "Arr" and isinstance(last.value, ast.Tuple) and all(self.ty(x) == "Int" for x in last.value.elts):
            L = []
            env = self.pre(list(last.value.elts), L)
            for ln in L:
                lines.append(f"{pad}let s := {ln}")
            lines.append(f"{pad}if s.err || s.dry then none else some ([" + ", ".join(self.E(x, env) for x in last.value.elts) + "])")
        elif isinstance(last, ast.Return):
            L = []
            env = self.pre([last.value], L)
            for ln in L:
                lines.append(f"{pad}let s := {ln}")
            lines.append(f"{pad}if s.err || s.dry then none else some ({self.E(last.value, env)})")
        elif isinstance(last, ast.Raise):
            lines.append(f"{pad}none")
        elif isinstance(last, ast.If):
            L = []
            env = self.pre([last.test], L)
            for ln in L:
                lines.append(f"{pad}let s := {ln}")
            lines.append(f"{pad}if {self.B(last.test, env)} then\n{self.ret(last.body, ind + 1)}\n{pad}else\n{self.ret(last.orelse, ind + 1)}")
        else:
            raise NotRecognised("function does not end in return / raise")
        return "\n".join(lines)

    def render(self) -> str:
        cfg = self.cfg
        name = cfg["name"]
        body = self.ret([st for st in self.fn.body], 1)
        allf = {**{self.id(n): t for n, t in self.locals.items()}, **self.tmps, **{f"self{a}": "Int" for a in self.self_state}}
        allf2 = {}
        for n, t in allf.items():
            if t == "Tree":
                allf2[n + "__nodes"] = "Arr"
                allf2[n + "__nargs"] = "Arr"
            else:
                allf2[n] = t
        fields = "".join(f"  {n} : {LTY[t]} := {DEFAULT[t]}\n" for n, t in sorted(allf2.items()))
        params = " ".join((f"({self.id(n)}_nodes {self.id(n)}_nargs : List Int)" if t == "Tree" else
                           f"({self.id(n)}_0_nodes {self.id(n)}_0_nargs {self.id(n)}_1_nodes {self.id(n)}_1_nargs : List Int)" if t == "Tree2" else
                           f"({self.id(n)}_0_nodes {self.id(n)}_0_nargs : List Int)" if t == "Tree1" else
                           f"({self.id(n)} : {LTY[t]})") for n, t in cfg["params"] if t != "Opaque")
        if self.self_tree:
            params = "(self_nodes self_nargs : List Int) " + params
        if self.self_state:
            params = "(self : List Int) " + params
        extra = " ".join(f"({v} : {LTY[t]})" for v, t in list(self.self_attrs.values()) + list(self.ext.values()))
        extra += "".join(f" ({self.id(n)} : {LTY[t]})" for n, t in cfg.get("inputs", {}).items())
        extra += "".join(f" ({a_[1:]} : List Int)" for a_ in self.self_arrays)
        extra += "".join(f" ({a_[1:].replace('.', '_')}_0 : Int)" for a_ in self.self_ints)
        extra += "".join(f" ({n} : Int)" for n in sorted(self.keyconsts))
        if self.streams:
            if "us" in self.used_streams:
                extra += " (us : List Int)"
            if "ns" in self.used_streams:
                extra += " (ns : List Int)"
        if self.roll_stream:
            extra += " (rolls : List Int)"
        extra += "".join(f" ({v} : List (List Int))" for v in self.ext_stream.values())
        extra += "".join(f" ({v[0]} : " + " → ".join(LTY[t] for t in (v[2] if len(v) > 2 else [KERNEL_PARAM_TY[nm_][a] for a in v[1]])) + " → Nat → " + (LTY[v[3]] if len(v) > 3 else "List Int") + ")"
                         for nm_, v in self.ext_fn.items())
        if cfg.get("fuel_param"):
            extra += " (fuelp : Nat)"
        extra += "".join(f" ({v[0]} : " + "List Int → " * len(v[1]) + "Nat → List Int)" for v in cfg.get("effects", {}).values())
        extra += "".join(f" ({v[0]} : " + "List Int → " * len(v[1]) + "Nat → List (List Int))" for v in cfg.get("effects_arr", {}).values())
        extra += "".join(f" ({par} : Int → List (List Int))" for par in self.tree_ext_fn.values())
        extra += "".join(f" ({par} : Int → Bool)" for par in self.node_preds.values())
        extra += "".join(f" ({par} : Int → List Int → Int)" for par in cfg.get("star_call", {}).values())
        if cfg.get("node_ne"):
            extra += f" ({cfg['node_ne']} : Int → Int → Bool)"
        extra += "".join(f" ({par} : Int → Int)" for par in self.node_attrs.values())
        extra += "".join(f" ({par} : " + "".join(LTY[t] + " → " for t in tys) + "Nat → Int)" for par, tys in self.opaque_fn.values())
        extra += "".join(f" ({v[1]} : {LTY[v[2]] if len(v) > 2 else 'List Int'})" for v in self.opaque_if.values())
        extra += "".join(f" ({n}_p : {LTY[t]})" for n, t in self.opaque_unpack.items() if t is not None)
        extra += "".join(f" ({v} : Int)" for d in self.self_items.values() for v in d.values())
        extra += "".join(f" ({v} : Int)" for v in cfg.get("opaque_exprs", {}).values())
        extra += "".join(f" ({v} : Bool)" for v in self.not_none.values())
        extra += "".join(f" ({par} : List Int)" for par, _ in self.bool_stream.values())
        imports = "".join(f"import TFV.Generated.Src.{u}\n" for u in list(self.uses) + list(self.method_uses.values()) + list(self.tree_methods.values()) + list(self.tree_calls.values())
                          + ([cfg["record_get"][1]] if cfg.get("record_get") else []))
        fuel = f"  let fuel : Nat := {cfg['fuel']}\n" if cfg.get("fuel") else ""
        return (f"/- GENERATED by harness/extract/py2lean.py from /repo/src/thefittest/{cfg['file']} ({(cfg.get('cls') + '.') if cfg.get('cls') else ''}{cfg['func']})\n"
                f"   on every run of the checks that depend on it. Do not edit. -/\n"
                f"import TFV.Model.Imp\n{imports}\nset_option linter.unusedVariables false\n\nnamespace TFV.Generated.Src\nopen TFV\n\n"
                f"structure {name}.S where\n{fields}  brk : Bool := false\n  cnt : Bool := false\n  err : Bool := false\n  dry : Bool := false\n"
                f"  ku : Nat := 0\n  kn : Nat := 0\n  kr : Nat := 0\n" + ("  kx : Nat := 0\n" if (self.ext_stream or self.ext_fn or self.opaque_fn or cfg.get("effects") or cfg.get("effects_arr")) else "") + ("  kb : Nat := 0\n  log : List Int := []\n" if (self.bool_stream or self.actions) else "") + "\n"
                f"def {name} {params} {extra} : Option ({LTY[cfg['ret']]}) :=\n"
                f"  let s : {name}.S := {{" + ", ".join([f"self{a} := Imp.geti self ({k} : Int)" for k, a in enumerate(self.self_state)] + [f"arr{a_} := {a_[1:]}" for a_ in self.self_arrays] + [f"int{a_.replace('.', '_')} := {a_[1:].replace('.', '_')}_0" for a_ in self.self_ints]) + f"}}\n{fuel}{body}\n\nend TFV.Generated.Src\n")


NP_FUNCS = ("abs", "split", "float64", "int64", "floor", "array", "empty", "zeros", "empty_like", "arange", "cumsum", "argmax")
KERNEL_BY_NAME = {k["name"]: k for k in KERNELS}
KERNEL_PARAM_TY = {k["name"]: dict(k["params"]) for k in KERNELS}


def translate(repo: Path, cfg: dict) -> str:
    src = (repo / "src" / "thefittest" / cfg["file"]).read_text()
    fn = find_func(ast.parse(src), cfg.get("cls"), cfg["func"])
    if cfg.get("skip_ifs"):
        # top-level guards that the declared parameter kinds exclude (each must be present: the reading is then documented per kernel)
        keep = [st for st in fn.body if not (isinstance(st, ast.If) and not st.orelse and ast.unparse(st.test) in cfg["skip_ifs"]
                                             and len(st.body) == 1 and isinstance(st.body[0], ast.Raise))]
        if len(fn.body) - len(keep) != len(cfg["skip_ifs"]):
            raise NotRecognised("the guards " + str(cfg["skip_ifs"]) + " are not all present as `if <guard>: raise ...`")
        fn = ast.FunctionDef(name=fn.name, args=fn.args, body=keep, decorator_list=[], returns=None, type_comment=None)
        ast.fix_missing_locations(fn)
    if cfg.get("loop_return"):
        # `for ...: if c: return K` at the top level becomes `hit = False; for ...: if c: hit = True; break` followed by `if hit: return K`
        # (K a constant): the same function, in the subset (which has no `return` inside a loop)
        body = []
        for st in fn.body:
            if isinstance(st, ast.For) and not st.orelse and len(st.body) == 1 and isinstance(st.body[0], ast.If) and not st.body[0].orelse \
                    and len(st.body[0].body) == 1 and isinstance(st.body[0].body[0], ast.Return) and isinstance(st.body[0].body[0].value, ast.Constant):
                k = st.body[0].body[0].value
                hit = ast.Name(id="loop_hit", ctx=ast.Store())
                body.append(ast.Assign(targets=[hit], value=ast.Constant(value=False)))
                inner = ast.If(test=st.body[0].test, body=[ast.Assign(targets=[ast.Name(id="loop_hit", ctx=ast.Store())], value=ast.Constant(value=True)), ast.Break()], orelse=[])
                body.append(ast.For(target=st.target, iter=st.iter, body=[inner], orelse=[]))
                body.append(ast.If(test=ast.Name(id="loop_hit", ctx=ast.Load()), body=[ast.Return(value=k)], orelse=[]))
            else:
                body.append(st)
        fn = ast.FunctionDef(name=fn.name, args=fn.args, body=body, decorator_list=[], returns=None, type_comment=None)
        ast.fix_missing_locations(fn)
    if cfg.get("until"):
        # prefix translation: the statements before the first one starting with `until`, then `return [arrays]`
        cut = next((k for k, st in enumerate(fn.body) if ast.unparse(st).startswith(cfg["until"])), None)
        if cut is None:
            raise NotRecognised(f"statement '{cfg['until']}' not found")
        body = []
        for st in fn.body[:cut]:
            if cfg.get("skip_float_zeros") and isinstance(st, ast.Assign) and isinstance(st.value, ast.Call) and is_np(st.value.func, "zeros") \
                    and any(k.arg == "dtype" and ast.unparse(k.value).endswith("float64") for k in st.value.keywords):
                continue        # a float result array that only the untranslated tail uses
            body.append(st)
        tail_names = {n.id for st in fn.body[cut:] for n in ast.walk(st) if isinstance(n, ast.Name)}
        missing = [r for r in cfg["returns"] if r not in tail_names]
        if missing:
            raise NotRecognised(f"the untranslated tail no longer uses {missing}")
        body.append(ast.Return(value=ast.List(elts=[ast.Name(id=r, ctx=ast.Load()) for r in cfg["returns"]], ctx=ast.Load())))
        fn = ast.FunctionDef(name=fn.name, args=fn.args, body=body, decorator_list=[], returns=None, type_comment=None)
        ast.fix_missing_locations(fn)
    if cfg.get("start_at"):
        # suffix translation: the statements from the first one starting with `start_at` on; then `return [self arrays]`
        cut = next((k for k, st in enumerate(fn.body) if ast.unparse(st).startswith(cfg["start_at"])), None)
        if cut is None:
            raise NotRecognised(f"statement '{cfg['start_at']}' not found")
        mk = lambda a_: ast.Attribute(value=ast.Name(id="self", ctx=ast.Load()), attr=a_, ctx=ast.Load())   # noqa: E731
        rows = [mk(a_) for a_ in cfg["self_arrays"]] + ([ast.List(elts=[mk(a_) for a_ in cfg["self_ints"]], ctx=ast.Load())] if cfg.get("self_ints") else [])
        ret = ast.Return(value=ast.List(elts=rows, ctx=ast.Load()))
        fn = ast.FunctionDef(name=fn.name, args=fn.args, body=fn.body[cut:] + [ret], decorator_list=[], returns=None, type_comment=None)
        ast.fix_missing_locations(fn)
    if cfg.get("append_self_return"):
        mk = lambda a_: ast.parse("self." + a_, mode="eval").body   # noqa: E731
        rows = [mk(a_) for a_ in cfg["self_arrays"]] + ([ast.List(elts=[mk(a_) for a_ in cfg["self_ints"]], ctx=ast.Load())] if cfg.get("self_ints") else [])
        fn = ast.FunctionDef(name=fn.name, args=fn.args, body=list(fn.body) + [ast.Return(value=ast.List(elts=rows, ctx=ast.Load()))], decorator_list=[], returns=None, type_comment=None)
        ast.fix_missing_locations(fn)
    if cfg.get("dict_values"):
        # `return {key: value, ...}` is read as the list of its values, in the dictionary's order
        last = fn.body[-1]
        if not (isinstance(last, ast.Return) and isinstance(last.value, ast.Dict) and all(isinstance(k, ast.Constant) and isinstance(k.value, str) for k in last.value.keys)):
            raise NotRecognised("the function does not end in `return {...}` with string keys")
        body = list(fn.body[:-1]) + [ast.Return(value=ast.Tuple(elts=list(last.value.values), ctx=ast.Load()))]
        fn = ast.FunctionDef(name=fn.name, args=fn.args, body=body, decorator_list=[], returns=None, type_comment=None)
        ast.fix_missing_locations(fn)
    if cfg.get("return_call_kwargs"):
        # the last statement must be the named call; it is replaced by `return [[scalars...], series...]` of its keyword values
        callee, shape = cfg["return_call_kwargs"]
        last = fn.body[-1]
        if not (isinstance(last, ast.Expr) and isinstance(last.value, ast.Call) and Tr.self_call_name(last.value) == callee and not last.value.args):
            raise NotRecognised(f"the function does not end in a call of {callee}")
        kw = {k.arg: k.value for k in last.value.keywords}
        wanted = [n for g in shape for n in (g if isinstance(g, list) else [g])]
        if sorted(kw) != sorted(wanted):
            raise NotRecognised(f"keywords of {callee}: {sorted(kw)}")
        elts = [ast.List(elts=[kw[n] for n in g], ctx=ast.Load()) if isinstance(g, list) else kw[g] for g in shape]
        body = fn.body[:-1] + [ast.Return(value=ast.List(elts=elts, ctx=ast.Load()))]
        fn = ast.FunctionDef(name=fn.name, args=fn.args, body=body, decorator_list=[], returns=None, type_comment=None)
        ast.fix_missing_locations(fn)
    def norm(stmts):
        """`if c: <...; return x>` followed by more statements  ==>  `if c: <...; return x> else: <the rest>`"""
        out = []
        for k, st in enumerate(stmts):
            if isinstance(st, ast.If):
                st = ast.If(test=st.test, body=norm(st.body), orelse=norm(st.orelse))
                if not st.orelse and st.body and always_returns(st.body) and stmts[k + 1:]:
                    st.orelse = norm(stmts[k + 1:])
                    out.append(st)
                    return out
            out.append(st)
        return out

    def always_returns(stmts):
        last = stmts[-1]
        if isinstance(last, (ast.Return, ast.Raise)):
            return True
        return isinstance(last, ast.If) and bool(last.orelse) and always_returns(last.body) and always_returns(last.orelse)

    if cfg.get("normalise_returns"):
        fn = ast.FunctionDef(name=fn.name, args=fn.args, body=norm(fn.body), decorator_list=[], returns=None, type_comment=None)
        ast.fix_missing_locations(fn)
    return Tr(fn, cfg).render()


def main(repo="/repo", out="/verif/lean/TFV/Generated/Src", only=None):
    repo, out = Path(repo), Path(out)
    out.mkdir(parents=True, exist_ok=True)
    status = {}
    for cfg in KERNELS:
        if only and cfg["name"] not in only:
            continue
        target = out / f"{cfg['name']}.lean"
        try:
            text = translate(repo, cfg)
            status[cfg["name"]] = "ok"
        except NotRecognised as e:
            # keep the file compilable but make every equivalence theorem about it fail to check
            text = (f"/- GENERATED: translation FAILED ({e}) -/\nimport TFV.Model.Imp\nnamespace TFV.Generated.Src\n"
                    f"/-- the source of `{cfg['func']}` is outside the translatable subset: {e} -/\n"
                    f"def {cfg['name']}.notRecognised : Unit := ()\nend TFV.Generated.Src\n")
            status[cfg["name"]] = f"not recognised: {e}"
        if not target.exists() or target.read_text() != text:
            target.write_text(text)
    # the vectorised numpy kernels (straight-line whole-array code) have their own small translator
    import np2lean
    status.update(np2lean.main(repo=str(repo), out=str(out), only=only))
    return status


if __name__ == "__main__":
    st = main(*(sys.argv[1:3]))
    for k, v in st.items():
        print(k, "->", v)
