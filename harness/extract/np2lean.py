"""np2lean — source translator for the VECTORISED numpy kernels of utils/transformations.py (C10).

The functions handled here are straight-line code over whole arrays (no loops): assignments of numpy
expressions, `if x is None: x = <default>` and a final `return`.  Each numpy call is mapped to the total
function of `TFV.Model.Np` that states my reading of it (shape errors = `none`); everything else is
rejected (`NotRecognised`), which makes the `C10_src_*` theorems about the kernel fail to check.

    python3 np2lean.py /repo /verif/lean/TFV/Generated/Src
"""
from __future__ import annotations

import ast
import sys
from pathlib import Path

T = "utils/transformations.py"

NP_KERNELS = [
    dict(name="SG_bit_to_int", file=T, cls="SamplingGrid", func="bit_to_int", params=[("bit_array", "Mat"), ("powers", "OptVec")], ret="Vec"),
    dict(name="GC_gray_to_bit", file=T, cls="GrayCode", func="gray_to_bit", params=[("gray_array", "Mat")], ret="Mat"),
    dict(name="GC_bit_to_gray", file=T, cls="GrayCode", func="bit_to_gray", params=[("bit_array", "Mat")], ret="Mat"),
    dict(name="SG_int_to_bit", file=T, cls="SamplingGrid", func="int_to_bit", params=[("int_array", "Vec"), ("powers", "OptVec"), ("num_bits", "OptNat")], ret="Mat",
         # the width derived from the batch maximum (float log2) is a function parameter; which expression it is, is checked
         opaque_defaults={"num_bits": ("int(np.ceil(np.log2(np.max(int_array) + 1)))", "widthOf int_array")}, fn_params=["(widthOf : List Int → Nat)"]),
    # accuracy_score (module-level njit function of utils/_metrics.py, C19): equality mask, its integer cast, the mean
    dict(name="Metrics_accuracy_score", file="utils/_metrics.py", cls=None, func="accuracy_score", params=[("y_true", "Vec"), ("y_predict", "Vec")], ret="Q1"),
    dict(name="SG_decode", file=T, cls="SamplingGrid", func="_decode", params=[("bit_array_i", "Mat")], self_attrs=[("_powers", "Vec")], ret="Vec",
         calls={"bit_to_int": ("SG_bit_to_int", ["Mat", "OptVec"], "Vec")}),
    dict(name="GC_decode", file=T, cls="GrayCode", func="_decode", params=[("gray_array_i", "Mat")], self_attrs=[("_powers", "Vec")], ret="Vec",
         calls={"bit_to_int": ("SG_bit_to_int", ["Mat", "OptVec"], "Vec"), "gray_to_bit": ("GC_gray_to_bit", ["Mat"], "Mat")}),
]

B = "benchmarks/_optproblems.py"

# elementwise benchmark functions over float arrays (floats read as field elements: TFV.Model.NpQ); `cos2pi` names the function
# parameter that stands for a -> cos(2*pi*a)
NPQ_KERNELS = [
    dict(name="Bench_OneMax_f", file=B, cls="OneMax", func="f"),
    dict(name="Bench_Sphere_f", file=B, cls="Sphere", func="f"),
    dict(name="Bench_Schwefel12_f", file=B, cls="Schwefe1_2", func="f"),
    dict(name="Bench_Rosenbrock_f", file=B, cls="Rosenbrock", func="f"),
    dict(name="Bench_Rastrigin_f", file=B, cls="Rastrigin", func="f", cos2pi="cs"),
    # Griewank.f: `np.cos(x / sqrt_i)` with sqrt_i = sqrt(1..D) is the function parameter `csi i a` (= cos(a / sqrt(i+1)), i the column)
    dict(name="Bench_Griewank_f", file=B, cls="Griewank", func="f", cos_sqrt_idx="csi"),
    # HighConditionedElliptic.f: the condition weights `1e6 ** ((i - 1) / (D - 1))`, i = 1..D, are the function parameter `cw D j` (column j = i - 1;
    # for D = 1 the real exponent is 0/0)
    dict(name="Bench_Elliptic_f", file=B, cls="HighConditionedElliptic", func="f", cond_weights="cw"),
    # Ackley.f: `np.exp`, `np.sqrt` are the function parameters `expo`, `sqrtf`; `np.cos(c * x)` with c = 2 * np.pi is `cs`
    dict(name="Bench_Ackley_f", file=B, cls="Ackley", func="f", ackley=True, ret="VQ"),
    # ExpandedScaffers_F6.Scaffes_F6: the pair function on the two columns of an (n, 2) array; `np.sin(np.sqrt(s)) ** 2` is the function
    # parameter `sn2 s`. The quotient of two vectors is taken entrywise in the field (a zero denominator would be inf/nan in floats and 0 in
    # Lean; the denominator here is (1 + 0.001 s)² with s a sum of squares, which C20_src_scaffer_pair does not need to know)
    # TestShiftedFunction.shift / __call__ (every shifted CEC2005 problem goes through them): the first D entries of the shift table are
    # subtracted from every row (x read as a 2-D population), the base function `self.f` is the function parameter `f`, the bias is added
    dict(name="Bench_Shifted_shift", file=B, cls="TestShiftedFunction", func="shift", shifted=True, ret="Q", self_attrs=[("x_shift", "VQ")]),
    dict(name="Bench_Shifted_call", file=B, cls="TestShiftedFunction", func="__call__", shifted_call=True, ret="VQ",
         self_attrs=[("x_shift", "VQ"), ("fbias", "S1")]),
    dict(name="Bench_ScafferPair", file=B, cls="ExpandedScaffers_F6", func="Scaffes_F6", scaffer=True, ret="VQ"),
    # jDE's parameter regeneration (C15): which entries are redrawn (the mask of the first draw against the rate) and from what
    # (the second draw, affinely mapped for F); `uniform(0, 1, size=n)` is the function parameter `draw <ordinal> n`
    dict(name="jDE_get_mutate_F", file="optimizers/_jde.py", cls="jDE", func="_get_mutate_F", params=[], ret="VQ",
         self_attrs=[("_F", "VQ"), ("_pop_size", "N"), ("_t_F", "S1"), ("_F_min", "S1"), ("_F_max", "S1")]),
    dict(name="jDE_get_mutate_CR", file="optimizers/_jde.py", cls="jDE", func="_get_mutate_CR", params=[], ret="VQ",
         self_attrs=[("_CR", "VQ"), ("_pop_size", "N"), ("_t_CR", "S1")]),
    # minmax_scale (C11): module-level function of utils/transformations.py
    dict(name="Select_minmax_scale", file=T, cls=None, func="minmax_scale", params=[("data", "VQ")], ret="VQ"),
    # SHADE._update_u_CR and SHAGA._update_u (C15): nested conditions with early returns ("branching mode": TrQM). In the rational reading no
    # value is infinite: np.isinf is the constant False (NpQ.isinf / NpQ.visinf); lehmer_mean is a function parameter of its two arguments
    dict(name="SHADE_update_u_CR", file="optimizers/_shade.py", cls="SHADE", func="_update_u_CR", params=[("u_CR", "S1"), ("S_CR", "VQ"), ("df", "VQ")], ret="S1",
         branching=True),
    dict(name="SHAGA_update_u", file="optimizers/_shaga.py", cls="SHAGA", func="_update_u", params=[("u", "S1"), ("S", "VQ"), ("df", "VQ")], ret="S1",
         branching=True, ext_scalar_fn={"lehmer_mean": ("lehmerFn", ["x", "weight"])}),
    # max_axis and softmax_numba (C12; module-level njit functions of utils/__init__.py): arrays of rationals, `np.exp` the function parameter
    # `expo`; the two row loops are read as one primitive each (NpQ.rowMaxCol, NpQ.zeroToOne)
    dict(name="Net_max_axis", file="utils/__init__.py", cls=None, func="max_axis", params=[("array", "Q")], ret="Q", branching=True, matrix=True),
    dict(name="Net_softmax_numba", file="utils/__init__.py", cls=None, func="softmax_numba", params=[("X", "Q")], ret="Q", branching=True, matrix=True,
         calls_q={"max_axis": "Net_max_axis"}, expo=True),
    # multiactivation2d (C12): which elementwise formula each activation code stands for (`np.exp`, `np.tanh` are the function parameters
    # `expo`, `tanhf`; code 5 is the translated softmax kernel; any other code leaves `result` unbound - an error, `none`)
    dict(name="Net_multiactivation2d", file="utils/__init__.py", cls=None, func="multiactivation2d", params=[("X", "Q"), ("activ_id", "N")], ret="Q", branching=True,
         matrix=True, calls_q={"softmax_numba": "Net_softmax_numba expo"}, calls_q_kind={"softmax_numba": "Q"}, expo=True, tanhf=True),
    # SelfCGA._get_new_proba (C14): the probability table is read as the vector of its values in key order (kind DQ), the winning operator
    # as the position of its key (kind IDX)
    dict(name="SelfCGA_get_new_proba", file="optimizers/_selfcga.py", cls="SelfCGA", func="_get_new_proba",
         params=[("proba_dict", "DQ"), ("operator", "IDX"), ("threshold", "S1")], ret="VQ", branching=True, self_attrs=[("_K", "S1"), ("_iters", "S1")]),
    # SelfCGA._choice_operators (C14): the operators of the next generation are the keys at the positions that random_weighted_sample (a
    # function parameter of its three arguments) draws with the table's VALUES as weights, pop_size of them, with replacement
    dict(name="SelfCGA_choice_operators", file="optimizers/_selfcga.py", cls="SelfCGA", func="_choice_operators", params=[("proba_dict", "DQ")], ret="VN",
         branching=True, self_attrs=[("_pop_size", "N")], sampler="random_weighted_sample"),
    # SHAGA._randn: one Cauchy value (function parameter `cauchy loc scale <ordinal>`) clamped to [0, 1]
    dict(name="SHAGA_randn", file="optimizers/_shaga.py", cls="SHAGA", func="_randn", params=[("u", "S1"), ("scale", "S1")], ret="S1", branching=True, cauchy=True),
    # SHAGA._randc: Cauchy values are drawn until one lies in (0, 5/str_len]; the `while` becomes a fuel-bounded recursion (`none` when the
    # fuel runs out before an admissible value appears)
    dict(name="SHAGA_randc", file="optimizers/_shaga.py", cls="SHAGA", func="_randc", params=[("u", "S1"), ("scale", "S1")], ret="S1", branching=True, cauchy=True,
         self_attrs=[("_str_len", "S1")], redraw_loop=True),
    # lehmer_mean (module-level function of optimizers/_shade.py) with power = 2: once as called with weights (SHAGA), once without (SHADE's F);
    # which branch of `if weight is None` is taken is fixed per entry (`none_params`), the other one is not translated
    dict(name="Lehmer_mean_weighted", file="optimizers/_shade.py", cls=None, func="lehmer_mean", params=[("x", "VQ"), ("weight", "VQ")], ret="S1",
         branching=True, consts={"power": 2}, none_params={"weight": False}, py_params=["x", "power", "weight"]),
    dict(name="Lehmer_mean_plain", file="optimizers/_shade.py", cls=None, func="lehmer_mean", params=[("x", "VQ")], ret="S1",
         branching=True, consts={"power": 2}, none_params={"weight": True}, py_params=["x", "power", "weight"]),
    # coefficient_determination (C19), floats read as rationals; the literal 1e-10 is read as 1/10^10
    dict(name="Metrics_r2", file="utils/_metrics.py", cls=None, func="coefficient_determination", params=[("y_true", "VQ"), ("y_predict", "VQ")], ret="S1"),
    # the mean squared error inside root_mean_square_error (C19): everything before the square root, which must still be taken of it
    dict(name="Metrics_mse", file="utils/_metrics.py", cls=None, func="root_mean_square_error", params=[("y_true", "VQ"), ("y_predict", "VQ")], ret="S1",
         until="rmse = np.sqrt(mean_squared_error)", returns="mean_squared_error"),
]

# the index plumbing at the head of ExpandedScaffers_F6.f and F8F2.f: which columns are paired (an integer list, a function of D = x.shape[1])
IDX_KERNELS = [
    dict(name="Bench_Scaffer_indexes", file=B, cls="ExpandedScaffers_F6", func="f"),
    dict(name="Bench_F8F2_indexes", file=B, cls="F8F2", func="f"),
]


def translate_pair_indexes(fn, cfg):
    """first statement `if x.shape[1] == 2: indexes = <list> else: indexes = ...` followed (somewhere later) by `x_indexes = x[:, indexes]` and
    `vertical_X = x_indexes.reshape(-1, 2)`; D >= 1 is assumed (`x.shape[1] - 1` is read as truncated subtraction)"""
    body = [st for st in fn.body if not (isinstance(st, ast.Expr) and isinstance(st.value, ast.Constant))]
    if len(body) < 3 or not isinstance(body[0], ast.If) or ast.unparse(body[0].test) != "x.shape[1] == 2":
        raise NotRecognised("the dimension test")
    if ast.unparse(body[1]) != "x_indexes = x[:, indexes]" or ast.unparse(body[2]) != "vertical_X = x_indexes.reshape(-1, 2)":
        raise NotRecognised("the gather / pairing statements")

    def nat(e):
        src = ast.unparse(e)
        if isinstance(e, ast.Constant) and isinstance(e.value, int) and not isinstance(e.value, bool) and e.value >= 0:
            return str(e.value)
        if src == "x.shape[1]":
            return "D"
        if isinstance(e, ast.BinOp) and isinstance(e.op, ast.Sub) and isinstance(e.right, ast.Constant) and isinstance(e.right.value, int) and e.right.value >= 0:
            return f"({nat(e.left)} - {e.right.value})"
        raise NotRecognised("index expression " + src)

    def arr(e):
        if isinstance(e, ast.Name) and e.id == "indexes":
            return "indexes"
        if isinstance(e, ast.List):
            return "[" + ", ".join(nat(x) for x in e.elts) + "]"
        if isinstance(e, ast.Call) and is_np(e.func, "array") and len(e.args) == 1 and isinstance(e.args[0], ast.List) \
                and all(k.arg == "dtype" and ast.unparse(k.value) == "np.int64" for k in e.keywords):
            return arr(e.args[0])
        if isinstance(e, ast.Call) and is_np(e.func, "arange") and len(e.args) == 2 and is_const(e.args[0], 1) \
                and all(k.arg == "dtype" and ast.unparse(k.value) == "np.int64" for k in e.keywords):
            return f"(List.range' 1 ({nat(e.args[1])} - 1))"
        if isinstance(e, ast.Call) and is_np(e.func, "kron") and len(e.args) == 2 and not e.keywords and ast.unparse(e.args[1]) == "np.array([1, 1])":
            return f"(NpQ.kron11 {arr(e.args[0])})"
        if isinstance(e, ast.Call) and is_np(e.func, "insert") and len(e.args) == 3 and not e.keywords and ast.unparse(e.args[1]) == "[0]":
            return f"({arr(e.args[2])} ++ {arr(e.args[0])})"
        if isinstance(e, ast.Call) and is_np(e.func, "append") and len(e.args) == 2 and not e.keywords:
            return f"({arr(e.args[0])} ++ {arr(e.args[1])})"
        raise NotRecognised("index array " + ast.unparse(e)[:60])

    def branch(stmts):
        out = []
        for st in stmts:
            if not (isinstance(st, ast.Assign) and len(st.targets) == 1 and isinstance(st.targets[0], ast.Name) and st.targets[0].id == "indexes"):
                raise NotRecognised("statement " + ast.unparse(st)[:60])
            out.append(f"    let indexes : List Nat := {arr(st.value)}")
        if not out:
            raise NotRecognised("empty branch")
        return "\n".join(out) + "\n    indexes"

    cls_txt = cfg["cls"] + "."
    return ("/- GENERATED by harness/extract/np2lean.py from src/thefittest/" + cfg["file"] + f" ({cls_txt}{cfg['func']}, the column pairing) — do not edit -/\n"
            + "import TFV.Model.NpQ\nnamespace TFV.Generated.Src\nopen TFV\n\n"
            + f"def {cfg['name']} (D : Nat) : List Nat :=\n  if D = 2 then\n{branch(body[0].body)}\n  else\n{branch(body[0].orelse)}\n\nend TFV.Generated.Src\n")


LEAN_TY = {"Q1": "Rat", "Mat": "Np.Mat", "Vec": "List Int", "OptVec": "Option (List Int)", "Nat": "Nat", "OptNat": "Option Nat"}


class NotRecognised(Exception):
    pass


def find_method(tree, cls, func):
    if cls is None:
        for node in tree.body:
            if isinstance(node, ast.FunctionDef) and node.name == func:
                return node
        raise NotRecognised(f"{func} not found")
    for node in tree.body:
        if isinstance(node, ast.ClassDef) and node.name == cls:
            for st in node.body:
                if isinstance(st, ast.FunctionDef) and st.name == func:
                    return st
    raise NotRecognised(f"{cls}.{func} not found")


def is_np(f, *names):
    """f is the attribute chain np.<names...>"""
    cur = f
    for n in reversed(names):
        if not (isinstance(cur, ast.Attribute) and cur.attr == n):
            return False
        cur = cur.value
    return isinstance(cur, ast.Name) and cur.id in ("np", "numpy")


def is_const(e, v):
    if isinstance(e, ast.UnaryOp) and isinstance(e.op, ast.USub) and isinstance(e.operand, ast.Constant):
        return -e.operand.value == v
    return isinstance(e, ast.Constant) and e.value == v


def int_dtype(e):
    return ast.unparse(e) in ("np.int64", "np.byte", "np.int8", "numpy.int64")


class Tr:
    def __init__(self, fn, cfg):
        self.fn, self.cfg = fn, cfg
        self.env = {}
        self.lines = []
        self.n = 0

    def tmp(self):
        self.n += 1
        return f"t{self.n}"

    def bind(self, expr, ty, partial):
        """name a (possibly failing) intermediate value"""
        if not partial:
            return expr
        t = self.tmp()
        self.lines.append(f"  let {t} ← {expr}")
        return t

    def E(self, e):
        """-> (lean term, type); failing operations are bound to temporaries first"""
        if isinstance(e, ast.Name):
            if e.id not in self.env:
                raise NotRecognised(f"unknown name {e.id}")
            return e.id, self.env[e.id]
        if isinstance(e, ast.Attribute) and isinstance(e.value, ast.Name) and e.value.id == "self":
            for a, ty in self.cfg.get("self_attrs", []):
                if a == e.attr:
                    return "self" + a, ty
            raise NotRecognised(f"attribute self.{e.attr}")
        # X.shape[1]
        if isinstance(e, ast.Subscript) and isinstance(e.value, ast.Attribute) and e.value.attr == "shape" and is_const(e.slice, 1):
            x, ty = self.E(e.value.value)
            if ty != "Mat":
                raise NotRecognised("shape[1] of a non-matrix")
            return f"{x}.ncols", "Nat"
        # v.shape[0]
        if isinstance(e, ast.Subscript) and isinstance(e.value, ast.Attribute) and e.value.attr == "shape" and is_const(e.slice, 0):
            x, ty = self.E(e.value.value)
            if ty != "Vec":
                raise NotRecognised("shape[0] of a non-vector")
            return f"{x}.length", "Nat"
        # np.empty(shape=(r, c), dtype=np.int8)
        if isinstance(e, ast.Call) and is_np(e.func, "empty") and not e.args and sorted(k.arg for k in e.keywords) == ["dtype", "shape"]:
            kw = {k.arg: k.value for k in e.keywords}
            if not int_dtype(kw["dtype"]) or not (isinstance(kw["shape"], ast.Tuple) and len(kw["shape"].elts) == 2):
                raise NotRecognised("np.empty arguments")
            (r, tr), (c, tc) = self.E(kw["shape"].elts[0]), self.E(kw["shape"].elts[1])
            if (tr, tc) != ("Nat", "Nat"):
                raise NotRecognised("np.empty shape kinds")
            return f"(Np.empty ({r}) ({c}))", "Mat"
        # v.astype(np.int64) of an integer-valued vector
        if isinstance(e, ast.Call) and isinstance(e.func, ast.Attribute) and e.func.attr == "astype" and len(e.args) == 1 and int_dtype(e.args[0]) \
                and isinstance(e.func.value, ast.Name) and self.env.get(e.func.value.id) == "Vec":
            return e.func.value.id, "Vec"
        # 2 ** np.arange(n, dtype=np.int64)
        if isinstance(e, ast.BinOp) and isinstance(e.op, ast.Pow) and is_const(e.left, 2) and isinstance(e.right, ast.Call) and is_np(e.right.func, "arange"):
            c = e.right
            if len(c.args) != 1 or any(k.arg != "dtype" or not int_dtype(k.value) for k in c.keywords):
                raise NotRecognised("arange arguments")
            n, ty = self.E(c.args[0])
            if ty != "Nat":
                raise NotRecognised("arange of a non-count")
            return f"(Np.pow2Arange {n})", "Vec"
        if isinstance(e, ast.Subscript):
            x, ty = self.E(e.value)
            sl = e.slice
            # v[:n]
            if ty == "Vec" and isinstance(sl, ast.Slice) and sl.lower is None and sl.step is None and sl.upper is not None:
                n, tn = self.E(sl.upper)
                if tn != "Nat":
                    raise NotRecognised("slice bound")
                return f"(Np.takeL {n} {x})", "Vec"
            if ty == "Mat" and isinstance(sl, ast.Tuple) and len(sl.elts) == 2 and isinstance(sl.elts[0], ast.Slice) \
                    and sl.elts[0].lower is None and sl.elts[0].upper is None and sl.elts[0].step is None:
                c = sl.elts[1]
                if isinstance(c, ast.Slice) and c.step is None:
                    if c.lower is None and c.upper is not None and is_const(c.upper, -1):
                        return f"(Np.colsDropLast {x})", "Mat"           # M[:, :-1]
                    if c.upper is None and c.lower is not None and is_const(c.lower, 1):
                        return f"(Np.colsFrom1 {x})", "Mat"              # M[:, 1:]
                if is_const(c, 0):
                    return x, "Col0"                                     # M[:, 0]  (only as the receiver of .reshape(-1, 1))
            raise NotRecognised("subscript " + ast.unparse(e))
        # a == b for two 1-D integer arrays
        if isinstance(e, ast.Compare) and len(e.ops) == 1 and isinstance(e.ops[0], ast.Eq):
            (a, ta), (b, tb) = self.E(e.left), self.E(e.comparators[0])
            if (ta, tb) != ("Vec", "Vec"):
                raise NotRecognised("== operand kinds")
            return self.bind(f"Np.eqMask {a} {b}", "Vec", True), "Vec"
        if isinstance(e, ast.Call):
            f = e.func
            if is_np(f, "mean") and len(e.args) == 1 and not e.keywords:
                x, ty = self.E(e.args[0])
                if ty != "Vec":
                    raise NotRecognised("mean of a non-vector")
                return self.bind(f"Np.meanQ {x}", "Q1", True), "Q1"
            if is_np(f, "flip") and len(e.args) == 1 and not e.keywords:
                x, ty = self.E(e.args[0])
                if ty != "Vec":
                    raise NotRecognised("flip of a non-vector")
                return f"(Np.flip {x})", "Vec"
            if is_np(f, "dot") and len(e.args) == 2 and not e.keywords:
                (a, ta), (b, tb) = self.E(e.args[0]), self.E(e.args[1])
                if (ta, tb) != ("Mat", "Vec"):
                    raise NotRecognised("dot operand kinds")
                return self.bind(f"Np.dot {a} {b}", "Vec", True), "Vec"
            if is_np(f, "logical_xor") and len(e.args) == 2 and not e.keywords:
                (a, ta), (b, tb) = self.E(e.args[0]), self.E(e.args[1])
                if (ta, tb) != ("Mat", "Mat"):
                    raise NotRecognised("logical_xor operand kinds")
                return self.bind(f"Np.logicalXor {a} {b}", "Mat", True), "Mat"
            if is_np(f, "hstack") and len(e.args) == 1 and not e.keywords and isinstance(e.args[0], ast.List) and len(e.args[0].elts) == 2:
                (a, ta), (b, tb) = self.E(e.args[0].elts[0]), self.E(e.args[0].elts[1])
                if (ta, tb) != ("Mat", "Mat"):
                    raise NotRecognised("hstack operand kinds")
                return self.bind(f"Np.hstack {a} {b}", "Mat", True), "Mat"
            # np.logical_xor.accumulate(M, axis=-1).astype(np.byte)
            if isinstance(f, ast.Attribute) and f.attr == "astype" and len(e.args) == 1 and int_dtype(e.args[0]) and isinstance(f.value, ast.Call) \
                    and is_np(f.value.func, "logical_xor", "accumulate"):
                c = f.value
                if len(c.args) != 1 or len(c.keywords) != 1 or c.keywords[0].arg != "axis" or not is_const(c.keywords[0].value, -1):
                    raise NotRecognised("accumulate arguments")
                x, ty = self.E(c.args[0])
                if ty != "Mat":
                    raise NotRecognised("accumulate of a non-matrix")
                return f"(Np.logicalXorAccumulate {x})", "Mat"
            # M[:, 0].reshape(-1, 1)
            if isinstance(f, ast.Attribute) and f.attr == "reshape" and len(e.args) == 2 and is_const(e.args[0], -1) and is_const(e.args[1], 1):
                x, ty = self.E(f.value)
                if ty != "Col0":
                    raise NotRecognised("reshape receiver")
                return self.bind(f"Np.col0 {x}", "Mat", True), "Mat"
            # self.method(...) / Class.method(...): another translated kernel
            if isinstance(f, ast.Attribute) and isinstance(f.value, ast.Name) and f.attr in self.cfg.get("calls", {}) and not e.keywords:
                lean, ptys, rty = self.cfg["calls"][f.attr]
                if len(e.args) != len(ptys):
                    raise NotRecognised(f"arity of {f.attr}")
                args = []
                for a, want in zip(e.args, ptys):
                    x, ty = self.E(a)
                    if want == "OptVec" and ty == "Vec":
                        x = f"(some {x})"
                    elif ty != want:
                        raise NotRecognised(f"argument kind of {f.attr}")
                    args.append(x)
                return self.bind(f"{lean} " + " ".join(args), rty, True), rty
        raise NotRecognised("expression " + ast.unparse(e)[:60])

    def stmt(self, st):
        if isinstance(st, ast.Expr) and isinstance(st.value, ast.Constant) and isinstance(st.value.value, str):
            return
        if isinstance(st, ast.Assign) and len(st.targets) == 1 and isinstance(st.targets[0], ast.Name):
            x, ty = self.E(st.value)
            if ty == "Col0":
                raise NotRecognised("a bare column")
            self.lines.append(f"  let {st.targets[0].id} := {x}")
            self.env[st.targets[0].id] = ty
            return
        # if p is None: p = <default>
        if isinstance(st, ast.If) and not st.orelse and isinstance(st.test, ast.Compare) and isinstance(st.test.left, ast.Name) \
                and len(st.test.ops) == 1 and isinstance(st.test.ops[0], ast.Is) and is_const(st.test.comparators[0], None) \
                and len(st.body) == 1 and isinstance(st.body[0], ast.Assign) and len(st.body[0].targets) == 1 \
                and isinstance(st.body[0].targets[0], ast.Name) and st.body[0].targets[0].id == st.test.left.id:
            p = st.test.left.id
            if self.env.get(p) != "OptVec":
                raise NotRecognised("None test of a non-optional")
            n0 = len(self.lines)
            x, ty = self.E(st.body[0].value)
            if ty != "Vec" or len(self.lines) != n0:
                raise NotRecognised("default value kind")
            self.lines.append(f"  let {p} := match {p} with | some v => v | none => {x}")
            self.env[p] = "Vec"
            return
        # if n is None: n = <the configured opaque default>  else: n = int(n)
        if isinstance(st, ast.If) and len(st.orelse) == 1 and len(st.body) == 1 and isinstance(st.test, ast.Compare) and isinstance(st.test.left, ast.Name) \
                and len(st.test.ops) == 1 and isinstance(st.test.ops[0], ast.Is) and is_const(st.test.comparators[0], None) \
                and st.test.left.id in self.cfg.get("opaque_defaults", {}):
            p = st.test.left.id
            text, lean = self.cfg["opaque_defaults"][p]
            if self.env.get(p) != "OptNat" or ast.unparse(st.body[0]) != f"{p} = {text}" or ast.unparse(st.orelse[0]) != f"{p} = int({p})":
                raise NotRecognised("the default of " + p)
            self.lines.append(f"  let {p} := match {p} with | some n => n | none => {lean}")
            self.env[p] = "Nat"
            return
        # for i, p in enumerate(V): M[:, i] = np.int8((X & p) > 0)
        if isinstance(st, ast.For) and not st.orelse and isinstance(st.target, ast.Tuple) and len(st.target.elts) == 2 \
                and all(isinstance(t, ast.Name) for t in st.target.elts) and isinstance(st.iter, ast.Call) and isinstance(st.iter.func, ast.Name) \
                and st.iter.func.id == "enumerate" and len(st.iter.args) == 1 and not st.iter.keywords and len(st.body) == 1:
            i, pw = st.target.elts[0].id, st.target.elts[1].id
            v, tv = self.E(st.iter.args[0])
            b = st.body[0]
            if tv == "Vec" and isinstance(b, ast.Assign) and len(b.targets) == 1:
                tgt = b.targets[0]
                if isinstance(tgt, ast.Subscript) and isinstance(tgt.value, ast.Name) and self.env.get(tgt.value.id) == "Mat" \
                        and ast.unparse(tgt.slice) in (f":, {i}", f"(:, {i})"):
                    m = tgt.value.id
                    for x, tx in self.env.items():
                        if tx == "Vec" and ast.unparse(b.value) == f"np.int8({x} & {pw} > 0)":
                            t = self.bind(f"Np.assignAndPosCols {m} {x} {v}", "Mat", True)
                            self.lines.append(f"  let {m} := {t}")
                            return
            raise NotRecognised("loop body " + ast.unparse(b)[:60])
        raise NotRecognised("statement " + ast.unparse(st)[:60])

    def render(self):
        cfg = self.cfg
        args = [a.arg for a in self.fn.args.args if a.arg != "self"]
        cls_txt = (cfg["cls"] + ".") if cfg["cls"] else ""
        if args != [p for p, _ in cfg["params"]]:
            raise NotRecognised(f"parameters {args}")
        for p, ty in cfg["params"]:
            self.env[p] = ty
        body = list(self.fn.body)
        if not body or not isinstance(body[-1], ast.Return) or body[-1].value is None:
            raise NotRecognised("the function does not end in a return")
        for st in body[:-1]:
            self.stmt(st)
        x, ty = self.E(body[-1].value)
        if ty != cfg["ret"]:
            raise NotRecognised(f"returned kind {ty}")
        self.lines.append(f"  return {x}")
        imports = ["import TFV.Model.Np"] + [f"import TFV.Generated.Src.{v[0]}" for v in cfg.get("calls", {}).values()]
        params = cfg.get("fn_params", []) + [f"(self{a} : {LEAN_TY[ty]})" for a, ty in cfg.get("self_attrs", [])] + [f"({p} : {LEAN_TY[ty]})" for p, ty in cfg["params"]]
        return ("/- GENERATED by harness/extract/np2lean.py from src/thefittest/" + cfg["file"] + f" ({cls_txt}{cfg['func']}) — do not edit -/\n"
                + "\n".join(sorted(set(imports))) + "\nnamespace TFV.Generated.Src\nopen TFV\n\n"
                + f"def {cfg['name']} " + " ".join(params) + f" : Option ({LEAN_TY[cfg['ret']]}) := do\n" + "\n".join(self.lines) + "\n\nend TFV.Generated.Src\n")


class TrQ:
    """straight-line elementwise float code: `name = <array expression>` ... `return <vector expression>`"""

    def __init__(self, fn, cfg):
        self.fn, self.cfg = fn, cfg
        self.env = {p: k for p, k in cfg.get("params", [("x", "Q")])}
        self.lines = []
        self.n = 0
        self.draws = 0
        self.sqi_of = {}
        self.rename = {}

    ind = "  "

    def bind(self, expr):
        self.n += 1
        t = f"t{self.n}"
        self.lines.append(f"{self.ind}let {t} ← {expr}")
        return t

    @staticmethod
    def lit(e):
        if isinstance(e, ast.Constant) and isinstance(e.value, int) and not isinstance(e.value, bool):
            return f"({e.value} : Rat)"
        if isinstance(e, ast.Constant) and isinstance(e.value, float):
            from fractions import Fraction
            q = Fraction(ast.unparse(e))        # the decimal text of the literal, not its binary rounding
            return f"(({q.numerator} : Rat) / {q.denominator})"
        return None

    def E(self, e):
        """-> (lean term, kind) with kind Q (array), QT (the same array seen through .T), V (vector), S (literal)"""
        if self.lit(e):
            return self.lit(e), "S"
        if isinstance(e, ast.Name):
            if e.id not in self.env:
                raise NotRecognised(f"unknown name {e.id}")
            return self.rename.get(e.id, e.id), self.env[e.id]
        if isinstance(e, ast.Call) and is_np(e.func, "array") and len(e.args) == 1 and not e.keywords and ast.unparse(e.args[0]).startswith("list(") \
                and ast.unparse(e.args[0]).endswith(".keys())") and self.env.get(ast.unparse(e.args[0])[5:-8]) == "DQ":
            return f"(List.range {ast.unparse(e.args[0])[5:-8]}.length)", "KEYS"       # the keys of a table, read as their positions
        if isinstance(e, ast.Call) and is_np(e.func, "array") and len(e.args) == 1 and [k.arg for k in e.keywords] == ["dtype"] \
                and ast.unparse(e.keywords[0].value) == "np.float64" and ast.unparse(e.args[0]).startswith("list(") and ast.unparse(e.args[0]).endswith(".values())") \
                and self.env.get(ast.unparse(e.args[0])[5:-10]) == "DQ":
            return ast.unparse(e.args[0])[5:-10], "VQ"
        if isinstance(e, ast.Call) and isinstance(e.func, ast.Name) and e.func.id == self.cfg.get("sampler") and not e.args:
            kw = {k.arg: k.value for k in e.keywords}
            if sorted(kw) != ["quantity", "replace", "weights"] or not isinstance(kw["replace"], ast.Constant) or not isinstance(kw["replace"].value, bool):
                raise NotRecognised("sampler arguments")
            (w, kw_), (q, kq) = self.E(kw["weights"]), self.E(kw["quantity"])
            if (kw_, kq) != ("VQ", "N"):
                raise NotRecognised("sampler operand kinds")
            return f"(sampler {w} {q} {'true' if kw['replace'].value else 'false'})", "VN"
        if isinstance(e, ast.Subscript) and isinstance(e.value, ast.Name) and isinstance(e.slice, ast.Name) and self.env.get(e.value.id) == "KEYS" \
                and self.env.get(e.slice.id) == "VN":
            return self.bind(f"NpQ.gatherN {e.value.id} {e.slice.id}"), "VN"
        # np.array(list(d.values()))  /  len(d)  /  dict(zip(d.keys(), v))  for a table d read as its value vector
        if isinstance(e, ast.Call) and is_np(e.func, "array") and len(e.args) == 1 and not e.keywords and ast.unparse(e.args[0]).startswith("list(") \
                and ast.unparse(e.args[0]).endswith(".values())"):
            nm = ast.unparse(e.args[0])[5:-10]
            if self.env.get(nm) != "DQ":
                raise NotRecognised("values of a non-table")
            return nm, "VQ"
        if isinstance(e, ast.Call) and isinstance(e.func, ast.Name) and e.func.id == "len" and len(e.args) == 1 and isinstance(e.args[0], ast.Name) \
                and self.env.get(e.args[0].id) == "DQ":
            return f"(({e.args[0].id}.length : Nat) : Rat)", "S1"
        if isinstance(e, ast.Call) and isinstance(e.func, ast.Name) and e.func.id == "dict" and len(e.args) == 1 and not e.keywords \
                and isinstance(e.args[0], ast.Call) and isinstance(e.args[0].func, ast.Name) and e.args[0].func.id == "zip" and len(e.args[0].args) == 2:
            kx, vx = e.args[0].args
            if not (ast.unparse(kx).endswith(".keys()") and self.env.get(ast.unparse(kx)[:-7]) == "DQ"):
                raise NotRecognised("keys of the new table")
            x, k = self.E(vx)
            if k != "VQ":
                raise NotRecognised("values of the new table")
            return f"(NpQ.sameLen {ast.unparse(kx)[:-7]} {x})", "VQP"
        if isinstance(e, ast.Call) and isinstance(e.func, ast.Attribute) and e.func.attr == "clip" and len(e.args) == 2 and not e.keywords:
            x, k = self.E(e.func.value)
            (a, ka), (b, kb) = self.E(e.args[0]), self.E(e.args[1])
            if k != "VQ" or ka not in ("S", "S1") or kb not in ("S", "S1"):
                raise NotRecognised("clip operands")
            return f"({x}.map (NpQ.clip {a} {b}))", "VQ"
        if isinstance(e, ast.Call) and isinstance(e.func, ast.Attribute) and e.func.attr == "sum" and not e.args and not e.keywords \
                and self._kind(e.func.value) == "VQ":
            return f"(NpQ.vsum {self.E(e.func.value)[0]})", "S1"
        if isinstance(e, ast.Subscript) and is_const(e.slice, 0) and isinstance(e.value, ast.Call) and isinstance(e.value.func, ast.Name) \
                and e.value.func.id == "cauchy_distribution" and self.cfg.get("cauchy") and not e.value.args:
            kw = {k.arg: k.value for k in e.value.keywords}
            if sorted(kw) != ["loc", "scale", "size"] or not is_const(kw["size"], 1):
                raise NotRecognised("cauchy_distribution arguments")
            (a, ka), (b, kb) = self.E(kw["loc"]), self.E(kw["scale"])
            if (ka, kb) != ("S1", "S1"):
                raise NotRecognised("cauchy_distribution operand kinds")
            self.draws += 1
            return f"(cauchy {a} {b} {self.draws - 1})", "S1"
        if self.cfg.get("matrix"):
            # np.zeros((A.shape[0], 1), dtype=np.float64): a column of zeros, one per row of A
            if isinstance(e, ast.Call) and is_np(e.func, "zeros") and len(e.args) == 1 and [k.arg for k in e.keywords] == ["dtype"] \
                    and ast.unparse(e.keywords[0].value) == "np.float64" and isinstance(e.args[0], ast.Tuple) and len(e.args[0].elts) == 2 \
                    and is_const(e.args[0].elts[1], 1) and ast.unparse(e.args[0].elts[0]).endswith(".shape[0]"):
                a = ast.unparse(e.args[0].elts[0])[:-9]
                if self.env.get(a) != "Q":
                    raise NotRecognised("zeros shape")
                return f"(NpQ.zeroCol {a})", "QC"
            # np.exp(M)
            if isinstance(e, ast.Call) and is_np(e.func, "exp") and len(e.args) == 1 and not e.keywords and self.cfg.get("expo"):
                x, k = self.E(e.args[0])
                if k != "Q":
                    raise NotRecognised("exp operand")
                return f"(NpQ.map expo {x})", "Q"
            if isinstance(e, ast.UnaryOp) and isinstance(e.op, ast.USub) and self._kind(e.operand) == "Q":
                return f"(NpQ.map (fun a => -a) {self.E(e.operand)[0]})", "Q"
            if isinstance(e, ast.Call) and is_np(e.func, "tanh") and len(e.args) == 1 and not e.keywords and self.cfg.get("tanhf") and self._kind(e.args[0]) == "Q":
                return f"(NpQ.map tanhf {self.E(e.args[0])[0]})", "Q"
            # X * (X > 0): the rectifier
            if isinstance(e, ast.BinOp) and isinstance(e.op, ast.Mult) and isinstance(e.left, ast.Name) and self.env.get(e.left.id) == "Q" \
                    and isinstance(e.right, ast.Compare) and len(e.right.ops) == 1 and isinstance(e.right.ops[0], ast.Gt) \
                    and isinstance(e.right.left, ast.Name) and e.right.left.id == e.left.id and is_const(e.right.comparators[0], 0):
                return f"(NpQ.map (fun a => a * (if a > 0 then 1 else 0)) {e.left.id})", "Q"
            # c / M
            if isinstance(e, ast.BinOp) and isinstance(e.op, ast.Div) and self.lit(e.left) and self._kind(e.right) == "Q":
                return f"(NpQ.map (fun a => {self.lit(e.left)} / a) {self.E(e.right)[0]})", "Q"
            # M - column (broadcast along the rows)
            if isinstance(e, ast.BinOp) and isinstance(e.op, ast.Sub) and self._kind(e.left) == "Q" and self._kind(e.right) == "QC":
                return self.bind(f"NpQ.subCol {self.E(e.left)[0]} {self.E(e.right)[0]}"), "Q"
            # a translated kernel called on a matrix
            if isinstance(e, ast.Call) and isinstance(e.func, ast.Name) and e.func.id in self.cfg.get("calls_q", {}) and len(e.args) == 1 and not e.keywords:
                x, k = self.E(e.args[0])
                if k != "Q":
                    raise NotRecognised("callee operand")
                return self.bind(f"{self.cfg['calls_q'][e.func.id]} {x}"), self.cfg.get("calls_q_kind", {}).get(e.func.id, "QC")
            # np.sum(M, axis=1)
            if isinstance(e, ast.Call) and is_np(e.func, "sum") and len(e.args) == 1 and [k.arg for k in e.keywords] == ["axis"] and is_const(e.keywords[0].value, 1) \
                    and self._kind(e.args[0]) == "Q":
                return f"(NpQ.sumRows {self.E(e.args[0])[0]})", "VQ"
            # (M.T / v).T : row i of M divided by v[i]
            if isinstance(e, ast.Attribute) and e.attr == "T" and isinstance(e.value, ast.BinOp) and isinstance(e.value.op, ast.Div) \
                    and isinstance(e.value.left, ast.Attribute) and e.value.left.attr == "T" and self._kind(e.value.left.value) == "Q" and self._kind(e.value.right) == "VQ":
                return self.bind(f"NpQ.divRows {self.E(e.value.left.value)[0]} {self.E(e.value.right)[0]}"), "Q"
        if isinstance(e, ast.Call) and is_np(e.func, "power") and len(e.args) == 2 and not e.keywords:
            x, k = self.E(e.args[0])
            ex = e.args[1]
            consts = self.cfg.get("consts", {})
            if isinstance(ex, ast.Name) and ex.id in consts:
                pw = consts[ex.id]
            elif isinstance(ex, ast.BinOp) and isinstance(ex.op, ast.Sub) and isinstance(ex.left, ast.Name) and ex.left.id in consts \
                    and isinstance(ex.right, ast.Constant) and isinstance(ex.right.value, int):
                pw = consts[ex.left.id] - ex.right.value
            else:
                raise NotRecognised("exponent " + ast.unparse(ex))
            if k != "VQ" or pw < 0:
                raise NotRecognised("np.power operands")
            return f"({x}.map (fun a => a ^ {pw}))", "VQ"
        if isinstance(e, ast.Attribute) and isinstance(e.value, ast.Name) and e.value.id == "self":
            for a, k in self.cfg.get("self_attrs", []):
                if a == e.attr:
                    return "self" + a, k
            raise NotRecognised(f"attribute self.{e.attr}")
        if isinstance(e, ast.Compare) and len(e.ops) == 1 and isinstance(e.ops[0], ast.Lt):
            (a, ka), (b, kb) = self.E(e.left), self.E(e.comparators[0])
            if (ka, kb) != ("VQ", "S1"):
                raise NotRecognised("< operand kinds")
            return f"(NpQ.ltMask {a} {b})", "MB"
        if self.cfg.get("shifted"):
            # shape = M.shape ; axis = [1] * (len(shape) - 1) + [-1]  (= [1, -1] for the 2-D M) ; M - self.x_shift[: shape[-1]].reshape(axis)
            if isinstance(e, ast.Attribute) and e.attr == "shape" and isinstance(e.value, ast.Name) and self.env.get(e.value.id) == "Q":
                return e.value.id, "SHAPE"
            if isinstance(e, ast.BinOp) and isinstance(e.op, ast.Add) and ast.unparse(e.right) == "[-1]" and isinstance(e.left, ast.BinOp) \
                    and isinstance(e.left.op, ast.Mult) and ast.unparse(e.left.left) == "[1]" and ast.unparse(e.left.right).startswith("len(") \
                    and ast.unparse(e.left.right).endswith(") - 1") and self.env.get(ast.unparse(e.left.right)[4:-5]) == "SHAPE":
                return self.sqi_of[ast.unparse(e.left.right)[4:-5]], "ROWAXIS"
            if isinstance(e, ast.BinOp) and isinstance(e.op, ast.Sub) and isinstance(e.left, ast.Name) and self.env.get(e.left.id) == "Q" \
                    and isinstance(e.right, ast.Call) and isinstance(e.right.func, ast.Attribute) and e.right.func.attr == "reshape" \
                    and len(e.right.args) == 1 and not e.right.keywords and isinstance(e.right.args[0], ast.Name) \
                    and self.env.get(e.right.args[0].id) == "ROWAXIS" and self.sqi_of.get(e.right.args[0].id) == e.left.id:
                sub = e.right.func.value
                if not (isinstance(sub, ast.Subscript) and isinstance(sub.slice, ast.Slice) and sub.slice.lower is None and sub.slice.step is None
                        and sub.slice.upper is not None and ast.unparse(sub.slice.upper).endswith("[-1]")
                        and self.env.get(ast.unparse(sub.slice.upper)[:-4]) == "SHAPE" and self.sqi_of.get(ast.unparse(sub.slice.upper)[:-4]) == e.left.id):
                    raise NotRecognised("shift slice " + ast.unparse(sub))
                v, k = self.E(sub.value)
                if k != "VQ":
                    raise NotRecognised("shift table kind")
                return self.bind(f"NpQ.subRow {e.left.id} ({v}.take {e.left.id}.ncols)"), "Q"
        if self.cfg.get("shifted_call"):
            if isinstance(e, ast.Call) and isinstance(e.func, ast.Attribute) and isinstance(e.func.value, ast.Name) and e.func.value.id == "self" \
                    and e.func.attr in ("shift", "f") and len(e.args) == 1 and not e.keywords:
                x, k = self.E(e.args[0])
                if k != "Q":
                    raise NotRecognised("operand of self." + e.func.attr)
                if e.func.attr == "shift":
                    return self.bind(f"Bench_Shifted_shift selfx_shift {x}"), "Q"
                return self.bind(f"f {x}"), "VQ"
        if self.cfg.get("scaffer"):
            # M[:, j] for a literal column j
            if isinstance(e, ast.Subscript) and isinstance(e.value, ast.Name) and self.env.get(e.value.id) == "Q" and isinstance(e.slice, ast.Tuple) \
                    and len(e.slice.elts) == 2 and ast.unparse(e.slice.elts[0]) == ":" and isinstance(e.slice.elts[1], ast.Constant) \
                    and isinstance(e.slice.elts[1].value, int) and not isinstance(e.slice.elts[1].value, bool) and e.slice.elts[1].value >= 0:
                return self.bind(f"NpQ.col {e.value.id} {e.slice.elts[1].value}"), "VQ"
            # np.sin(np.sqrt(v)) ** 2
            if isinstance(e, ast.BinOp) and isinstance(e.op, ast.Pow) and is_const(e.right, 2) and isinstance(e.left, ast.Call) and is_np(e.left.func, "sin") \
                    and len(e.left.args) == 1 and not e.left.keywords and isinstance(e.left.args[0], ast.Call) and is_np(e.left.args[0].func, "sqrt") \
                    and len(e.left.args[0].args) == 1 and not e.left.args[0].keywords:
                x, k = self.E(e.left.args[0].args[0])
                if k != "VQ":
                    raise NotRecognised("sin(sqrt(.)) operand")
                return f"({x}.map sn2)", "VQ"
            # v / w entrywise
            if isinstance(e, ast.BinOp) and isinstance(e.op, ast.Div) and self._kind(e.left) == "VQ" and self._kind(e.right) == "VQ":
                a, _ = self.E(e.left)
                b, _ = self.E(e.right)
                return self.bind(f"NpQ.vzip (fun a b => a / b) {a} {b}"), "VQ"
        if self.cfg.get("ackley"):
            # c = 2 * np.pi (kind TWOPI: only ever used inside np.cos(c * M))
            if ast.unparse(e) == "2 * np.pi":
                return "twopi", "TWOPI"
            # D = M.shape[1], as a number
            if isinstance(e, ast.Subscript) and ast.unparse(e).endswith(".shape[1]") and self.env.get(ast.unparse(e)[:-9]) == "Q":
                return f"(({ast.unparse(e)[:-9]}.ncols : Nat) : Rat)", "S1"
            if isinstance(e, ast.UnaryOp) and isinstance(e.op, ast.USub):
                x, k = self.E(e.operand)
                if k in ("S", "S1"):
                    return f"(-{x})", "S1"
                if k == "VQ":
                    return f"({x}.map (fun a => -a))", "VQ"
                raise NotRecognised("negated kind")
            if isinstance(e, ast.Call) and (is_np(e.func, "exp") or is_np(e.func, "sqrt")) and len(e.args) == 1 and not e.keywords:
                fn = "expo" if is_np(e.func, "exp") else "sqrtf"
                x, k = self.E(e.args[0])
                if k in ("S", "S1"):
                    return f"({fn} {x})", "S1"
                if k == "VQ":
                    return f"({x}.map {fn})", "VQ"
                raise NotRecognised(fn + " operand")
            if isinstance(e, ast.Call) and is_np(e.func, "cos") and len(e.args) == 1 and not e.keywords:
                a = e.args[0]
                if isinstance(a, ast.BinOp) and isinstance(a.op, ast.Mult) and isinstance(a.left, ast.Name) and self.env.get(a.left.id) == "TWOPI" \
                        and self._kind(a.right) == "Q":
                    return f"(NpQ.map cs {self.E(a.right)[0]})", "Q"
                raise NotRecognised("cos operand " + ast.unparse(a))
            if isinstance(e, ast.Call) and is_np(e.func, "sum") and len(e.args) == 1 and [k.arg for k in e.keywords] == ["axis"] \
                    and (is_const(e.keywords[0].value, 1) or is_const(e.keywords[0].value, -1)):
                x, k = self.E(e.args[0])
                if k != "Q":
                    raise NotRecognised("sum of a non-array")
                return f"(NpQ.sumRows {x})", "VQ"
        if self.cfg.get("cond_weights"):
            # i = np.arange(1, M.shape[1] + 1)  (kind IDX1)  and  D = M.shape[1]  (kind DIM): only ever used inside the weight expression
            if isinstance(e, ast.Call) and is_np(e.func, "arange") and len(e.args) == 2 and not e.keywords and is_const(e.args[0], 1) \
                    and ast.unparse(e.args[1]).endswith(".shape[1] + 1") and self.env.get(ast.unparse(e.args[1])[:-13]) == "Q":
                return ast.unparse(e.args[1])[:-13], "IDX1"
            if isinstance(e, ast.Subscript) and ast.unparse(e).endswith(".shape[1]") and self.env.get(ast.unparse(e)[:-9]) == "Q":
                return ast.unparse(e)[:-9], "DIM"
            # (1000000.0 ** ((i - 1) / (D - 1))) * <array of the same M>: column j of the array is multiplied by `cw D j`
            if isinstance(e, ast.BinOp) and isinstance(e.op, ast.Mult) and isinstance(e.left, ast.BinOp) and isinstance(e.left.op, ast.Pow) \
                    and isinstance(e.left.left, ast.Constant) and e.left.left.value == 1e6:
                ex = e.left.right
                ok = isinstance(ex, ast.BinOp) and isinstance(ex.op, ast.Div) \
                    and isinstance(ex.left, ast.BinOp) and isinstance(ex.left.op, ast.Sub) and isinstance(ex.left.left, ast.Name) and is_const(ex.left.right, 1) \
                    and isinstance(ex.right, ast.BinOp) and isinstance(ex.right.op, ast.Sub) and isinstance(ex.right.left, ast.Name) and is_const(ex.right.right, 1)
                if not ok:
                    raise NotRecognised("weight exponent " + ast.unparse(ex))
                iv, dv = ex.left.left.id, ex.right.left.id
                if self.env.get(iv) != "IDX1" or self.env.get(dv) != "DIM" or self.sqi_of.get(iv) != self.sqi_of.get(dv):
                    raise NotRecognised("weight operands")
                x, k = self.E(e.right)
                if k != "Q" or self.root_of(e.right) != self.sqi_of[iv]:
                    raise NotRecognised("weighted operand")
                cw = self.cfg["cond_weights"]
                return f"(NpQ.mapIdxCols (fun j a => {cw} {self.sqi_of[iv]}.ncols j * a) {x})", "Q"
        if self.cfg.get("cos_sqrt_idx"):
            # np.sqrt(np.arange(1, M.shape[1] + 1)): the square roots of 1..D for the D columns of M (kind SQI, never evaluated by itself)
            if isinstance(e, ast.Call) and is_np(e.func, "sqrt") and len(e.args) == 1 and not e.keywords:
                src = ast.unparse(e.args[0])
                if src.startswith("np.arange(1, ") and src.endswith(".shape[1] + 1)") and self.env.get(src[13:-14]) == "Q":
                    return src[13:-14], "SQI"
                raise NotRecognised("sqrt operand " + src)
            # np.cos(M / sqrt_i) for sqrt_i the roots of 1..D of the SAME array M
            if isinstance(e, ast.Call) and is_np(e.func, "cos") and len(e.args) == 1 and not e.keywords:
                a = e.args[0]
                if isinstance(a, ast.BinOp) and isinstance(a.op, ast.Div) and isinstance(a.left, ast.Name) and self.env.get(a.left.id) == "Q" \
                        and isinstance(a.right, ast.Name) and self.env.get(a.right.id) == "SQI" and self.sqi_of.get(a.right.id) == a.left.id:
                    return f"(NpQ.mapIdxCols {self.cfg['cos_sqrt_idx']} {a.left.id})", "Q"
                raise NotRecognised("cos operand " + ast.unparse(a))
            # np.prod(M, axis=-1)
            if isinstance(e, ast.Call) and is_np(e.func, "prod") and len(e.args) == 1 and [k.arg for k in e.keywords] == ["axis"] and is_const(e.keywords[0].value, -1):
                x, k = self.E(e.args[0])
                if k != "Q":
                    raise NotRecognised("prod of a non-array")
                return f"(NpQ.prodRows {x})", "V"
            # M / c for a non-zero literal c
            if isinstance(e, ast.BinOp) and isinstance(e.op, ast.Div) and isinstance(e.right, ast.Constant) and isinstance(e.right.value, (int, float)) \
                    and not isinstance(e.right.value, bool) and e.right.value != 0 and self._kind(e.left) == "Q":
                return f"(NpQ.map (fun a => a / {self.lit(e.right)}) {self.E(e.left)[0]})", "Q"
            # row vectors (kind V): v op w, v op c
            if isinstance(e, ast.BinOp) and type(e.op) in (ast.Add, ast.Sub) and self._kind(e.left) == "V":
                op = "+" if isinstance(e.op, ast.Add) else "-"
                a, _ = self.E(e.left)
                b, kb = self.E(e.right)
                if kb == "V":
                    return self.bind(f"NpQ.vzip (fun a b => a {op} b) {a} {b}"), "V"
                if kb == "S":
                    return f"({a}.map (fun a => a {op} {b}))", "V"
                raise NotRecognised("operand kinds in " + ast.unparse(e))
        if isinstance(e, ast.Attribute) and e.attr == "T":
            x, k = self.E(e.value)
            if k not in ("Q", "QT"):
                raise NotRecognised(".T of a non-array")
            return x, "QT" if k == "Q" else "Q"
        if isinstance(e, ast.Subscript):
            x, k = self.E(e.value)
            sl = e.slice
            if k == "QT" and isinstance(sl, ast.Slice) and sl.step is None:
                if sl.lower is None and sl.upper is not None and is_const(sl.upper, -1):
                    return f"(NpQ.colsDropLast {x})", "QT"
                if sl.upper is None and sl.lower is not None and is_const(sl.lower, 1):
                    return f"(NpQ.colsFrom1 {x})", "QT"
            raise NotRecognised("subscript " + ast.unparse(e))
        if isinstance(e, ast.BinOp):
            if isinstance(e.op, ast.Pow):
                x, k = self.E(e.left)
                if k == "VQ" and isinstance(e.right, ast.Constant) and isinstance(e.right.value, int) and e.right.value >= 0:
                    return f"({x}.map (fun a => a ^ {e.right.value}))", "VQ"
                if k in ("Q", "QT") and isinstance(e.right, ast.Constant) and isinstance(e.right.value, int) and e.right.value >= 0:
                    return f"(NpQ.map (fun a => a ^ {e.right.value}) {x})", k
                raise NotRecognised("power " + ast.unparse(e))
            op = {ast.Add: "+", ast.Sub: "-", ast.Mult: "*", ast.Div: "/"}.get(type(e.op))
            if op is None:
                raise NotRecognised("operator in " + ast.unparse(e))
            (a, ka), (b, kb) = self.E(e.left), self.E(e.right)
            if op == "/" and not (ka in ("VQ", "S1", "S") and kb == "S1"):
                raise NotRecognised("division other than by a scalar")
            if ka in ("S", "S1") and kb in ("S", "S1") and "S1" in (ka, kb):
                return f"({a} {op} {b})", "S1"
            if (ka, kb) == ("VQ", "VQ"):
                return self.bind(f"NpQ.vzip (fun a b => a {op} b) {a} {b}"), "VQ"
            if ka == "VQ" and kb in ("S", "S1"):
                return f"({a}.map (fun a => a {op} {b}))", "VQ"
            if ka in ("S", "S1") and kb == "VQ":
                return f"({b}.map (fun a => {a} {op} a))", "VQ"
            if ka in ("Q", "QT") and kb == "S":
                return f"(NpQ.map (fun a => a {op} {b}) {a})", ka
            if ka == "S" and kb in ("Q", "QT"):
                return f"(NpQ.map (fun a => {a} {op} a) {b})", kb
            if ka == kb and ka in ("Q", "QT"):
                return self.bind(f"NpQ.zip (fun a b => a {op} b) {a} {b}"), ka
            raise NotRecognised("operand kinds in " + ast.unparse(e))
        if isinstance(e, ast.Call):
            f = e.func
            kw = {k.arg: k.value for k in e.keywords}
            if is_np(f, "sum") and len(e.args) == 1 and "axis" in kw and (is_const(kw["axis"], -1) or is_const(kw["axis"], 1)) \
                    and all(k == "axis" or (k == "dtype" and ast.unparse(v) == "np.float64") for k, v in kw.items()):
                x, k = self.E(e.args[0])
                if k != "Q":
                    raise NotRecognised("sum of a non-array (or of a transposed one)")
                return f"(NpQ.sumRows {x})", "V"
            if isinstance(f, ast.Attribute) and f.attr in ("max", "min") and not e.args and not kw:
                x, k = self.E(f.value)
                if k != "VQ":
                    raise NotRecognised("max/min of a non-vector")
                return self.bind(f"NpQ.v{f.attr} {x}"), "S1"
            if isinstance(f, ast.Attribute) and f.attr == "astype" and len(e.args) == 1 and ast.unparse(e.args[0]) == "np.float64" and not kw:
                x, k = self.E(f.value)
                if k not in ("VQ", "MBQ"):
                    raise NotRecognised("astype of a non-vector")
                return x, "VQ"
            if is_np(f, "ones_like") and len(e.args) == 1 and list(kw) == ["dtype"] and ast.unparse(kw["dtype"]) == "np.float64":
                x, k = self.E(e.args[0])
                if k != "VQ":
                    raise NotRecognised("ones_like of a non-vector")
                return f"({x}.map (fun _ => (1 : Rat)))", "VQ"
            if isinstance(f, ast.Attribute) and f.attr == "copy" and not e.args and not kw:
                x, k = self.E(f.value)
                if k != "VQ":
                    raise NotRecognised("copy of a non-vector")
                return x, "VQ"
            if isinstance(f, ast.Name) and f.id == "uniform" and len(e.args) == 2 and ast.unparse(e.args[0]) == "0.0" and ast.unparse(e.args[1]) == "1.0" and list(kw) == ["size"]:
                n, k = self.E(kw["size"])
                if k != "N":
                    raise NotRecognised("size of a draw")
                self.draws += 1
                return f"(draw {self.draws - 1} {n})", "VQ"
            if is_np(f, "sum") and len(e.args) == 1 and not kw and isinstance(e.args[0], ast.Name) and self.env.get(e.args[0].id) == "MB":
                return f"(NpQ.countTrue {e.args[0].id})", "N"
            if is_np(f, "isinf") and len(e.args) == 1 and not kw:
                x, k = self.E(e.args[0])
                if k == "S1":
                    return f"(NpQ.isinf {x})", "B"
                if k == "VQ":
                    return f"(NpQ.visinf {x})", "MBQ"
                raise NotRecognised("isinf operand")
            if isinstance(f, ast.Attribute) and f.attr == "astype" and len(e.args) == 1 and ast.unparse(e.args[0]) == "np.float64" and not kw \
                    and self._kind(f.value) == "MBQ":
                return self.E(f.value)[0], "VQ"
            if isinstance(f, ast.Name) and f.id in self.cfg.get("ext_scalar_fn", {}) and not e.args:
                lean, names = self.cfg["ext_scalar_fn"][f.id]
                if sorted(kw) != sorted(names):
                    raise NotRecognised(f"arguments of {f.id}")
                args = []
                for nm in names:
                    x, k = self.E(kw[nm])
                    if k != "VQ":
                        raise NotRecognised(f"argument kind of {f.id}")
                    args.append(x)
                return f"({lean} " + " ".join(args) + ")", "S1"
            if (is_np(f, "max") or is_np(f, "min")) and len(e.args) == 1 and not kw:
                x, k = self.E(e.args[0])
                if k != "VQ":
                    raise NotRecognised("max/min of a non-vector")
                return self.bind(f"NpQ.v{f.attr} {x}"), "S1"
            if is_np(f, "sum") and len(e.args) == 1 and not kw and self._kind(e.args[0]) == "VQ":
                x, k = self.E(e.args[0])
                return f"(NpQ.vsum {x})", "S1"
            if is_np(f, "mean") and len(e.args) == 1 and not kw:
                x, k = self.E(e.args[0])
                if k != "VQ":
                    raise NotRecognised("mean of a non-vector")
                return self.bind(f"NpQ.vmean {x}"), "S1"
            if is_np(f, "add", "accumulate") and len(e.args) == 1 and list(kw) == ["axis"] and is_const(kw["axis"], -1):
                x, k = self.E(e.args[0])
                if k != "Q":
                    raise NotRecognised("accumulate of a non-array")
                return f"(NpQ.accumulate {x})", "Q"
            if is_np(f, "cos") and len(e.args) == 1 and not kw and self.cfg.get("cos2pi"):
                a = e.args[0]
                if isinstance(a, ast.BinOp) and isinstance(a.op, ast.Mult) and ast.unparse(a.left) == "2 * np.pi":
                    x, k = self.E(a.right)
                    if k in ("Q", "QT"):
                        return f"(NpQ.map {self.cfg['cos2pi']} {x})", k
        raise NotRecognised("expression " + ast.unparse(e)[:60])

    @staticmethod
    def root_of(e):
        """the array an elementwise expression `M ** n` is built from (its shape is M's)"""
        if isinstance(e, ast.BinOp) and isinstance(e.op, ast.Pow) and isinstance(e.left, ast.Name):
            return e.left.id
        return e.id if isinstance(e, ast.Name) else None

    def _kind(self, e):
        """kind of an expression without emitting anything"""
        saved = (list(self.lines), self.n, self.draws)
        try:
            return self.E(e)[1]
        except NotRecognised:
            return None
        finally:
            self.lines, self.n, self.draws = saved

    def render(self):
        cfg = self.cfg
        plist = cfg.get("params", [("x", "Q")])
        if [a.arg for a in self.fn.args.args if a.arg != "self"] != [p for p, _ in plist]:
            raise NotRecognised("parameters")
        body = [st for st in self.fn.body if not (isinstance(st, ast.Expr) and isinstance(st.value, ast.Constant))]
        if cfg.get("until"):
            # prefix translation: the statements before `until`; the value handed on must still be used by the untranslated tail
            cut = next((k for k, st in enumerate(body) if ast.unparse(st) == cfg["until"]), None)
            if cut is None:
                raise NotRecognised(f"statement '{cfg['until']}' not found")
            if not (len(body) == cut + 2 and ast.unparse(body[cut + 1]) == "return " + ast.unparse(body[cut].targets[0])):
                raise NotRecognised("the tail after the translated prefix")
            body = body[:cut] + [ast.Return(value=ast.Name(id=cfg["returns"], ctx=ast.Load()))]
        if not body or not isinstance(body[-1], ast.Return) or body[-1].value is None:
            raise NotRecognised("the function does not end in a return")
        for st in body[:-1]:
            # v[mask] = <vector>
            if isinstance(st, ast.Assign) and len(st.targets) == 1 and isinstance(st.targets[0], ast.Subscript) and isinstance(st.targets[0].value, ast.Name) \
                    and isinstance(st.targets[0].slice, ast.Name) and self.env.get(st.targets[0].value.id) == "VQ" and self.env.get(st.targets[0].slice.id) == "MB":
                v, m = st.targets[0].value.id, st.targets[0].slice.id
                x, k = self.E(st.value)
                if k != "VQ":
                    raise NotRecognised("masked assignment of a non-vector")
                t = self.bind(f"NpQ.maskScatter {v} {m} {x}")
                self.lines.append(f"  let {v} := {t}")
                continue
            # if a == b or c == d: v = <literal>     (no else: v keeps its value otherwise)
            if isinstance(st, ast.If) and not st.orelse and len(st.body) == 1 and isinstance(st.test, ast.BoolOp) and isinstance(st.test.op, ast.Or) \
                    and all(isinstance(c, ast.Compare) and len(c.ops) == 1 and isinstance(c.ops[0], ast.Eq) for c in st.test.values) \
                    and isinstance(st.body[0], ast.Assign) and len(st.body[0].targets) == 1 and isinstance(st.body[0].targets[0], ast.Name) \
                    and self.env.get(st.body[0].targets[0].id) == "S1" and self.lit(st.body[0].value):
                conds = []
                for c in st.test.values:
                    (a, ka), (b, kb) = self.E(c.left), self.E(c.comparators[0])
                    if ka not in ("S", "S1") or kb not in ("S", "S1"):
                        raise NotRecognised("condition kinds")
                    conds.append(f"{a} = {b}")
                v = st.body[0].targets[0].id
                self.lines.append(f"  let {v} := if " + " ∨ ".join(conds) + f" then {self.lit(st.body[0].value)} else {v}")
                continue
            # if a == b: v = E1  else: v = E2   (two scalars compared; both branches assign the same name; neither branch can fail)
            if isinstance(st, ast.If) and len(st.body) == 1 and len(st.orelse) == 1 and isinstance(st.test, ast.Compare) and len(st.test.ops) == 1 \
                    and isinstance(st.test.ops[0], ast.Eq) and all(isinstance(b, ast.Assign) and len(b.targets) == 1 and isinstance(b.targets[0], ast.Name)
                                                                    for b in (st.body[0], st.orelse[0])) and st.body[0].targets[0].id == st.orelse[0].targets[0].id:
                (a, ka), (b, kb) = self.E(st.test.left), self.E(st.test.comparators[0])
                if (ka, kb) != ("S1", "S1"):
                    raise NotRecognised("condition kinds")
                n0 = len(self.lines)
                (x1, k1), (x2, k2) = self.E(st.body[0].value), self.E(st.orelse[0].value)
                if len(self.lines) != n0 or k1 != k2 or k1 != "VQ":
                    raise NotRecognised("branches of the conditional")
                v = st.body[0].targets[0].id
                self.lines.append(f"  let {v} := if {a} = {b} then {x1} else {x2}")
                self.env[v] = k1
                continue
            if not (isinstance(st, ast.Assign) and len(st.targets) == 1 and isinstance(st.targets[0], ast.Name)):
                raise NotRecognised("statement " + ast.unparse(st)[:60])
            x, k = self.E(st.value)
            if self.cfg.get("ackley") and k in ("S", "TWOPI"):
                if k == "S":
                    # the lambdas of the emitted terms bind `a` and `b`: a Python scalar gets a name they cannot capture
                    self.rename[st.targets[0].id] = "py_" + st.targets[0].id
                    self.lines.append(f"  let py_{st.targets[0].id} : Rat := {x}")
                self.env[st.targets[0].id] = "S1" if k == "S" else k
                continue
            if k in ("SHAPE", "ROWAXIS"):
                self.sqi_of[st.targets[0].id] = x
                self.env[st.targets[0].id] = k
                continue
            if k in ("IDX1", "DIM"):
                self.sqi_of[st.targets[0].id] = x
                self.env[st.targets[0].id] = k
                continue
            if k == "SQI":
                # the root vector is only ever used inside np.cos(M / sqrt_i): remember which array it belongs to, emit nothing
                self.sqi_of[st.targets[0].id] = x
                self.env[st.targets[0].id] = k
                continue
            if k not in ("Q", "QT", "VQ", "S1", "MB", "N") and not (k == "V" and self.cfg.get("cos_sqrt_idx")):
                raise NotRecognised("assigned kind")
            self.lines.append(f"  let {st.targets[0].id} := {x}")
            self.env[st.targets[0].id] = k
        x, k = self.E(body[-1].value)
        if k != cfg.get("ret", "V"):
            raise NotRecognised("returned kind")
        self.lines.append(f"  return {x}")
        lean_k = {"Q": "NpQ.Mat", "VQ": "List Rat", "N": "Nat", "S1": "Rat"}
        params = ([f"({cfg['cos2pi']} : Rat → Rat)"] if cfg.get("cos2pi") else []) + ([f"({cfg['cos_sqrt_idx']} : Nat → Rat → Rat)"] if cfg.get("cos_sqrt_idx") else []) + ([f"({cfg['cond_weights']} : Nat → Nat → Rat)"] if cfg.get("cond_weights") else []) + (["(expo sqrtf cs : Rat → Rat)"] if cfg.get("ackley") else []) + (["(sn2 : Rat → Rat)"] if cfg.get("scaffer") else []) + (["(f : NpQ.Mat → Option (List Rat))"] if cfg.get("shifted_call") else []) + (["(draw : Nat → Nat → List Rat)"] if self.draws else []) \
            + [f"(self{a} : {lean_k[k_]})" for a, k_ in cfg.get("self_attrs", [])] + [f"({p} : {lean_k[k_]})" for p, k_ in plist]
        cls_txt = (cfg["cls"] + ".") if cfg["cls"] else ""
        ret_ty = "Rat" if cfg.get("ret") == "S1" else "NpQ.Mat" if cfg.get("ret") == "Q" else "List Rat"
        if cfg.get("ret") == "VQ" and k != "VQ":
            raise NotRecognised("returned kind")
        return ("/- GENERATED by harness/extract/np2lean.py from src/thefittest/" + cfg["file"] + f" ({cls_txt}{cfg['func']}) — do not edit -/\n"
                + "import TFV.Model.NpQ\n" + ("import TFV.Generated.Src.Bench_Shifted_shift\n" if cfg.get("shifted_call") else "") + "namespace TFV.Generated.Src\nopen TFV\n\n"
                + f"def {cfg['name']} " + " ".join(params) + f" : Option ({ret_ty}) := do\n" + "\n".join(self.lines) + "\n\nend TFV.Generated.Src\n")


class TrQM(TrQ):
    """branching mode: nested `if` with early `return`, names re-assigned inside branches (Lean `do` with `let mut`)"""

    def cond(self, t):
        if isinstance(t, ast.Call) and isinstance(t.func, ast.Name) and t.func.id == "len" and len(t.args) == 1:
            x, k = self.E(t.args[0])
            if k != "VQ":
                raise NotRecognised("len of a non-vector")
            return f"{x}.length ≠ 0"
        if isinstance(t, ast.BoolOp) and isinstance(t.op, ast.Or):
            return " ∨ ".join(self.cond(v) for v in t.values)
        if isinstance(t, ast.Compare) and len(t.ops) == 1 and isinstance(t.ops[0], ast.Eq) and isinstance(t.left, ast.Name) and self.env.get(t.left.id) == "N" \
                and isinstance(t.comparators[0], ast.Constant) and isinstance(t.comparators[0].value, int):
            return f"{t.left.id} = {t.comparators[0].value}"
        if isinstance(t, ast.Compare) and len(t.ops) == 1 and isinstance(t.ops[0], (ast.Gt, ast.Lt, ast.Eq, ast.LtE)):
            (a, ka), (b, kb) = self.E(t.left), self.E(t.comparators[0])
            if ka not in ("S", "S1") or kb not in ("S", "S1"):
                raise NotRecognised("condition kinds")
            return f"{a} {'>' if isinstance(t.ops[0], ast.Gt) else '<' if isinstance(t.ops[0], ast.Lt) else '≤' if isinstance(t.ops[0], ast.LtE) else '='} {b}"
        x, k = self.E(t)
        if k == "B":
            return f"{x} = true"
        raise NotRecognised("condition " + ast.unparse(t)[:40])

    def assign_chain(self, st):
        """`if c1: v = e1  elif c2: v = e2 ...` with NO final else and `v` not yet bound -> (v, [(c1, e1), ...]), else None"""
        arms, cur, v = [], st, None
        while isinstance(cur, ast.If):
            if not (len(cur.body) == 1 and isinstance(cur.body[0], ast.Assign) and len(cur.body[0].targets) == 1 and isinstance(cur.body[0].targets[0], ast.Name)):
                return None
            name = cur.body[0].targets[0].id
            if v is not None and name != v:
                return None
            v = name
            arms.append((cur.test, cur.body[0].value))
            if not cur.orelse:
                break
            if len(cur.orelse) != 1 or not isinstance(cur.orelse[0], ast.If):
                return None
            cur = cur.orelse[0]
        if v is None or v in self.declared or len(arms) < 2:
            return None
        return v, arms

    def block(self, stmts, ind):
        for st in stmts:
            self.ind = ind
            if isinstance(st, ast.Expr) and isinstance(st.value, ast.Constant):
                continue
            if isinstance(st, ast.Return) and st.value is not None:
                x, k = self.E(st.value)
                if k != self.cfg["ret"] and not (k == "S" and self.cfg["ret"] == "S1") and not (k == "QC" and self.cfg["ret"] == "Q"):
                    raise NotRecognised("returned kind")
                self.lines.append(f"{ind}return {x}")
                continue
            if isinstance(st, ast.Assign) and len(st.targets) == 1 and isinstance(st.targets[0], ast.Name):
                x, k = self.E(st.value)
                if k == "VQP":          # a partial vector value (the new table): bind it
                    x, k = self.bind(x), "VQ"
                v = st.targets[0].id
                if v in self.declared:
                    if self.env[v] != k and not (self.env[v] == "S1" and k == "S"):
                        raise NotRecognised(f"{v} changes kind")
                    self.lines.append(f"{ind}{v} := {x}")
                else:
                    self.lines.append(f"{ind}let mut {v} := {x}")     # (a name first assigned inside a branch is local to that branch)
                    self.declared.add(v)
                    self.env[v] = k
                continue
            if isinstance(st, ast.AnnAssign) and st.value is None:
                continue
            if self.cfg.get("matrix") and isinstance(st, ast.For) and not st.orelse and isinstance(st.target, ast.Name) and len(st.body) == 1:
                i = st.target.id
                it, b = ast.unparse(st.iter), st.body[0]
                # for i in range(A.shape[0]): R[i] = np.max(A[i])        (R a zero column with one entry per row of A)
                if isinstance(b, ast.Assign) and it.startswith("range(") and it.endswith(".shape[0])") and self.env.get(it[6:-10]) == "Q":
                    a = it[6:-10]
                    tgt = b.targets[0]
                    if isinstance(tgt, ast.Subscript) and isinstance(tgt.value, ast.Name) and self.env.get(tgt.value.id) == "QC" and ast.unparse(tgt.slice) == i \
                            and ast.unparse(b.value) == f"np.max({a}[{i}])" and tgt.value.id in self.declared:
                        self.ind = ind
                        t = self.bind(f"NpQ.rowMaxCol {tgt.value.id} {a}")
                        self.lines.append(f"{ind}{tgt.value.id} := {t}")
                        continue
                # for j in range(v.shape[0]): if v[j] == 0: v[j] = 1
                if isinstance(b, ast.If) and not b.orelse and it.startswith("range(") and it.endswith(".shape[0])") and self.env.get(it[6:-10]) == "VQ":
                    v = it[6:-10]
                    if ast.unparse(b.test) == f"{v}[{i}] == 0" and len(b.body) == 1 and ast.unparse(b.body[0]) == f"{v}[{i}] = 1" and v in self.declared:
                        self.lines.append(f"{ind}{v} := NpQ.zeroToOne {v}")
                        continue
                raise NotRecognised("loop " + ast.unparse(st)[:60])
            # d[key] += c   (a table read as its value vector, the key as its position)
            if isinstance(st, ast.AugAssign) and isinstance(st.op, ast.Add) and isinstance(st.target, ast.Subscript) and isinstance(st.target.value, ast.Name) \
                    and isinstance(st.target.slice, ast.Name) and self.env.get(st.target.value.id) == "DQ" and self.env.get(st.target.slice.id) == "IDX":
                x, k = self.E(st.value)
                if k not in ("S", "S1"):
                    raise NotRecognised("increment kind")
                d = st.target.value.id
                t = self.bind(f"NpQ.addAt {d} {st.target.slice.id} {x}")
                if d not in self.declared:
                    raise NotRecognised("table not declared mutable")
                self.lines.append(f"{ind}{d} := {t}")
                continue
            # v -= c
            if isinstance(st, ast.AugAssign) and isinstance(st.op, ast.Sub) and isinstance(st.target, ast.Name) and self.env.get(st.target.id) == "VQ":
                x, k = self.E(st.value)
                if k not in ("S", "S1") or st.target.id not in self.declared:
                    raise NotRecognised("decrement kind")
                self.lines.append(f"{ind}{st.target.id} := {st.target.id}.map (fun a => a - {x})")
                continue
            # value = draw; while <bad value>: value = draw   (the same draw expression; at top level, `value` declared just before)
            if isinstance(st, ast.While) and self.cfg.get("redraw_loop") and not st.orelse and len(st.body) == 1 and isinstance(st.body[0], ast.Assign) \
                    and len(st.body[0].targets) == 1 and isinstance(st.body[0].targets[0], ast.Name) and ind == "  ":
                v = st.body[0].targets[0].id
                if v not in self.declared or self.env[v] != "S1" or self.loop_def is not None:
                    raise NotRecognised("redraw loop variable")
                n0, d0 = len(self.lines), self.draws
                c = self.cond(st.test)
                x, k = self.E(st.body[0].value)
                if len(self.lines) != n0 or self.draws != d0 + 1 or k != "S1" or self.draws != 2:
                    raise NotRecognised("redraw loop body")
                # the draw inside the loop carries the running ordinal `k`
                x = x.replace(f" {d0})", " k)")
                self.loop_def = (v, c, x)
                self.lines.append(f"{ind}let t_loop ← {self.cfg['name']}.loop LOOPARGS fuel {v} 1")
                self.lines.append(f"{ind}{v} := t_loop")
                continue
            if isinstance(st, ast.If) and isinstance(st.test, ast.Compare) and isinstance(st.test.left, ast.Name) and len(st.test.ops) == 1 \
                    and isinstance(st.test.ops[0], ast.Is) and is_const(st.test.comparators[0], None) and st.test.left.id in self.cfg.get("none_params", {}):
                # `if p is None: ... else: ...` for a parameter whose None-ness is fixed by this entry: only that branch is translated
                self.block(st.body if self.cfg["none_params"][st.test.left.id] else st.orelse, ind)
                continue
            chain = self.assign_chain(st)
            if chain is not None:
                v, arms = chain
                self.lines.append(f"{ind}let mut {v} ← (do")
                depth = ind + "  "
                kind = None
                for test, val in arms:
                    self.lines.append(f"{depth}if {self.cond(test)} then")
                    self.ind = depth + "  "
                    x, k = self.E(val)
                    kind = kind or k
                    if k != kind:
                        raise NotRecognised("branches of different kinds")
                    self.lines.append(f"{depth}  return {x}")
                    self.lines.append(f"{depth}else")
                    depth += "  "
                self.lines.append(f"{depth}none)")
                self.declared.add(v)
                self.env[v] = kind
                continue
            if isinstance(st, ast.If):
                c = self.cond(st.test)
                self.lines.append(f"{ind}if {c} then")
                for branch, kw_ in ((st.body, None), (st.orelse, "else")):
                    if not branch:
                        continue
                    if kw_:
                        self.lines.append(f"{ind}{kw_}")
                    saved = (set(self.declared), dict(self.env))
                    self.block(branch, ind + "  ")
                    self.declared, self.env = saved[0], {k_: v_ for k_, v_ in self.env.items() if k_ in saved[1]}
                continue
            raise NotRecognised("statement " + ast.unparse(st)[:60])

    def render(self):
        cfg = self.cfg
        plist = cfg["params"]
        if [a.arg for a in self.fn.args.args if a.arg != "self"] != cfg.get("py_params", [p for p, _ in plist]):
            raise NotRecognised("parameters")
        assigned = {t.id for st in ast.walk(self.fn) if isinstance(st, ast.Assign) for t in st.targets if isinstance(t, ast.Name)}
        assigned |= {st.target.value.id for st in ast.walk(self.fn) if isinstance(st, ast.AugAssign) and isinstance(st.target, ast.Subscript)
                     and isinstance(st.target.value, ast.Name)}
        self.declared = set()
        self.loop_def = None
        for p, _ in plist:
            if p in assigned:
                self.lines.append(f"  let mut {p} := {p}")
                self.declared.add(p)
        body = list(self.fn.body)
        if not body or not isinstance(body[-1], ast.Return):
            raise NotRecognised("the function does not end in a return")
        self.block(body, "  ")
        lean_k = {"VQ": "List Rat", "S1": "Rat", "DQ": "List Rat", "IDX": "Nat", "N": "Nat", "Q": "NpQ.Mat"}
        fnp = [f"({lean} : " + " → ".join(["List Rat"] * len(names)) + " → Rat)" for lean, names in cfg.get("ext_scalar_fn", {}).values()]
        if cfg.get("cauchy"):
            fnp.append("(cauchy : Rat → Rat → Nat → Rat)")
        if cfg.get("sampler"):
            fnp.append("(sampler : List Rat → Nat → Bool → List Nat)")
        if cfg.get("expo"):
            fnp.append("(expo : Rat → Rat)")
        if cfg.get("tanhf"):
            fnp.append("(tanhf : Rat → Rat)")
        params = fnp + [f"(self{a} : {lean_k[k_]})" for a, k_ in cfg.get("self_attrs", [])] + [f"({p} : {lean_k[k_]})" for p, k_ in plist]
        loop_txt = ""
        if self.loop_def is not None:
            v, c, x = self.loop_def
            names = " ".join(q.split(" : ")[0].lstrip("(") for q in params)
            loop_txt = (f"def {cfg['name']}.loop " + " ".join(params) + " : Nat → Rat → Nat → Option Rat\n"
                        f"  | 0, _, _ => none\n  | fuel + 1, {v}, k => if {c} then {cfg['name']}.loop {names} fuel {x} (k + 1) else some {v}\n\n")
            self.lines = [l.replace("LOOPARGS", names) for l in self.lines]
            params = params + ["(fuel : Nat)"]
        return ("/- GENERATED by harness/extract/np2lean.py from src/thefittest/" + cfg["file"] + f" ({(cfg['cls'] + '.') if cfg['cls'] else ''}{cfg['func']}) — do not edit -/\n"
                + "import TFV.Model.NpQ\n" + "".join(f"import TFV.Generated.Src.{v.split()[0]}\n" for v in cfg.get("calls_q", {}).values()) + "namespace TFV.Generated.Src\nopen TFV\n\n" + loop_txt
                + f"def {cfg['name']} " + " ".join(params) + f" : Option {'(List Rat)' if cfg['ret'] == 'VQ' else '(List Nat)' if cfg['ret'] == 'VN' else 'NpQ.Mat' if cfg['ret'] == 'Q' else 'Rat'} := do\n" + "\n".join(self.lines) + "\n\nend TFV.Generated.Src\n")


def translate(repo: Path, cfg: dict) -> str:
    src = (repo / "src" / "thefittest" / cfg["file"]).read_text()
    fn = find_method(ast.parse(src), cfg["cls"], cfg["func"])
    if cfg in IDX_KERNELS:
        return translate_pair_indexes(fn, cfg)
    return (TrQM if cfg.get("branching") else TrQ if cfg in NPQ_KERNELS else Tr)(fn, cfg).render()


def main(repo="/repo", out="/verif/lean/TFV/Generated/Src", only=None):
    repo, out = Path(repo), Path(out)
    out.mkdir(parents=True, exist_ok=True)
    status = {}
    for cfg in NP_KERNELS + NPQ_KERNELS + IDX_KERNELS:
        if only and cfg["name"] not in only:
            continue
        target = out / f"{cfg['name']}.lean"
        try:
            text = translate(repo, cfg)
            status[cfg["name"]] = "ok"
        except NotRecognised as e:
            text = (f"/- GENERATED: translation FAILED ({e}) -/\nimport TFV.Model.Np\nimport TFV.Model.NpQ\nnamespace TFV.Generated.Src\n"
                    f"/-- the source of `{cfg['func']}` is outside the translatable subset: {e} -/\n"
                    f"def {cfg['name']}.notRecognised : Unit := ()\nend TFV.Generated.Src\n")
            status[cfg["name"]] = f"not recognised: {e}"
        if not target.exists() or target.read_text() != text:
            target.write_text(text)
    return status


if __name__ == "__main__":
    for k, v in main(*(sys.argv[1:3])).items():
        print(k, "->", v)
