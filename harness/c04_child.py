"""child process of the C04 check: one seeded GP fit, fingerprint on stdout (run under different PYTHONHASHSEED values)"""
import json
import sys

import numpy as np


def main():
    sys.path.insert(0, sys.argv[1])
    import estim as E
    E.install_validate_data()
    from thefittest.regressors import GeneticProgrammingRegressor
    from thefittest.optimizers import SelfCGP
    rs = np.random.RandomState(5)
    X = rs.uniform(-2, 2, size=(24, 2))
    y = X[:, 0] * X[:, 1] + np.sin(X[:, 0])
    out = {}
    for name, opt in (("GeneticProgramming", None), ("SelfCGP", SelfCGP)):
        kw = dict(n_iter=4, pop_size=12, functional_set_names=("cos", "sin", "add", "sub", "mul", "div", "abs"), optimizer_args={"keep_history": True}, random_state=3)
        if opt is not None:
            kw["optimizer"] = opt
        e = GeneticProgrammingRegressor(**kw)
        e.fit(X, y)
        st = e.get_stats()
        out[name] = {"tree": str(e.get_tree()), "fitness": [[float(v) for v in f] for f in st["fitness"]], "pop0": [str(t) for t in st["population_g"][0]]}
    print("FINGERPRINT " + json.dumps(out))


if __name__ == "__main__":
    main()
