"""child process of the C04 check: one seeded GP fit, fingerprint on stdout (run under different PYTHONHASHSEED values)"""
import json
import sys

import numpy as np


def main():
    sys.path.insert(0, sys.argv[1])
    import estim as E
    E.install_validate_data()
    from thefittest.regressors import GeneticProgrammingRegressor
    from thefittest.optimizers import SelfCGP
    rs = np.random.RandomState(5)
    X = rs.uniform(-2, 2, size=(24, 2))
    y = X[:, 0] * X[:, 1] + np.sin(X[:, 0])
    out = {}
    for name, opt in (("GeneticProgramming", None), ("SelfCGP", SelfCGP)):
        kw = dict(n_iter=4, pop_size=12, functional_set_names=("cos", "sin", "add", "sub", "mul", "div", "abs"), optimizer_args={"keep_history": True}, random_state=3)
        if opt is not None:
            kw["optimizer"] = opt
        e = GeneticProgrammingRegressor(**kw)
        e.fit(X, y)
        st = e.get_stats()
        out[name] = {"tree": str(e.get_tree()), "fitness": [[float(v) for v in f] for f in st["fitness"]], "pop0": [str(t) for t in st["population_g"][0]]}
    # network estimators: optionally AFTER other, differently configured nets with the same wiring were evaluated in this process
    import os
    from thefittest.regressors import MLPEARegressor, GeneticProgrammingNeuralNetRegressor
    rs2 = np.random.RandomState(11)
    X2 = rs2.uniform(-2, 2, size=(40, 3))
    y2 = X2[:, 0] * X2[:, 1] - np.cos(X2[:, 2])
    if os.environ.get("C04_PRELUDE") == "1":
        MLPEARegressor(n_iter=2, pop_size=6, hidden_layers=(3,), activation="tanh", random_state=9).fit(X2, y2)
        GeneticProgrammingNeuralNetRegressor(n_iter=3, pop_size=8, optimizer_args={"selections": ("rank", "tournament_3")},
                                             weights_optimizer_args={"iters": 2, "pop_size": 4}, random_state=99).fit(X2, y2)
    m = MLPEARegressor(n_iter=3, pop_size=6, hidden_layers=(3,), activation="relu", weights_optimizer_args={"keep_history": True}, random_state=5)
    m.fit(X2, y2)
    out["MLPEARegressor"] = {"tree": str([float(w) for w in m.get_net()._weights]), "fitness": [[float(v) for v in f] for f in m.get_stats()["fitness"]],
                             "pop0": [str(float(v)) for v in m.predict(X2)[:5]]}
    g = GeneticProgrammingNeuralNetRegressor(n_iter=3, pop_size=8, optimizer_args={"selections": ("rank", "tournament_3"), "keep_history": True},
                                             weights_optimizer_args={"iters": 2, "pop_size": 4}, random_state=7)
    g.fit(X2, y2)
    out["GPNNRegressor"] = {"tree": str(g.get_tree()), "fitness": [[float(v) for v in f] for f in g.get_stats()["fitness"]],
                            "pop0": [str(float(v)) for v in g.predict(X2)[:5]]}
    print("FINGERPRINT " + json.dumps(out))


if __name__ == "__main__":
    main()
