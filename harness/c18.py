"""C18 — estimators predict with the model they fitted, scikit-learn style.

All six estimators (with a harness-side stand-in for the scikit-learn validation method this
scikit-learn version no longer provides), tiny budgets, every weight / structure optimizer and
several functional sets, string and non-contiguous integer labels.
S3: label coding and arg-max prediction against TFV.Model.Estim (driver), predict = independent
evaluation of the stored tree / net (the models of C09 / C12 are tied by their own checks).
S4: training error of the predictions vs reported best fitness (GP, MLPEA); predict_proba rows;
repeated / interleaved predict; wrong feature count rejected; same seed, same model; inputs and
constructor parameters unchanged; n_iter / pop_size honoured; reserved arguments rejected.
"""
from __future__ import annotations

import copy
import json
import math
import random as pyrandom

import numpy as np

import common as C
import estim as E

RESERVED_GP = ["fitness_function", "fitness_function_args", "genotype_to_phenotype", "genotype_to_phenotype_args", "init_population", "minimization", "iters", "pop_size"]
RESERVED_W = ["fitness_function", "fitness_function_args", "left_border", "right_border", "num_variables", "str_len", "genotype_to_phenotype",
              "genotype_to_phenotype_args", "minimization", "init_population"]


def sigmoid(v):
    v = np.clip(v, -500, 500)
    return 1 / (1 + np.exp(-v))


def main(tier: str) -> int:
    chk = C.Check("C18", tier)
    chk.lean()
    E.install_validate_data()
    from thefittest.classifiers import GeneticProgrammingClassifier, MLPEAClassifier, GeneticProgrammingNeuralNetClassifier
    from thefittest.regressors import GeneticProgrammingRegressor, MLPEARegressor, GeneticProgrammingNeuralNetRegressor
    import thefittest.optimizers as O
    from thefittest.utils._metrics import root_mean_square_error, categorical_crossentropy
    from thefittest.utils.random import numba_seed, random_sample
    rng = pyrandom.Random(chk.seed)
    ops, ctx = [], []
    seed = chk.seed + 21
    # "same seed, same model" also across interpreter starts: the same seeded fits in fresh processes with different string-hash salts
    # (started here, collected at the end)
    import os as _os
    import subprocess
    import sys as _sys
    children = []
    for hs in ("0", "7", "31337"):
        env = dict(_os.environ, PYTHONHASHSEED=hs, PYTHONPATH=str(C.REPO / "src") + ":" + str(C.VERIF / "harness"))
        children.append((hs, subprocess.Popen([_sys.executable, str(C.VERIF / "harness/c18_child.py"), str(C.VERIF / "harness")], env=env,
                                              stdout=subprocess.PIPE, stderr=subprocess.PIPE, text=True)))

    label_sets = [("b", "yes"), (7, -3), ("zz", "m", "a"), (10, 2, 300)]
    wopts = [O.SHADE, O.SHAGA, O.jDE, O.DifferentialEvolution, O.GeneticAlgorithm, O.SelfCGA]
    configs = []
    for fs in (("add", "mul", "sub"), ("cos", "sin", "add", "sub", "mul", "div"), ("add", "div", "exp", "abs")):
        for opt in (O.SelfCGP, O.GeneticProgramming):
            configs.append(("GPRegressor", lambda fs=fs, opt=opt: GeneticProgrammingRegressor(n_iter=3, pop_size=8, functional_set_names=fs, optimizer=opt, optimizer_args={"keep_history": True}, random_state=seed), "reg", None))
            configs.append(("GPClassifier", lambda fs=fs, opt=opt: GeneticProgrammingClassifier(n_iter=3, pop_size=8, functional_set_names=fs, optimizer=opt, optimizer_args={"keep_history": True}, random_state=seed), "clf", 2))
    variants = (((2,), True), ((), True), ((3, 2), False))
    for wi, wo in enumerate(wopts):
        for hl, off in (variants if tier == "thorough" else (variants[wi % 3],)):
            configs.append(("MLPEARegressor", lambda wo=wo, hl=hl, off=off: MLPEARegressor(n_iter=3, pop_size=8, hidden_layers=hl, offset=off, weights_optimizer=wo, weights_optimizer_args={"keep_history": True}, random_state=seed), "reg", None))
            configs.append(("MLPEAClassifier", lambda wo=wo, hl=hl, off=off: MLPEAClassifier(n_iter=3, pop_size=8, hidden_layers=hl, offset=off, weights_optimizer=wo, weights_optimizer_args={"keep_history": True}, random_state=seed), "clf", 3))
    # degenerate population sizes that the weight optimizers accept: the estimator must train with exactly that many individuals
    for wo, ps in ((O.SHADE, 1), (O.SHADE, 2), (O.SHADE, 3), (O.DifferentialEvolution, 3), (O.jDE, 3), (O.SHAGA, 2)):
        configs.append(("MLPEARegressor", lambda wo=wo, ps=ps: MLPEARegressor(n_iter=3, pop_size=ps, hidden_layers=(2,), weights_optimizer=wo, weights_optimizer_args={"keep_history": True}, random_state=seed), "reg", None))
    configs.append(("MLPEAClassifier", lambda: MLPEAClassifier(n_iter=3, pop_size=3, hidden_layers=(2,), weights_optimizer=O.SHADE, weights_optimizer_args={"keep_history": True}, random_state=seed), "clf", 3))
    # generational weight optimizers WITHOUT elitism: the best net may be found early and lost again
    for rep in range(6 if tier == "quick" else 30):
        for wo in (O.GeneticAlgorithm, O.SelfCGA):
            configs.append(("MLPEARegressor", lambda wo=wo, rep=rep: MLPEARegressor(n_iter=5, pop_size=8, hidden_layers=(2,), weights_optimizer=wo,
                            weights_optimizer_args={"keep_history": True, "elitism": False}, random_state=seed + 100 + rep), "reg", None))
    # GPNN with weights_optimizer_args that omit 'iters' (the estimator fills in its default on a copy)
    configs.append(("GPNNRegressor", lambda: GeneticProgrammingNeuralNetRegressor(n_iter=2, pop_size=4, optimizer=O.GeneticProgramming,
                    optimizer_args={"keep_history": True, "selection": "tournament_3"}, weights_optimizer=O.SHADE, weights_optimizer_args={"pop_size": 4},
                    random_state=seed), "reg", None))
    for wo in (O.SHADE, O.SHAGA):
        for opt in (O.SelfCGP, O.GeneticProgramming):
            wa = {"iters": 3, "pop_size": 6}
            oa = {"keep_history": True, "selections": ("rank", "tournament_3")} if opt is O.SelfCGP else {"keep_history": True, "selection": "tournament_3"}
            configs.append(("GPNNRegressor", lambda wo=wo, opt=opt, oa=oa, wa=wa: GeneticProgrammingNeuralNetRegressor(n_iter=2, pop_size=4, optimizer=opt, optimizer_args=dict(oa), weights_optimizer=wo, weights_optimizer_args=dict(wa), random_state=seed), "reg", None))
            configs.append(("GPNNClassifier", lambda wo=wo, opt=opt, oa=oa, wa=wa: GeneticProgrammingNeuralNetClassifier(n_iter=2, pop_size=4, optimizer=opt, optimizer_args=dict(oa), weights_optimizer=wo, weights_optimizer_args=dict(wa), random_state=seed), "clf", 3))

    turn = {}
    held = []      # fitted classifiers with what they first predicted: asked again after every other estimator has been fitted
    for ci, (name, make, kind, nlab) in enumerate(configs):
        d_feat = 2 + ci % 2
        if kind == "reg":
            X, y = E.data_regression(n=16, d=d_feat, seed=seed + ci)
            labels = None
        else:
            # every classifier class sees every label set of its size (strings of different lengths as well as numbers)
            turn[name] = turn.get(name, -1) + 1
            labels = [ls for ls in label_sets if len(ls) == (2 if nlab == 2 else 3)][turn[name] % 2]
            X, y = E.data_classification(n=21, d=d_feat, labels=labels, seed=seed + ci)
        X0, y0 = X.copy(), y.copy()
        est = make()
        params0 = copy.deepcopy({k: v for k, v in est.get_params().items()})
        d = {"estimator": name, "config": ci, "n_features": d_feat, "labels": None if labels is None else [str(l) for l in labels]}
        try:
            est.fit(X, y)
        except Exception as e:
            chk.fail("fit raises", {**d, "error": repr(e)[:300]}, {"estimator": name, "clause": "raises"})
            continue
        chk.count(name)
        chk.case((name, ci), sample=d if len(chk.samples) < 4 else None)
        feats = {"estimator": name}
        if not (np.array_equal(X, X0) and np.array_equal(y, y0)):
            chk.fail("fit modified its inputs", d, {**feats, "clause": "inputs"})
        p1 = {k: v for k, v in est.get_params().items()}
        if any(repr(p1[k]) != repr(params0[k]) for k in params0):
            chk.fail("fit modified the constructor parameters", d, {**feats, "clause": "params"})
        # ---- predict = independent evaluation of the stored model
        Xn = np.vstack([X[:5], X[:2] * 0.5])
        pred = est.predict(Xn)
        if kind == "clf" and np.shape(pred) == (len(Xn),):
            held.append((name, d, est, Xn.copy(), [str(v) for v in pred]))
        if np.shape(pred) != (len(Xn),):
            chk.fail("predict does not return one value per row of X", {**d, "rows": len(Xn), "shape": list(np.shape(pred)),
                                                                         "model": str(est.get_tree()) if hasattr(est, "tree_") else "net"}, {**feats, "clause": "predict_shape"})
            continue
        Xb = np.hstack([Xn, np.ones((len(Xn), 1))]) if getattr(est, "offset", False) else Xn
        with np.errstate(all="ignore"):
            if name.startswith("GP") and not name.startswith("GPNN"):
                tree = est.get_tree()
                raw = tree.set_terminals(**{f"x{i}": Xn[:, i] for i in range(Xn.shape[1])})() * np.ones(len(Xn))
                rows = np.array([float(tree.set_terminals(**{f"x{i}": Xn[r, i] for i in range(Xn.shape[1])})()) for r in range(len(Xn))])
                if not np.allclose(raw, rows, rtol=1e-12, atol=1e-300, equal_nan=True):
                    chk.fail("the stored tree evaluated on a batch differs from per-sample evaluation", d, {**feats, "clause": "batch"})
                if kind == "reg":
                    indep = rows
                else:
                    pr = sigmoid(rows)
                    proba_ref = np.vstack([1 - pr, pr]).T
            else:
                net = est.get_net()
                out = np.array([net.copy().forward(Xb[r:r + 1])[0][0] for r in range(len(Xb))])
                if kind == "reg":
                    indep = out[:, 0]
                else:
                    proba_ref = out
        if kind == "reg":
            if not np.allclose(np.asarray(pred, dtype=np.float64), indep, rtol=1e-9, atol=1e-12, equal_nan=True):
                chk.fail("predict differs from evaluating the stored tree / network on X", {**d, "predict": np.asarray(pred)[:3].tolist(), "independent": indep[:3].tolist()}, {**feats, "clause": "predict"})
        else:
            proba = est.predict_proba(Xn)
            if not np.allclose(proba, proba_ref, rtol=1e-9, atol=1e-12):
                chk.fail("predict_proba differs from evaluating the stored tree / network on X", d, {**feats, "clause": "predict"})
            if np.any(proba < 0) or not np.allclose(proba.sum(axis=1), 1.0, atol=1e-9):
                chk.fail("predict_proba rows are not non-negative summing to 1", {**d, "row_sums": proba.sum(axis=1)[:3].tolist()}, {**feats, "clause": "proba"})
            # one batch mixing rows of very different magnitude (un-scaled features, outliers): every row is still a
            # distribution and equals what the same row gives when predicted alone
            Xmix = np.vstack([Xn[:3], Xn[:3] * 1e4, -Xn[:2] * 3e3])
            with np.errstate(all="ignore"):
                pm = est.predict_proba(Xmix)
                alone = np.vstack([est.predict_proba(Xmix[r:r + 1]) for r in range(len(Xmix))])
            chk.count("mixed_magnitude_batch")
            if np.any(~np.isfinite(pm)) or np.any(pm < 0) or not np.allclose(pm.sum(axis=1), 1.0, atol=1e-9) or not np.allclose(pm, alone, rtol=1e-9, atol=1e-12):
                badr = int(np.argmax(np.abs(pm.sum(axis=1) - 1.0) + np.abs(pm - alone).sum(axis=1)))
                chk.fail("predict_proba rows of a batch mixing magnitudes are not distributions equal to the per-row prediction",
                         {**d, "row": Xmix[badr].tolist(), "in_batch": pm[badr].tolist(), "alone": alone[badr].tolist()}, {**feats, "clause": "proba_batch"})
            classes = sorted(set(y.tolist()))
            exp = [classes[int(np.argmax(r))] for r in proba]
            if [str(v) for v in pred] != [str(v) for v in exp] or [str(c) for c in est.classes_] != [str(c) for c in classes]:
                chk.fail("predict does not return the original class label of the arg-max column", {**d, "predict": [str(v) for v in pred[:4]], "expected": [str(v) for v in exp[:4]]}, {**feats, "clause": "labels"})
            # S3: the same through the model (labels as order keys = rank among the sorted labels of ALL seen values)
            keys = {c: i * 3 + 1 for i, c in enumerate(classes)}
            ops.append({"op": "est_predict", "y": [keys[v] for v in y.tolist()], "rows": [[C.float_key(float(v)) for v in r] for r in proba]})
            ctx.append(("predict_label:" + name, d, [keys[classes[int(np.argmax(r))]] for r in proba]))
        # ---- training error of the predictions = reported best fitness (GP, MLPEA)
        st = est.get_stats()
        best = max(float(v) for v in st["max_fitness"])
        if not name.startswith("GPNN"):
            tr = est.predict(X)
            if kind == "reg":
                err = float(root_mean_square_error(np.asarray(y, dtype=np.float64), np.asarray(tr, dtype=np.float64)))
            else:
                classes = sorted(set(y.tolist()))
                onehot = np.array([[1.0 if v == c else 0.0 for c in classes] for v in y.tolist()])
                err = float(categorical_crossentropy(onehot, est.predict_proba(X)))
            if not (C.close(-best, err, 1e-9, 1e-12) or (math.isinf(err) and math.isinf(best))):
                chk.fail("the error of the training-set predictions differs from the reported best training fitness", {**d, "training_error": err, "reported_best": -best}, {**feats, "clause": "fitness"})
        # ---- n_iter and pop_size honoured
        n_iter, pop = est.n_iter, est.pop_size
        early_ok = name.startswith("GPNN")      # (the GPNN estimators spend part of the budget on the weights; only the bound applies)
        if len(st["fitness"]) > n_iter or (not early_ok and len(st["fitness"]) != n_iter) or any(len(f) != pop for f in st["fitness"]):
            chk.fail("fit does not honour n_iter / pop_size", {**d, "generations": len(st["fitness"]), "n_iter": n_iter, "sizes": sorted({len(f) for f in st["fitness"]})}, {**feats, "clause": "budget"})
        # ---- predict is pure: repeated, interleaved, model unchanged
        snap = (str(est.get_tree()) if hasattr(est, "tree_") else None,
                None if not hasattr(est, "net_") else (est.get_net()._connects.tolist(), est.get_net()._weights.tolist()))
        again = est.predict(Xn[::-1])[::-1]
        est.predict(X[:3] * 7.0)
        third = est.predict(Xn)
        snap2 = (str(est.get_tree()) if hasattr(est, "tree_") else None,
                 None if not hasattr(est, "net_") else (est.get_net()._connects.tolist(), est.get_net()._weights.tolist()))
        same = (lambda a, b: all((str(x) == str(z)) or (isinstance(x, float) and math.isnan(x) and math.isnan(z)) or (not isinstance(x, str) and np.isclose(float(x), float(z), rtol=1e-9, atol=1e-12, equal_nan=True)) for x, z in zip(a, b))) \
            if kind == "reg" else (lambda a, b: [str(x) for x in a] == [str(z) for z in b])
        if not (same(pred, again) and same(pred, third)) or snap != snap2:
            chk.fail("predict changes the model or depends on earlier predict calls", d, {**feats, "clause": "pure"})
        try:
            est.predict(np.hstack([Xn, Xn[:, :1]]))
            chk.fail("predict accepts a wrong number of features", d, {**feats, "clause": "n_features"})
        except ValueError:
            pass
        # ---- same seed, same model
        if ci % 3 == 0:
            est2 = make()
            est2.fit(X, y)
            snap3 = (str(est2.get_tree()) if hasattr(est2, "tree_") else None,
                     None if not hasattr(est2, "net_") else (est2.get_net()._connects.tolist(), est2.get_net()._weights.tolist()))
            if snap3 != snap:
                chk.fail("two fits with the same random_state give different models", d, {**feats, "clause": "seed"})
            # "all seeds": the falsy seed 0, with other random draws consumed between the two fits
            snaps0 = []
            for rep in range(2):
                e0 = make().set_params(random_state=0)
                e0.fit(X, y)
                snaps0.append((str(e0.get_tree()) if hasattr(e0, "tree_") else None,
                               None if not hasattr(e0, "net_") else (e0.get_net()._connects.tolist(), e0.get_net()._weights.tolist())))
                numba_seed(977 + ci + chk.seed)
                [random_sample(5, 3, True) for _ in range(3 + rep)]
            chk.count("seed0_refit")
            if snaps0[0] != snaps0[1]:
                chk.fail("two fits with random_state=0 give different models (other draws in between)", {**d, "random_state": 0}, {**feats, "clause": "seed"})
    # ---- a fitted classifier keeps answering with ITS labels after other instances (other label sets) were fitted in the process
    for name, d, est, Xh, first in held:
        chk.count("asked_again_after_other_fits")
        try:
            again = [str(v) for v in est.predict(Xh)]
        except Exception as e:  # noqa
            again = ["raises " + repr(e)[:120]]
        if again != first:
            chk.fail("predict does not return the original class label of the arg-max column",
                     {**d, "scenario": "predict on a fitted classifier after other classifiers (other label sets) were fitted in the same process",
                      "predict_first": first[:4], "predict_later": again[:4]}, {"estimator": name, "clause": "labels_after_other_fits"})
    # ---- GP classifier: the label of the arg-max column on rows whose two probabilities tie exactly
    #      (stored trees that evaluate to 0 there: x0 - x1 on equal features, x0 on zeros, x0 * x1)
    from thefittest.base._tree import init_symbolic_regression_uniset
    from thefittest.base import Tree
    for labels in (("b", "a"), (7, 3)):
        Xg = np.array([[float(i), float(j)] for i in range(-2, 3) for j in range(-2, 3)])
        yg = np.array([labels[0] if a - b > 0 else labels[1] for a, b in Xg], dtype=object if isinstance(labels[0], str) else np.int64)
        estg = GeneticProgrammingClassifier(n_iter=2, pop_size=8, functional_set_names=("add", "sub", "mul"), random_state=seed)
        estg.fit(Xg, yg)
        us = init_symbolic_regression_uniset(X=Xg, functional_set_names=("add", "sub", "mul"))
        by_name = {}
        for nd in list(us._functional_set[2]) + list(us._terminal_set):
            by_name.setdefault(str(nd._name if hasattr(nd, "_name") else nd), nd)
        x0n, x1n = by_name.get("x0"), by_name.get("x1")
        subn, muln = by_name.get("sub"), by_name.get("mul")
        stored = [("fitted", estg.get_tree())]
        if x0n is not None and x1n is not None and subn is not None:
            stored += [("x0 - x1", Tree([subn, x0n, x1n])), ("x0", Tree([x0n])), ("x0 * x1", Tree([muln, x0n, x1n]))]
        classes = sorted(set(yg.tolist()))
        for tname, tr in stored:
            estg.tree_ = tr
            proba = estg.predict_proba(Xg)
            pred = estg.predict(Xg)
            ties = int(np.sum(proba[:, 0] == proba[:, 1]))
            chk.count("gp_classifier_tie_rows", ties)
            chk.case(("gp_tie", tname, str(labels)))
            exp = [classes[int(np.argmax(r))] for r in proba]
            if [str(v) for v in pred] != [str(v) for v in exp]:
                bad = [i for i in range(len(exp)) if str(pred[i]) != str(exp[i])]
                chk.fail("predict does not return the original class label of the arg-max column",
                         {"estimator": "GPClassifier", "stored_tree": tname, "labels": [str(l) for l in labels], "row": Xg[bad[0]].tolist(),
                          "proba": proba[bad[0]].tolist(), "predict": str(pred[bad[0]]), "expected": str(exp[bad[0]]), "tie_rows": ties},
                         {"estimator": "GPClassifier", "clause": "labels"})
    # ---- fit honours n_iter also when an exact expression is found early (the estimators set no target value)
    Xe = np.array([[float(i), float(j)] for i in range(-2, 3) for j in range(-2, 3)])
    for tgt_name, ye in (("x0", Xe[:, 0].copy()), ("x0 + x1", Xe[:, 0] + Xe[:, 1]), ("x0 * x1", Xe[:, 0] * Xe[:, 1])):
        for opt_ in (O.SelfCGP, O.GeneticProgramming):
            ee = GeneticProgrammingRegressor(n_iter=6, pop_size=30, functional_set_names=("add", "mul", "sub"), optimizer=opt_, optimizer_args={"keep_history": True}, random_state=seed + 4)
            ee.fit(Xe, ye)
            ste = ee.get_stats()
            chk.count("exact_target")
            chk.case(("exact_target", tgt_name, opt_.__name__))
            if len(ste["fitness"]) != 6:
                chk.fail("fit does not honour n_iter / pop_size", {"estimator": "GPRegressor", "optimizer": opt_.__name__, "target": tgt_name, "n_iter": 6,
                                                                    "generations": len(ste["fitness"]), "best_error": float(-max(ste["max_fitness"]))}, {"estimator": "GPRegressor", "clause": "budget"})
    # ---- the same array OBJECT handed to predict again after its contents were replaced in place (a reused batch buffer)
    for name, make, kind, nlab in configs[::5]:
        if kind == "reg":
            Xa, ya = E.data_regression(n=14, d=3, seed=seed + 1)
        else:
            Xa, ya = E.data_classification(n=15, d=3, labels=[ls for ls in label_sets if len(ls) == (2 if nlab == 2 else 3)][0], seed=seed + 1)
        esb = make()
        try:
            esb.fit(Xa, ya)
        except Exception:
            continue
        buf = Xa[:6].copy()
        first = esb.predict(buf)
        buf[...] = Xa[6:12]
        second = esb.predict(buf)
        fresh = esb.predict(Xa[6:12].copy())
        chk.count("reused_buffer")
        chk.case(("reused_buffer", name))
        if [str(v) for v in second] != [str(v) for v in fresh]:
            chk.fail("predict changes the model or depends on earlier predict calls",
                     {"estimator": name, "scenario": "the same array object, refilled in place with the next batch", "got": [str(v) for v in second][:4], "expected": [str(v) for v in fresh][:4]},
                     {"estimator": name, "clause": "pure_buffer"})
    # ---- GP regressor with a stored tree that contains no variable (constant targets, tiny budgets): still one value per row
    from thefittest.base import TerminalNode
    Xk, yk = E.data_regression(n=9, d=2, seed=seed)
    estk = GeneticProgrammingRegressor(n_iter=2, pop_size=8, functional_set_names=("add", "mul"), random_state=seed)
    estk.fit(Xk, yk)
    usk = init_symbolic_regression_uniset(X=Xk, functional_set_names=("add", "mul"))
    addk = next(n for n in usk._functional_set[2] if n._name == "add")
    for tname, tr in (("7", Tree([TerminalNode(7.0, "7")])), ("(7 + 2)", Tree([addk, TerminalNode(7.0, "7"), TerminalNode(2.0, "2")]))):
        estk.tree_ = tr
        for rows in (Xk, Xk[:1], Xk[:4]):
            try:
                pk = estk.predict(rows)
                okk = np.shape(pk) == (len(rows),) and np.allclose(np.asarray(pk, dtype=np.float64), float(tr()))
            except Exception as e:  # noqa
                pk, okk = repr(e)[:120], False
            chk.count("gp_regressor_constant_tree")
            chk.case(("gp_const", tname, len(rows)))
            if not okk:
                chk.fail("predict does not return one value per row of X", {"estimator": "GPRegressor", "stored_tree": tname, "rows": len(rows),
                                                                             "got": str(np.shape(pk)) if not isinstance(pk, str) else pk}, {"estimator": "GPRegressor", "clause": "predict_shape"})
                break
    # ---- reserved optimizer arguments are rejected, others accepted
    Xr, yr = E.data_regression(n=12, d=2, seed=seed)
    Xc, yc = E.data_classification(n=14, d=2, labels=("b", "a"), seed=seed)
    for arg in RESERVED_GP:
        for cls, (X, y) in ((GeneticProgrammingRegressor, (Xr, yr)), (GeneticProgrammingClassifier, (Xc, yc)), (GeneticProgrammingNeuralNetRegressor, (Xr, yr))):
            try:
                cls(n_iter=2, pop_size=4, optimizer_args={arg: None}).fit(X, y)
                chk.fail("an optimizer argument the estimator defines itself is accepted", {"estimator": cls.__name__, "argument": arg}, {"estimator": cls.__name__, "clause": "reserved"})
            except AssertionError:
                chk.count("reserved_rejected")
            except Exception as e:
                chk.fail("a reserved optimizer argument is not rejected cleanly", {"estimator": cls.__name__, "argument": arg, "error": repr(e)[:160]}, {"estimator": cls.__name__, "clause": "reserved"})
    for arg in RESERVED_W + ["iters", "pop_size"]:
        for cls, (X, y) in ((MLPEARegressor, (Xr, yr)), (MLPEAClassifier, (Xc, yc))):
            try:
                cls(n_iter=2, pop_size=4, hidden_layers=(2,), weights_optimizer_args={arg: None}).fit(X, y)
                chk.fail("an optimizer argument the estimator defines itself is accepted", {"estimator": cls.__name__, "argument": arg}, {"estimator": cls.__name__, "clause": "reserved"})
            except AssertionError:
                chk.count("reserved_rejected")
            except Exception as e:
                chk.fail("a reserved optimizer argument is not rejected cleanly", {"estimator": cls.__name__, "argument": arg, "error": repr(e)[:160]}, {"estimator": cls.__name__, "clause": "reserved"})
    # the GPNN estimators take TWO dictionaries: the weights optimizer's reserved arguments are rejected as well
    Xc3, yc3 = E.data_classification(n=15, d=2, labels=("b", "a", "c"), seed=seed)
    for arg in RESERVED_W:
        for cls, (X, y) in ((GeneticProgrammingNeuralNetRegressor, (Xr, yr)), (GeneticProgrammingNeuralNetClassifier, (Xc3, yc3))):
            try:
                cls(n_iter=2, pop_size=4, weights_optimizer_args={arg: None, "iters": 2, "pop_size": 4}).fit(X, y)
                chk.fail("an optimizer argument the estimator defines itself is accepted", {"estimator": cls.__name__, "dictionary": "weights_optimizer_args", "argument": arg},
                         {"estimator": cls.__name__, "clause": "reserved"})
            except AssertionError:
                chk.count("reserved_rejected")
            except Exception as e:
                chk.fail("a reserved optimizer argument is not rejected cleanly", {"estimator": cls.__name__, "dictionary": "weights_optimizer_args", "argument": arg, "error": repr(e)[:160]},
                         {"estimator": cls.__name__, "clause": "reserved"})
    try:
        GeneticProgrammingRegressor(n_iter=2, pop_size=8, optimizer_args={"elitism": False, "keep_history": True}, random_state=1).fit(Xr, yr)
        MLPEARegressor(n_iter=2, pop_size=6, hidden_layers=(2,), weights_optimizer_args={"elitism": False, "keep_history": True}, random_state=1).fit(Xr, yr)
        chk.count("non_reserved_accepted")
    except Exception as e:
        chk.fail("a non-reserved optimizer argument is rejected", {"error": repr(e)[:200]}, {"estimator": "any", "clause": "reserved"})
    ops.append({"op": "est_check_args", "reserved": RESERVED_GP, "args": ["elitism", "iters"]})
    ctx.append(("check_args", {}, False))
    ops.append({"op": "est_check_args", "reserved": RESERVED_W, "args": ["elitism", "keep_history"]})
    ctx.append(("check_args", {}, True))

    prints = {}
    for hs, pr in children:
        so, se = pr.communicate(timeout=900)
        line = next((l for l in so.splitlines() if l.startswith("FINGERPRINT ")), None)
        if line is None:
            chk.fail("a seeded fit in a fresh interpreter raises", {"PYTHONHASHSEED": hs, "error": se[-300:]}, {"estimator": "GP", "clause": "raises"})
        else:
            prints[hs] = json.loads(line[len("FINGERPRINT "):])
    chk.count("fresh_processes", len(prints))
    chk.case(("fresh_processes",))
    ks = sorted(prints)
    for other in ks[1:]:
        for name in prints[ks[0]]:
            if prints[other][name] != prints[ks[0]][name]:
                chk.fail("two fits with the same random_state give different models",
                         {"estimator": name, "scenario": "the two fits run in two interpreter processes (different string-hash salts)", "PYTHONHASHSEED": [ks[0], other],
                          "models": [str(prints[ks[0]][name]["tree"])[:200], str(prints[other][name]["tree"])[:200]]},
                         {"estimator": name.split("/")[0], "clause": "same_seed_processes"})
                break

    try:
        outs = C.lean_driver([json.dumps(o) for o in ops])
    except Exception as e:
        chk.obligation("driver run", False, str(e))
        outs = []
    for o, (kind, inp, impl) in zip(outs, ctx):
        if "error" in o:
            chk.disagree(kind, {"input": inp, "model_error": o["error"]})
        elif o["ok"] == impl:
            chk.agree(kind)
        else:
            chk.disagree(kind, {"input": inp, "impl": impl, "model": o["ok"]})
    chk.notes.append("GP x 3 functional sets x {SelfCGP, GeneticProgramming}; MLPEA x 6 weight optimizers x hidden tuples incl. none, bias on/off; GPNN x {SHADE, SHAGA} x {SelfCGP, GeneticProgramming}; string and non-contiguous integer labels, 2 and 3 classes")
    chk.trusted.append("scikit-learn's validators / encoders and the float pipeline are trusted / observed; the stand-in for BaseEstimator._validate_data lives in the harness")
    return chk.finish()


def replay(path: str) -> int:
    return main("quick")
