"""C11 — selection and sampling primitives honour their contracts.

S3 (correspondence): the real primitives against TFV.Model.Select, exact:
  * binary_search_interval, argsort_k, find_pbest_id, minmax_scale on exhaustive small lattices;
  * the stochastic primitives with the draws predicted by the RandomState mirror of numba's
    generators (re-verified at start-up; if the mirror breaks the streams degrade to the
    relational oracles of S4 and the break is reported as a broken correspondence).
S4 (property oracle on the implementation's own outputs): the conclusions of the C11 theorems.
"""
from __future__ import annotations

import itertools
import random as pyrandom
from fractions import Fraction

import numpy as np

import common as C


def mirror_ok():
    from thefittest.utils.random import numba_seed, random_sample, randint
    for s in (1, 77, 12345):
        numba_seed(s)
        a = random_sample(np.int64(11), np.int64(9), True)
        if list(a) != list(np.random.RandomState(s).randint(0, 11, size=9)):
            return False
        numba_seed(s)
        b = randint(np.int64(0), np.int64(7), np.int64(6))
        if list(b) != list(np.floor(7 * np.random.RandomState(s).random_sample(6)).astype(int)):
            return False
    return True


def is_single_cycle(sigma):
    n = len(sigma)
    if n <= 1:
        return True
    seen, x = 0, 0
    for _ in range(n):
        x = sigma[x]
        seen += 1
        if x == 0:
            break
    return seen == n


def main(tier: str) -> int:
    chk = C.Check("C11", tier)
    chk.lean()
    from thefittest.utils import binary_search_interval, argsort_k, find_pbest_id
    from thefittest.utils.random import (numba_seed, random_sample, randint, random_weighted_sample,
                                         sattolo_shuffle, sattolo_shuffle_2d, uniform)
    from thefittest.utils.selections import tournament_selection, proportional_selection, rank_selection
    from thefittest.utils.transformations import minmax_scale
    import thefittest.utils.random as trandom

    rng = pyrandom.Random(chk.seed)
    nmax = 5 if tier == "quick" else 6
    ops, ctx = [], []

    def add(op, c):
        ops.append(op)
        ctx.append(c)

    # ---- A: binary search, exhaustive over {0,1,2}^n and every half-integer roll
    for n in range(1, nmax + 1):
        for w in itertools.product((0, 1, 2), repeat=n):
            tot = sum(w)
            if tot == 0:
                continue
            cum = np.cumsum(np.array(w, dtype=np.float64))
            for v2 in range(0, 2 * tot + 1):
                v = v2 / 2.0
                k = int(binary_search_interval(np.float64(v), cum))
                add({"op": "bsearch", "v": v2, "cum": [int(2 * c) for c in cum]},
                    ("bsearch", {"w": list(w), "v": v}, k))
                chk.case(("bs", w, v2), nontrivial=True, sample={"op": "binary_search_interval", "w": list(w), "v": v, "out": k} if n == 3 and v2 == 3 else None)
                # S4: interval contains the roll, positive weight for positive rolls
                lo = cum[k - 1] if k > 0 else 0.0
                good = 0 <= k < n and v <= cum[k] and (k == 0 or lo < v)
                if v > 0:
                    good = good and w[k] > 0 and lo < v
                if not good:
                    chk.fail("binary_search_interval returns an index whose cumulative-weight interval does not contain the roll",
                             {"w": list(w), "v": v, "out": k}, {"fn": "binary_search_interval", "roll_zero": v == 0})

    # ---- B: argsort_k / find_pbest_id, exhaustive over {0,1,2}^n (ties, zeros, maximum in place)
    for n in range(1, nmax + 1):
        for vals in itertools.product((0, 1, 2), repeat=n):
            arr = np.array(vals, dtype=np.float64)
            for k in range(1, n + 1):
                out = [int(x) for x in argsort_k(arr, np.int64(k))]
                add({"op": "argsort_k", "vals": list(vals), "k": k}, ("argsort_k", {"vals": list(vals), "k": k}, out))
                chk.case(("ak", vals, k))
                top = out[:k]
                srt = sorted(vals, reverse=True)
                good = (sorted(out) == list(range(n)) and [vals[i] for i in top] == srt[:k])
                if not good:
                    chk.fail("argsort_k: the first k entries are not the k largest values in descending order",
                             {"vals": list(vals), "k": k, "out": out}, {"fn": "argsort_k"})
            for pn, pd in ((1, 20), (1, 4), (1, 2), (1, 1)):
                p = pn / pd
                out = [int(x) for x in find_pbest_id(arr, np.float64(p))]
                add({"op": "pbest", "vals": list(vals), "pn": pn, "pd": pd}, ("pbest", {"vals": list(vals), "p": p}, out))
                cnt = max(1, int(p * n))
                srt = sorted(vals, reverse=True)
                good = len(out) == cnt and len(set(out)) == cnt and all(0 <= i < n for i in out) and \
                    [vals[i] for i in out] == srt[:cnt]
                if not good:
                    chk.fail("find_pbest_id does not return exactly the max(1, floor(p*n)) fittest, best first",
                             {"vals": list(vals), "p": p, "out": out}, {"fn": "find_pbest_id"})
    # a few longer random vectors (general position, ties)
    for _ in range(200 if tier == "quick" else 2000):
        n = rng.randint(7, 40)
        vals = [rng.randint(-5, 5) for _ in range(n)]
        arr = np.array(vals, dtype=np.float64)
        p = rng.choice([1 / 16, 1 / 8, 1 / 4, 1 / 2, 1.0])
        out = [int(x) for x in find_pbest_id(arr, np.float64(p))]
        pn, pd = Fraction(p).numerator, Fraction(p).denominator
        add({"op": "pbest", "vals": vals, "pn": pn, "pd": pd}, ("pbest", {"vals": vals, "p": p}, out))
        cnt = max(1, int(p * n))
        chk.case(("pb", tuple(vals), p))
        if not (len(out) == cnt and len(set(out)) == cnt and [vals[i] for i in out] == sorted(vals, reverse=True)[:cnt]):
            chk.fail("find_pbest_id does not return exactly the max(1, floor(p*n)) fittest, best first",
                     {"vals": vals, "p": p, "out": out}, {"fn": "find_pbest_id"})

    # products p*n that lie a hair below an integer (0.29*100, 15/22*22, ...): the count is the floor, not the nearest integer. Only
    # points where the double product and the exact product (the double p as the rational it is) have the same floor are used.
    near = [(100, 0.29), (100, 0.57), (100, 0.58), (22, 15 / 22), (2, 0.9999999999999999), (50, 0.14), (7, 3 / 7 - 2 ** -54)]
    for _ in range(60 if tier == "quick" else 600):
        n = rng.randint(2, 120)
        k = rng.randint(2, n)
        pp = float(np.nextafter(k / n, 0.0)) if rng.random() < 0.5 else (k - rng.choice([1e-10, 3e-11, 1e-12])) / n
        near.append((n, pp))
    for n, pp in near:
        if not (0 < pp <= 1) or int(pp * n) != Fraction(pp) * n // 1:
            continue
        vals = [rng.randint(-50, 50) for _ in range(n)]
        arr = np.array(vals, dtype=np.float64)
        out = [int(x) for x in find_pbest_id(arr, np.float64(pp))]
        pn, pd = Fraction(pp).numerator, Fraction(pp).denominator
        add({"op": "pbest", "vals": vals, "pn": pn, "pd": pd}, ("pbest", {"vals": vals, "p": pp}, out))
        cnt = max(1, int(pp * n))
        chk.case(("pb_near", n, pp))
        chk.count("pbest_near_integer")
        if not (len(out) == cnt and len(set(out)) == cnt and [vals[i] for i in out] == sorted(vals, reverse=True)[:cnt]):
            chk.fail("find_pbest_id does not return exactly the max(1, floor(p*n)) fittest, best first",
                     {"vals": vals, "p": pp, "out_len": len(out), "floor_p_n": cnt, "out": out}, {"fn": "find_pbest_id", "clause": "near_integer"})

    # more individuals requested than there are positive weights (a single fit individual must be able to fill a whole parent tuple):
    # in a child process, because a selection that cannot finish would otherwise hang the check
    import json
    import subprocess
    import sys as _sys
    code = ("import numpy as np, json\n"
            "from thefittest.utils.selections import proportional_selection, rank_selection\n"
            "from thefittest.utils.random import numba_seed\n"
            "numba_seed(3)\n"
            "w = np.array([0.0, 2.0, 0.0, 0.0])\n"
            "r = np.array([1.0, 2.0, 3.0])\n"
            "print('OUT ' + json.dumps([[int(x) for x in proportional_selection(w, w, np.int64(0), np.int64(3))],"
            " [int(x) for x in rank_selection(w, w, np.int64(0), np.int64(4))], [int(x) for x in rank_selection(r, r, np.int64(0), np.int64(3))],"
            " [int(x) for x in rank_selection(r, r, np.int64(0), np.int64(7))]]))\n")
    chk.count("weighted_more_than_positive")
    chk.case(("weighted_more_than_positive",))
    try:
        pr = subprocess.run([_sys.executable, "-c", code], capture_output=True, text=True, timeout=90)
        line = next((l for l in pr.stdout.splitlines() if l.startswith("OUT ")), None)
        res = json.loads(line[4:]) if line else None
        okq = res is not None and res[0] == [1, 1, 1] and res[1] == [1, 1, 1, 1] and len(res[2]) == 3 and len(res[3]) == 7 and all(0 <= x < 3 for x in res[2] + res[3])
        det = {"out": res, "stderr": pr.stderr[-200:]}
    except subprocess.TimeoutExpired:
        okq, det = False, {"out": "no result within 90 s (the call does not terminate)"}
    if not okq:
        chk.fail("selection does not return exactly the requested number of valid (positive-weight) population indices",
                 {"weights": [0.0, 2.0, 0.0, 0.0], "quantities": [3, 4], "ranks": [1.0, 2.0, 3.0], "rank_quantities": [3, 7], **det}, {"fn": "proportional_selection", "clause": "quantity_more_than_positive"})

    # ---- C: minmax_scale
    for n in range(1, 5):
        for vals in itertools.product((-1, 0, 3), repeat=n):
            arr = np.array(vals, dtype=np.float64)
            out = minmax_scale(arr)
            add({"op": "minmax", "d": [C.rat(int(v)) for v in vals]}, ("minmax", {"d": list(vals)}, [float(x) for x in out]))
            chk.case(("mm", vals))
            good = len(out) == n and all(0.0 <= x <= 1.0 for x in out) and (len(set(vals)) > 1 or all(x == 1.0 for x in out))
            good = good and np.array_equal(arr, np.array(vals, dtype=np.float64))
            if not good:
                chk.fail("minmax_scale leaves [0,1] / not all ones on constant data / modifies its input",
                         {"d": list(vals), "out": [float(x) for x in out]}, {"fn": "minmax_scale"})
    for _ in range(100):
        vals = [rng.uniform(-1e3, 1e3) for _ in range(rng.randint(2, 12))]
        out = minmax_scale(np.array(vals))
        add({"op": "minmax", "d": [C.rat(v) for v in vals]}, ("minmax", {"d": vals}, [float(x) for x in out]))

    # the TRANSLATED minmax_scale (TFV/Generated/Src/Select_minmax_scale.lean, read through TFV.Model.NpQ) evaluated by Lean against the real
    # function on vectors of small dyadic numbers (incl. constant ones, one entry, none)
    mcases = [[]] + [[rng.randint(-8, 8) / 4 for _ in range(rng.randint(1, 6))] for _ in range(25 if tier == "quick" else 200)] + [[0.75] * 3, [-2.0]]
    qv = lambda v: "[" + ", ".join("(%d : Rat) / 4" % int(round(x * 4)) for x in v) + "]"   # noqa: E731
    mlines = ["import TFV.Generated.Src.Select_minmax_scale", "open TFV TFV.Generated.Src",
              "def showQ : Option (List Rat) → String | none => \"none\" | some v => toString (v.map fun q => (q.num, q.den))"]
    mlines += ["#eval IO.println (showQ (Select_minmax_scale (%s : List Rat)))" % qv(v) for v in mcases]
    maudit = C.LEAN / "TFV" / "Audit" / "C11_np.lean"
    maudit.parent.mkdir(parents=True, exist_ok=True)
    maudit.write_text("\n".join(mlines) + "\n")
    with C.LeanLock():
        mpr = subprocess.run(["lake", "env", "lean", str(maudit.relative_to(C.LEAN))], cwd=C.LEAN, capture_output=True, text=True, timeout=900)
    mgot = [l.strip() for l in mpr.stdout.splitlines() if l.strip()]
    chk.obligation("the translated minmax_scale evaluates (lake env lean TFV/Audit/C11_np.lean)", mpr.returncode == 0 and len(mgot) == len(mcases), (mpr.stdout + mpr.stderr)[-600:])
    if mpr.returncode == 0 and len(mgot) == len(mcases):
        import re as _re
        for v, g in zip(mcases, mgot):
            try:
                real = [float(x) for x in minmax_scale(np.array(v, dtype=np.float64))]
            except Exception:
                real = None
            vals = None if g == "none" else [int(a) / int(b) for a, b in _re.findall(r"\((-?\d+), (\d+)\)", g)]
            chk.count("np_kernel_minmax")
            same = (real is None and vals is None) or (real is not None and vals is not None and len(real) == len(vals) and all(C.close(a, b, 1e-12, 1e-12) for a, b in zip(real, vals)))
            (chk.agree("np_kernel:minmax_scale") if same else chk.disagree("np_kernel:minmax_scale", {"input": {"data": v}, "impl": real, "model": g}))

    # ---- D: stochastic primitives with predicted draws
    mirror = mirror_ok()
    chk.obligation("draw oracle: numba streams == RandomState mirror", mirror,
                   "" if mirror else "numba's random streams no longer equal numpy.random.RandomState(seed)")
    nseeds = 400 if tier == "quick" else 4000
    base = 1000 * chk.seed
    for s in range(base, base + nseeds):
        rs_int = np.random.RandomState(s)
        rs_u = np.random.RandomState(s)
        n = rng.randint(2, 9)
        kind = s % 6
        if kind == 0:  # tournament
            fit = [rng.randint(0, 4) for _ in range(n)]
            if s % 12 == 6:
                # distinct fitness values closer than 1e-12 (a nearly converged, min-max scaled population): still strict order
                fit = [0.5 + 1e-13 * rng.randint(0, 3) + (0.25 if rng.random() < 0.3 else 0.0) for _ in range(n)]
            t = rng.randint(1, n) if s % 12 != 6 else rng.choice([n, n, 2])
            numba_seed(s)
            rank_arg = [np.array(fit, dtype=np.float64), np.zeros(n), -np.array(fit, dtype=np.float64), np.arange(n, dtype=np.float64)][(s // 6) % 4]   # the rank argument is unused by a tournament
            win = int(tournament_selection(np.array(fit, dtype=np.float64), rank_arg, np.int64(t), np.int64(1))[0])
            chk.count("tournament" if s % 12 != 6 else "tournament_near_ties")
            others = sum(1 for j in range(n) if j != win and fit[j] <= fit[win])
            if not (0 <= win < n and others >= t - 1 and (t < n or fit[win] == max(fit))):
                chk.fail("tournament winner is one of the tour_size-1 strictly worst (or not the global best for tour_size = n)",
                         {"fitness": fit, "tour_size": t, "seed": s, "winner": win}, {"fn": "tournament_selection"})
            chk.case(("tour", tuple(fit), t, win))
            if mirror:
                draws = [int(x) for x in rs_int.randint(0, n, size=200)]
                add({"op": "sample_norepl", "draws": draws, "k": t}, ("tour_sample", {"fitness": fit, "t": t, "seed": s}, win))
        elif kind == 1:  # proportional / rank sampling (one index)
            w = [rng.choice([0, 0, 1, 2, 3]) for _ in range(n)] if (s // 6) % 3 else [rng.choice([1, 1, 2, 5]) for _ in range(n)]   # every third: all weights positive
            if sum(w) == 0:
                w[rng.randrange(n)] = 1
            numba_seed(s)
            fn = proportional_selection if (s // 6) % 2 == 1 else rank_selection
            idx = int(fn(np.array(w, dtype=np.float64), np.array(w, dtype=np.float64), np.int64(0), np.int64(1))[0])
            chk.count("weighted")
            if not (0 <= idx < n and w[idx] > 0):
                chk.fail("fitness/rank-proportional sampling chose a zero-weight individual while positive weights exist",
                         {"weights": w, "seed": s, "out": idx}, {"fn": "random_weighted_sample"})
            chk.case(("w", tuple(w), idx))
            if mirror:
                u = Fraction(float(rs_u.random_sample()))
                exact = u * sum(w)
                cum = list(itertools.accumulate(w))
                if all(abs(float(exact) - c) > 1e-9 for c in cum):
                    add({"op": "weighted_index", "w": w, "num": u.numerator, "den": u.denominator},
                        ("weighted", {"w": w, "seed": s}, idx))
                    want = next(k for k, c in enumerate(cum) if exact <= c)
                    if idx != want:
                        chk.fail("fitness/rank-proportional selection does not map the uniform draw to the index whose cumulative-weight interval contains it",
                                 {"function": fn.__name__ if hasattr(fn, "__name__") else str(fn), "weights": w, "uniform_draw": float(u), "out": idx, "expected": want, "seed": s},
                                 {"fn": "proportional_selection"})
            # several parents at once: every one of them is drawn by its own uniform number from the same weights (the same individual
            # may be drawn again)
            npos = sum(1 for v in w if v > 0)
            q = min(npos, rng.randint(2, 5))    # (more parents than positive weights: in a child process below)
            if q >= 2:
                numba_seed(s)
                outq = [int(x) for x in fn(np.array(w, dtype=np.float64), np.array(w, dtype=np.float64), np.int64(0), np.int64(q))]
                chk.count("weighted_several")
                chk.case(("wq", tuple(w), q, tuple(outq)))
                if not (len(outq) == q and all(0 <= x < n and w[x] > 0 for x in outq)):
                    chk.fail("selection does not return exactly the requested number of valid (positive-weight) population indices",
                             {"function": fn.__name__ if hasattr(fn, "__name__") else str(fn), "weights": w, "quantity": q, "out": outq, "seed": s}, {"fn": "proportional_selection", "clause": "quantity"})
                elif mirror:
                    rs_q = np.random.RandomState(s)
                    cum = list(itertools.accumulate(w))
                    want, safe = [], True
                    while len(want) < q:
                        uq = Fraction(float(rs_q.random_sample()))
                        exact = uq * sum(w)
                        if exact == 0:
                            continue
                        safe = safe and all(abs(float(exact) - c) > 1e-9 for c in cum)
                        want.append(next(k for k, c in enumerate(cum) if exact <= c))
                    if safe and outq != want:
                        chk.fail("fitness/rank-proportional selection does not map the uniform draw to the index whose cumulative-weight interval contains it",
                                 {"function": fn.__name__ if hasattr(fn, "__name__") else str(fn), "weights": w, "quantity": q, "out": outq, "expected": want, "seed": s,
                                  "scenario": "several individuals requested in one call"}, {"fn": "proportional_selection", "clause": "several"})
        elif kind == 2:  # sampling without replacement
            k = rng.randint(1, n)
            numba_seed(s)
            out = [int(x) for x in random_sample(np.int64(n), np.int64(k), False)]
            chk.count("sample_norepl")
            if not (len(out) == k and len(set(out)) == k and all(0 <= x < n for x in out)):
                chk.fail("random_sample(replace=False) returned repeated or out-of-range values",
                         {"n": n, "k": k, "seed": s, "out": out}, {"fn": "random_sample"})
            chk.case(("snr", n, k, tuple(out)))
            if mirror:
                draws = [int(x) for x in rs_int.randint(0, n, size=300)]
                add({"op": "sample_norepl", "draws": draws, "k": k}, ("sample_norepl", {"n": n, "k": k, "seed": s}, out))
        elif kind == 3:  # Sattolo
            arr = list(range(n))
            numba_seed(s)
            held = np.array(arr, dtype=np.int64)          # the array the caller keeps holding
            out = [int(x) for x in sattolo_shuffle(held)]
            chk.count("sattolo")
            if not (sorted(out) == arr and is_single_cycle(out)):
                chk.fail("sattolo_shuffle did not return a cyclic permutation of its input",
                         {"n": n, "seed": s, "out": out}, {"fn": "sattolo_shuffle"})
            elif [int(x) for x in held] != arr:
                chk.fail("sattolo_shuffle did not return a cyclic permutation of its input",
                         {"n": n, "seed": s, "out": out, "input_after_the_call": [int(x) for x in held],
                          "scenario": "the caller's array was overwritten: relative to the array the caller holds the result is not a cyclic permutation"},
                         {"fn": "sattolo_shuffle"})
            chk.case(("sat", tuple(out)))
            if mirror:
                us = rs_u.random_sample(n - 1)
                js = [int(np.floor(us[m] * i)) for m, i in enumerate(range(n - 1, 0, -1))]
                add({"op": "sattolo", "l": arr, "js": js}, ("sattolo", {"n": n, "seed": s}, out))
            # the 2-D variant (rows of an archive): the same cyclic permutation, applied to whole rows
            ncols = 1 + s % 3
            rows2 = np.array([[10 * r + c for c in range(ncols)] for r in range(n)], dtype=np.float64 if s % 2 else np.int64)
            numba_seed(s)
            held2 = rows2.copy()
            out2 = sattolo_shuffle_2d(held2)
            if not np.array_equal(held2, rows2):
                chk.fail("sattolo_shuffle_2d did not return a cyclic permutation of the rows of its input",
                         {"n_rows": n, "n_cols": ncols, "seed": s, "scenario": "the caller's array was overwritten"}, {"fn": "sattolo_shuffle_2d"})
            perm2 = [int(round(float(r[0]))) // 10 for r in out2]
            chk.count("sattolo_2d")
            intact = all([float(v) for v in out2[k]] == [float(v) for v in rows2[perm2[k]]] for k in range(n)) if sorted(perm2) == arr else False
            if not (out2.shape == rows2.shape and sorted(perm2) == arr and intact and is_single_cycle(perm2)):
                chk.fail("sattolo_shuffle_2d did not return a cyclic permutation of the rows of its input",
                         {"n_rows": n, "n_cols": ncols, "seed": s, "rows_out": [[float(v) for v in r] for r in out2][:6]}, {"fn": "sattolo_shuffle_2d"})
            elif perm2 != out:
                chk.disagree("sattolo_2d", {"n": n, "seed": s, "rows": perm2, "flat": out})
            else:
                chk.agree("sattolo_2d")
        elif kind == 4:  # randint
            low = rng.randint(-5, 5)
            high = low + rng.randint(1, 9)
            numba_seed(s)
            sz = (4, 1, 2, 7)[(s // 6) % 4]          # "all sizes": a single draw too
            out = [int(x) for x in randint(np.int64(low), np.int64(high), np.int64(sz))]
            chk.count("randint")
            if not all(low <= x < high for x in out):
                chk.fail("randint left [low, high)", {"low": low, "high": high, "seed": s, "out": out}, {"fn": "randint"})
            chk.case(("ri", low, high, tuple(out)))
            if mirror:
                u = Fraction(float(rs_u.random_sample()))
                add({"op": "randint", "low": low, "high": high, "u": C.rat(u)}, ("randint", {"low": low, "high": high, "seed": s}, out[0]))
        else:  # uniform
            low = rng.uniform(-3, 3)
            high = low + rng.choice([0.0, 1e-9, 1.0, 7.5])
            numba_seed(s)
            sz = (4, 1, 2, 7)[(s // 6) % 4]
            out = [float(x) for x in uniform(np.float64(low), np.float64(high), np.int64(sz))]
            chk.count("uniform")
            if len(out) != sz:
                chk.fail("uniform does not return the requested number of draws", {"low": low, "high": high, "size": sz, "returned": len(out)}, {"fn": "uniform"})
            if not all(low <= x <= high for x in out):
                chk.fail("uniform left [low, high]", {"low": low, "high": high, "seed": s, "out": out}, {"fn": "uniform"})
            chk.case(("un", round(low, 6), round(high, 6)))
            if mirror:
                u = Fraction(float(rs_u.random_sample()))
                add({"op": "uniform", "low": C.rat(low), "high": C.rat(high), "u": C.rat(u)}, ("uniform", {"low": low, "high": high, "seed": s}, out[0]))

    # ---- E: the pure-Python source of random_weighted_sample with a forced draw of exactly 0
    # (numba's compiled generator cannot be forced; `.py_func` is the same source interpreted)
    class _FakeRandom:
        def __init__(self, seq):
            self.seq = list(seq)

        def random(self):
            return self.seq.pop(0) if self.seq else 0.5

    saved = trandom.random
    try:
        for w in ([0.0, 1.0, 2.0], [0.0, 0.0, 5.0]):
            trandom.random = _FakeRandom([0.0, 0.0, 0.0, 0.5, 0.5])
            out = [int(x) for x in trandom.random_weighted_sample.py_func(np.array(w), 1, True)]
            chk.count("forced_zero_roll")
            if w[out[0]] == 0:
                chk.fail("a uniform draw of exactly 0 makes random_weighted_sample choose a zero-weight individual",
                         {"weights": w, "draws": [0.0], "out": out}, {"fn": "random_weighted_sample", "roll_zero": True})
    finally:
        trandom.random = saved

    # ---- S3: run the model on the same inputs
    try:
        outs = C.lean_driver([__import__("json").dumps(o) for o in ops])
    except Exception as e:  # driver failure = broken correspondence, not a tool crash of the property
        chk.obligation("driver run", False, str(e))
        outs = []
    for o, (kind, inp, impl) in zip(outs, ctx):
        if "error" in o:
            chk.disagree(kind, {"input": inp, "impl": impl, "model_error": o["error"]})
            continue
        m = o["ok"]
        if kind == "minmax":
            ok = len(m) == len(impl) and all(C.close(a, C.frac(b), 1e-12, 1e-12) for a, b in zip(impl, m))
        elif kind == "tour_sample":
            # model: the sample the rejection loop accepts, then the first arg-max of it
            fit = inp["fitness"]
            ok = m is not None and m[max(range(len(m)), key=lambda i: (fit[m[i]], -i))] == impl
            # cross-check the winner through the model's own tournament
        elif kind == "uniform":
            ok = C.close(impl, C.frac(m), 1e-12, 1e-12)
        else:
            ok = (m == impl)
        if ok:
            chk.agree(kind)
        else:
            chk.disagree(kind, {"input": inp, "impl": impl, "model": m})
    # second pass for tournaments: winner via the model's `tournament`
    t_ops, t_ctx = [], []
    for o, (kind, inp, impl) in zip(outs, ctx):
        if kind == "tour_sample" and "ok" in o and o["ok"] is not None:
            t_ops.append({"op": "tournament", "fitness": [C.float_key(float(v)) for v in inp["fitness"]], "sample": o["ok"]})
            t_ctx.append((inp, impl))
    if t_ops:
        try:
            for o, (inp, impl) in zip(C.lean_driver([__import__("json").dumps(x) for x in t_ops]), t_ctx):
                if o.get("ok") == impl:
                    chk.agree("tournament")
                else:
                    chk.disagree("tournament", {"input": inp, "impl": impl, "model": o})
        except Exception as e:
            chk.obligation("driver run (tournament)", False, str(e))

    chk.notes.append("exhaustive {0,1,2}^n lattices (n<=%d) x all half-integer rolls / all k / p in {1/20,1/4,1/2,1}; %d seeds of stochastic primitives with mirrored draws; distinct = distinct (input,output) pairs" % (nmax, nseeds))
    chk.trusted.append("numba RNG == RandomState mirror (self-tested each run); floats on these lattices are exact small integers")
    chk.assumptions.append("NaN weights/fitness outside the domain; a uniform draw of exactly 0 (p = 2^-53) is exercised through the interpreted source (.py_func)")
    return chk.finish()


def replay(path: str) -> int:
    import json
    r = json.loads(open(path).read())
    print("replay of", r.get("what", r.get("kind")), "— re-running the full quick check (cases are deterministic in VERIF_SEED)")
    return main("quick")
