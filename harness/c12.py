"""C12 — Net.forward computes the function its graph defines.

S3: for every net the schedule the implementation actually uses is checked by the model's
decidable certificate `validSchedule` / `softmaxTogether` (hypotheses of theorem
C12_schedule_sound) and the same schedule is evaluated by the model in floating point
(`net_forward`), compared with Net.forward at 1e-9.
S4: an independent reference evaluation of the graph (node equations in dependency order, softmax
jointly over the output layer); batch of weight vectors vs one net per row; shuffled connection
lists; repeated and interleaved calls on the net and on copies; softmax rows on the simplex.
"""
from __future__ import annotations

import itertools
import json
import random as pyrandom

import numpy as np

import common as C
import netlib as NL


def hand_nets():
    """hand-built DAGs with skip connections and parallel duplicate connections"""
    from thefittest.base._net import Net
    out = []
    out.append(("skip+dup", Net(inputs={0, 1}, hidden_layers=[{2, 3}], outputs={4, 5},
                                connects=np.array([[0, 2], [1, 2], [0, 3], [2, 4], [3, 4], [0, 4], [2, 5], [3, 5], [0, 4], [0, 5]], dtype=np.int64),
                                weights=np.array([0.5, -1.25, 2.0, 0.75, -0.5, 1.5, 0.25, 1.0, -2.0, 0.125]),
                                activs={2: 0, 3: 3, 4: 4, 5: 4})))
    out.append(("two-hidden-layers-skip", Net(inputs={0, 1, 2}, hidden_layers=[{3}, {4, 5}], outputs={6},
                                              connects=np.array([[0, 3], [1, 3], [3, 4], [3, 5], [2, 5], [4, 6], [5, 6], [0, 6], [3, 6]], dtype=np.int64),
                                              weights=np.array([1.0, -1.0, 0.5, 2.0, -0.75, 1.25, 0.3, -0.2, 0.9]),
                                              activs={3: 1, 4: 2, 5: 0, 6: 4})))
    out.append(("softmax-shared-sources", Net(inputs={0, 1}, hidden_layers=[{2}], outputs={3, 4, 5},
                                              connects=np.array([[0, 2], [1, 2], [2, 3], [2, 4], [2, 5], [0, 3], [0, 4], [0, 5]], dtype=np.int64),
                                              weights=np.array([0.4, -0.6, 1.0, -1.0, 0.5, 0.2, 0.3, -0.4]),
                                              activs={2: 3, 3: 5, 4: 5, 5: 5})))
    # softmax outputs with DIFFERENT source sets: the joint-softmax clause of the property
    out.append(("softmax-split-sources", Net(inputs={0, 1}, outputs={2, 3},
                                             connects=np.array([[0, 2], [1, 3]], dtype=np.int64),
                                             weights=np.array([1.0, 2.0]), activs={2: 5, 3: 5})))
    return out


def main(tier: str) -> int:
    chk = C.Check("C12", tier)
    chk.lean()
    from thefittest.base import Tree
    from thefittest.base._tree import init_net_uniset
    from thefittest.base._gpnn import genotype_to_phenotype_tree
    from thefittest.utils.random import numba_seed
    from thefittest.regressors import MLPEARegressor
    from thefittest.classifiers import MLPEAClassifier
    rng = pyrandom.Random(chk.seed)
    numba_seed(chk.seed + 2)
    nets = []
    # MLP builder nets
    tuples = [(), (2,), (3, 2), (1, 1, 1), (4,), (2, 3)] + ([t for n in (1, 2, 3) for t in itertools.product((1, 2, 3), repeat=n)] if tier == "thorough" else [])
    for hl in tuples:
        for off in (True, False):
            for cls, nout in ((MLPEARegressor, 1), (MLPEAClassifier, 3)):
                for act in (("sigma", "relu", "gauss", "tanh") if tier == "thorough" else (rng.choice(["sigma", "relu", "gauss", "tanh"]),)):
                    est = cls(n_iter=2, pop_size=4, hidden_layers=hl, offset=off, activation=act)
                    nin = 3 + (1 if off else 0)
                    nets.append((f"mlp{hl}{'+b' if off else ''}:{cls.__name__}:{act}", est._defitne_net(nin, nout), nin))
    # GP-decoded nets
    for nv, ibs, mh, off, nout in [(3, 1, 3, True, 1), (4, 2, 5, False, 3), (5, 3, 9, True, 3)]:
        us = init_net_uniset(nv, ibs, mh, off)
        for _ in range(25 if tier == "quick" else 250):
            t = Tree.random_tree(us, rng.randint(1, 5))
            nets.append((f"gp:{t}", genotype_to_phenotype_tree(t, nv, nout, "softmax" if nout > 1 else "ln", off), nv))
    # degenerate output layers: a softmax layer of ONE unit (a classifier net built for a single class)
    for hl in ((), (2,)):
        est1 = MLPEAClassifier(n_iter=2, pop_size=4, hidden_layers=hl, offset=True)
        nets.append((f"mlp{hl}+b:MLPEAClassifier:one-output", est1._defitne_net(4, 1), 4))
    us1 = init_net_uniset(3, 1, 3, True)
    for _ in range(6):
        t = Tree.random_tree(us1, rng.randint(1, 4))
        nets.append((f"gp1:{t}", genotype_to_phenotype_tree(t, 3, 1, "softmax", True), 3))
    for name, net in hand_nets():
        nets.append(("hand:" + name, net, len(net._inputs)))

    ops, ctx = [], []
    for name, net, nin in nets:
        nconn = len(net._connects)
        samples = 3
        X = np.array([[rng.uniform(-2, 2) for _ in range(nin)] for _ in range(samples)])
        X[1] *= 40.0      # un-scaled features: logits of large magnitude (softmax must stay on the simplex)
        if nin > 1:
            X[1, -1] = 1.0
        W = np.array([[rng.uniform(-3, 3) for _ in range(nconn)] for _ in range(3)])
        if any(int(v) == 5 for v in net._activs.values()):
            # extreme but legal setting (weights at the optimisers' border -10, un-scaled positive features):
            # all logits far below zero; the softmax must still be the joint normalisation
            X[2] = np.array([rng.uniform(20, 60) for _ in range(nin)])
            W[2] = -10.0
        # weight vectors with whole blocks switched off (pruned connections): every weight into some targets exactly 0, and the
        # all-zero vector; the row before it in the batch has ordinary values (a reused node buffer must be overwritten)
        if nconn:
            tg = sorted({int(c[1]) for c in net._connects})
            off = set(tg[: max(1, len(tg) // 2)]) if rng.random() < 0.7 else set(tg)
            if not any(int(v) == 5 for v in net._activs.values()) or rng.random() < 0.5:
                W[1] = np.array([0.0 if int(c[1]) in off else W[1][k] for k, c in enumerate(net._connects)])
        d = {"net": name, "connections": nconn}
        chk.case((name, nconn), sample={**d, "inputs": sorted(int(i) for i in net._inputs), "outputs": sorted(int(i) for i in net._outputs)} if len(chk.samples) < 4 else None)
        chk.count(name.split(":")[0].split("(")[0])
        net._weights = W[0].copy()
        out1 = net.forward(X)                 # own weights
        outW = net.forward(X, W)              # batch of weight vectors
        out1_again = net.forward(X)           # after another call (buffer reuse / history)
        # the library installs trained weights by attribute assignment on a net (base/_mlp.py, base/_gpnn.py):
        # a net that has already been evaluated and then carries another row must return that row's result
        net._weights = W[1].copy()
        out_reassigned = net.forward(X)
        net._weights = W[0].copy()
        if out_reassigned.shape == (1, samples, len(net._outputs)) and outW.shape == (3, samples, len(net._outputs)) \
                and not np.allclose(out_reassigned[0], outW[1], rtol=1e-12, atol=1e-300, equal_nan=True):
            chk.fail("forward(X) after the net's weights were replaced still uses the weights of an earlier forward call",
                     {"net": name, "connections": nconn, "max_abs_diff": float(np.nanmax(np.abs(out_reassigned[0] - outW[1])))},
                     {"kind": name.split(":")[0], "net": name if name.startswith("hand:") else "generated", "clause": "history"})
        feats = {"kind": name.split(":")[0], "net": name if name.startswith("hand:") else "generated"}
        if out1.shape != (1, samples, len(net._outputs)) or outW.shape != (3, samples, len(net._outputs)):
            chk.fail("forward returns the wrong shape", {**d, "shape": list(outW.shape)}, {**feats, "clause": "shape"})
            continue
        if not np.array_equal(out1, out1_again):
            chk.fail("forward depends on earlier forward calls", d, {**feats, "clause": "history"})
        # batch row n = net carrying row n
        for n in range(3):
            cp = net.copy()
            cp._weights = W[n].copy()
            o = cp.forward(X)[0]
            if not np.allclose(o, outW[n], rtol=1e-12, atol=1e-12):
                chk.fail("forward(X, W) row differs from the net carrying that row as its weights", {**d, "row": n}, {**feats, "clause": "batch"})
        # independent reference
        outs_ids = sorted(int(i) for i in net._outputs)
        order = [list(net._outputs).index(o) if isinstance(net._outputs, list) else None for o in outs_ids]
        impl_outputs_order = [int(o) for o in net._numpy_outputs]
        for n in range(3):
            for r in range(samples):
                ref = NL.reference_forward(net, X[r], W[n])
                got = {o: float(outW[n, r, k]) for k, o in enumerate(impl_outputs_order)}
                if any(not C.close(got[o], v, 1e-9, 1e-12) for o, v in zip(outs_ids, ref)):
                    chk.fail("forward differs from the reference evaluation of the graph", {**d, "sample": r, "weights_row": n, "got": [got[o] for o in outs_ids], "reference": ref},
                             {**feats, "clause": "reference"})
                    break
        # softmax rows on the simplex
        sm = [k for k, o in enumerate(impl_outputs_order) if int(net._activs[o]) == 5]
        if sm:
            rows = outW[:, :, sm]
            if np.any(rows < 0) or not np.allclose(rows.sum(axis=2), 1.0, atol=1e-9):
                chk.fail("softmax outputs are not non-negative rows summing to 1", {**d, "row_sums": rows.sum(axis=2)[0].tolist()}, {**feats, "clause": "softmax"})
        # shuffled connection list (weights permuted along)
        perm = list(range(nconn))
        rng.shuffle(perm)
        sh = net.copy()
        sh._connects = net._connects[perm].copy()
        sh._weights = W[1][perm].copy()
        sh._numpy_inputs = None
        o_sh = sh.forward(X)[0]
        o_sh = {int(o): o_sh[:, k] for k, o in enumerate(sh._numpy_outputs)}
        if any(not np.allclose(o_sh[o], outW[1][:, k], rtol=1e-9, atol=1e-12) for k, o in enumerate(impl_outputs_order)):
            chk.fail("forward depends on the order of the connection list", d, {**feats, "clause": "conn_order"})
        # interleaved calls on a copy do not disturb the original
        cp = net.copy()
        cp._weights = W[2].copy()
        cp.forward(X * 3.0)
        if not np.array_equal(net.forward(X), out1):
            chk.fail("a forward call on a copy changed the original net's result", d, {**feats, "clause": "history"})
        # the data may be stored as float32 / integers / booleans / in Fortran order: the result is the float64 function of the numbers in it
        Xi = np.round(X * 2.0)
        for dt_name, Xd in (("int64", Xi.astype(np.int64)), ("int32", Xi.astype(np.int32)), ("bool", (Xi > 0)), ("float32", X.astype(np.float32)),
                            ("fortran", np.asfortranarray(X))):
            chk.count("dtype_" + dt_name)
            try:
                o_d = np.asarray(net.forward(Xd, W))
                o_f = np.asarray(net.forward(np.ascontiguousarray(Xd, dtype=np.float64), W))
                same = o_d.shape == o_f.shape and np.allclose(o_d.astype(np.float64), o_f, rtol=1e-12, atol=1e-300, equal_nan=True)
                det = {"max_abs_diff": float(np.nanmax(np.abs(o_d.astype(np.float64) - o_f))) if o_d.shape == o_f.shape and o_d.size else None, "result_dtype": str(o_d.dtype)}
            except Exception as e:  # noqa
                same, det = False, {"error": repr(e)[:160]}
            if not same:
                chk.fail("forward differs from the reference evaluation of the graph", {**d, "scenario": "the same numbers stored as " + dt_name + " and as float64 give different outputs", **det},
                         {**feats, "clause": "x_dtype", "dtype": dt_name})
        # S3: certificate + Float evaluation of the implementation's schedule by the model
        nj = NL.net_json(net)
        sch = NL.sched_json(net)
        ops.append({"op": "net_check", "net": nj, "sched": sch})
        ctx.append(("certificate", d, feats, None))
        xs = [[NL.fbits(X[r][i]) for i in sorted(int(i) for i in net._inputs)] for r in range(samples)]
        ops.append({"op": "net_forward", "net": nj, "sched": sch, "weights": [[NL.fbits(v) for v in W[n]] for n in range(3)], "x": xs})
        ctx.append(("forward", d, feats, (outW, impl_outputs_order, outs_ids)))

    # ---- the TRANSLATED softmax kernel (TFV/Generated/Src/Net_softmax_numba.lean, read through TFV.Model.NpQ) evaluated by Lean against the real
    #      njit function on arrays whose shifted entries are 0 or below -800 (there the double exp is exactly 1 resp. 0, which is what the
    #      `expo` handed to the Lean definition returns): row maxima, the broadcast subtraction, the row sums and the division are exercised
    import subprocess
    from thefittest.utils import softmax_numba as _softmax_numba
    scases = []
    for _ in range(20 if tier == "quick" else 150):
        nr_, nc_ = rng.randint(1, 4), rng.randint(1, 5)
        rows_ = []
        for _r in range(nr_):
            off_ = rng.randint(-8, 8) * 4
            rows_.append([off_ + rng.choice([0, 0, -800, -1600]) for _ in range(nc_)])
        scases.append(rows_)
    slines = ["import TFV.Generated.Src.Net_softmax_numba", "open TFV TFV.Generated.Src",
              "def showM : Option NpQ.Mat → String | none => \"none\" | some m => toString (m.rows.map fun r => r.map fun q => (q.num, q.den))"]
    for rows_ in scases:
        slines.append("#eval IO.println (showM (Net_softmax_numba (fun z => if z = 0 then 1 else 0) { ncols := %d, rows := %s }))"
                      % (len(rows_[0]), "[" + ", ".join("[" + ", ".join("(%d : Rat)" % v for v in r) + "]" for r in rows_) + "]"))
    # ... and multiactivation2d for every code, on entries where the double exp / tanh are exact: 0 and magnitudes at which they saturate
    from thefittest.utils import multiactivation2d as _mact
    acases = []
    for code_ in (0, 1, 2, 3, 4, 5, 0, 1, 2, 3, 4):
        nr_, nc_ = rng.randint(1, 3), rng.randint(1, 4)
        pool_ = {0: [0, 800], 1: [-3, 0, 2, 5], 2: [0, 30, -30], 3: [0, 40, -40], 4: [-3, 0, 7], 5: [0, -800]}[code_]
        acases.append((code_, [[rng.choice(pool_) for _ in range(nc_)] for _ in range(nr_)]))
    slines.insert(0, "import TFV.Generated.Src.Net_multiactivation2d")
    for code_, rows_ in acases:
        slines.append("#eval IO.println (showM (Net_multiactivation2d (fun z => if z = 0 then 1 else 0) (fun z => if z = 0 then 0 else if z > 0 then 1 else -1) { ncols := %d, rows := %s } %d))"
                      % (len(rows_[0]), "[" + ", ".join("[" + ", ".join("(%d : Rat)" % v for v in r) + "]" for r in rows_) + "]", code_))
    saudit = C.LEAN / "TFV" / "Audit" / "C12_np.lean"
    saudit.parent.mkdir(parents=True, exist_ok=True)
    saudit.write_text("\n".join(slines) + "\n")
    with C.LeanLock():
        spr = subprocess.run(["lake", "env", "lean", str(saudit.relative_to(C.LEAN))], cwd=C.LEAN, capture_output=True, text=True, timeout=900)
    sgot = [l.strip() for l in spr.stdout.splitlines() if l.strip()]
    chk.obligation("the translated softmax kernel evaluates (lake env lean TFV/Audit/C12_np.lean)", spr.returncode == 0 and len(sgot) == len(scases) + len(acases), (spr.stdout + spr.stderr)[-600:])
    if spr.returncode == 0 and len(sgot) == len(scases) + len(acases):
        import re as _re
        for (code_, rows_), g in zip(acases, sgot[len(scases):]):
            with np.errstate(all="ignore"):
                real = [float(v) for v in np.asarray(_mact(np.array(rows_, dtype=np.float64), np.int64(code_))).reshape(-1)]
            vals = [int(a) / int(b) for a, b in _re.findall(r"\((-?\d+), (\d+)\)", g)]
            chk.count("np_kernel_activation_%d" % code_)
            same = len(real) == len(vals) and all(C.close(a, b, 1e-12, 1e-15) for a, b in zip(real, vals))
            (chk.agree("np_kernel:multiactivation2d") if same else chk.disagree("np_kernel:multiactivation2d", {"input": {"X": rows_, "code": code_}, "impl": real, "model": g}))
        for rows_, g in zip(scases, sgot):
            real = [float(v) for v in np.asarray(_softmax_numba(np.array(rows_, dtype=np.float64))).reshape(-1)]
            vals = [int(a) / int(b) for a, b in _re.findall(r"\((-?\d+), (\d+)\)", g)]
            chk.count("np_kernel_softmax")
            same = len(real) == len(vals) and all(C.close(a, b, 1e-12, 1e-15) for a, b in zip(real, vals))
            (chk.agree("np_kernel:softmax_numba") if same else chk.disagree("np_kernel:softmax_numba", {"input": {"X": rows_}, "impl": real, "model": g}))

    try:
        outs = C.lean_driver([json.dumps(o) for o in ops])
    except Exception as e:
        chk.obligation("driver run", False, str(e))
        outs = []
    for o, (kind, d, feats, extra) in zip(outs, ctx):
        if "error" in o:
            chk.disagree(kind, {"input": d, "model_error": o["error"]})
            continue
        m = o["ok"]
        if kind == "certificate":
            if not m["valid_schedule"]:
                chk.disagree("certificate", {"input": d, "model": m})
            elif not m["softmax_together"]:
                # hypothesis `hsm` of C12_schedule_sound fails: the softmax is not joint over the output layer
                chk.fail("softmax nodes are scheduled in different groups: each is normalised alone instead of jointly over the output layer",
                         {**d}, {**feats, "clause": "softmax_split"})
            else:
                chk.agree("certificate")
        else:
            outW, impl_order, outs_ids = extra
            # m[sample][weightrow][k] with outputs in sorted id order
            ok = True
            for r in range(outW.shape[1]):
                for n in range(outW.shape[0]):
                    for k, oid in enumerate(outs_ids):
                        got = float(outW[n, r, impl_order.index(oid)])
                        if not C.close(got, NL.bits_f(m[r][n][k]), 1e-9, 1e-12):
                            ok = False
            (chk.agree("forward") if ok else chk.disagree("forward", {"input": d}))
    chk.notes.append("MLP-builder nets (hidden tuples incl. none, bias on/off, 4 activations), GP-decoded nets, hand-built DAGs with skip and duplicate connections; 3 samples x 3 weight rows each; reference evaluation, batch vs per-row, shuffled connections, repeated/interleaved calls")
    chk.trusted.append("floating-point evaluation (exp, tanh, summation order) is compared at 1e-9, not proved; the theorems are over Rat with abstract activations")
    return chk.finish()


def replay(path: str) -> int:
    return main("quick")
