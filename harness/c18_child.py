"""child process of the C18 check: seeded fits of the GP estimators (and one MLPEA classifier), fingerprint on stdout.
Run under different PYTHONHASHSEED values: the same seed gives the same model whichever interpreter start it is."""
import json
import sys

import numpy as np


def main():
    sys.path.insert(0, sys.argv[1])
    import estim as E
    E.install_validate_data()
    from thefittest.regressors import GeneticProgrammingRegressor
    from thefittest.classifiers import GeneticProgrammingClassifier, MLPEAClassifier
    from thefittest.optimizers import SelfCGP, GeneticProgramming
    rs = np.random.RandomState(12)
    X = rs.uniform(-2, 2, size=(30, 2))
    y = X[:, 0] * X[:, 1] + np.cos(X[:, 0])
    lab = np.where(X[:, 0] + X[:, 1] > 0, "yes", "b")
    out = {}
    for oname, opt in (("SelfCGP", SelfCGP), ("GeneticProgramming", GeneticProgramming)):
        for fs in (None, ("add", "mul", "sub", "cos", "div")):
            kw = dict(n_iter=3, pop_size=10, optimizer=opt, random_state=17)
            if fs is not None:
                kw["functional_set_names"] = fs
            r = GeneticProgrammingRegressor(**kw).fit(X, y)
            out["GPRegressor/%s/%s" % (oname, "default" if fs is None else "five")] = {"tree": str(r.get_tree()), "pred": [float(v).hex() for v in r.predict(X[:6])]}
            c = GeneticProgrammingClassifier(**kw).fit(X, lab)
            out["GPClassifier/%s/%s" % (oname, "default" if fs is None else "five")] = {"tree": str(c.get_tree()), "pred": [str(v) for v in c.predict(X[:10])]}
    m = MLPEAClassifier(n_iter=3, pop_size=8, hidden_layers=(2,), random_state=17).fit(X, lab)
    out["MLPEAClassifier"] = {"tree": [float(w).hex() for w in m.get_net()._weights], "pred": [str(v) for v in m.predict(X[:10])]}
    print("FINGERPRINT " + json.dumps(out))


if __name__ == "__main__":
    main()
