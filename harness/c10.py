"""C10 — binary/Gray decoding is the stated grid bijection and inverts correctly.

S3: SamplingGrid / GrayCode transform and inverse_transform against TFV.Model.Gray (exact rationals
vs doubles at 1e-9; bit strings exactly), exhaustive over all bit strings for small widths.
S4: endpoints, box, injectivity, Gray adjacency, round trips, fixed output length (batches that
do not contain the largest code), bits-from-step.
"""
from __future__ import annotations

import itertools
import json
import random as pyrandom
from fractions import Fraction

import numpy as np

import common as C


def main(tier: str) -> int:
    chk = C.Check("C10", tier)
    chk.lean()
    from thefittest.utils.transformations import SamplingGrid, GrayCode

    rng = pyrandom.Random(chk.seed)
    wmax = 8 if tier == "quick" else 11
    ops, ctx = [], []

    def add(op, c):
        ops.append(op)
        ctx.append(c)

    def vars_json(g):
        return [{"l": C.rat(float(l)), "r": C.rat(float(r)), "bits": int(b)}
                for l, r, b in zip(g.get_left_border(), g.get_right_border(), g.get_bits_per_variable())]

    calls, used = {}, {}

    def one_grid(cls, left, right, bits, dtype, full=True):
        gray = cls is GrayCode
        nvar = len(bits)
        # every other grid re-fits an instance that has already been fitted and used with another configuration
        # ("for a fitted SamplingGrid or GrayCode": the current fit is the one that counts)
        calls[cls] = calls.get(cls, 0) + 1
        reuse = calls[cls] % 2 == 0 and cls in used
        g = used[cls] if reuse else cls()
        chk.count("refitted_instance" if reuse else "fresh_instance")
        # the caller keeps (and later reuses) the vectors it passed to fit: a fitted grid does not depend on them any more
        work_bits = np.array(bits, dtype=np.int64)
        work_left, work_right = np.array(left, dtype=np.float64), np.array(right, dtype=np.float64)
        g = g.fit(left_border=work_left, right_border=work_right, num_variables=nvar, bits_per_variable=work_bits)
        work_bits[...] = work_bits[::-1] + 1
        work_left += 3.5
        work_right *= -2.0
        used[cls] = g
        total = int(sum(bits))
        if int(g.get_str_len()) != total:
            chk.fail("get_str_len differs from the sum of the bits", {"bits": bits}, {"fn": "get_str_len"})
        if full:
            rows = list(itertools.product((0, 1), repeat=total))
        else:
            rows = [tuple(rng.randint(0, 1) for _ in range(total)) for _ in range(64)]
            rows += [tuple([0] * total), tuple([1] * total)]
            # neighbouring codes of the last variable (they must still decode to different points)
            for base in rows[:8]:
                rows.append(tuple(base[:-1]) + (1 - base[-1],))
            rows = list(dict.fromkeys(rows))
        pop = np.array(rows, dtype=dtype)
        before = pop.copy()
        try:
            out = g.transform(pop)
        except Exception as e:  # noqa
            chk.fail("transform raises on bit strings of the stated total length", {"grid": cls.__name__, "bits": bits, "refitted_instance": reuse, "error": repr(e)[:200]},
                     {"fn": "transform", "clause": "raises"})
            used.pop(cls, None)
            return
        if not np.array_equal(pop, before):
            chk.fail("transform modified its input", {"bits": bits}, {"fn": "transform"})
        vj = vars_json(g)
        h = g.get_h_per_variable()
        seen = set()
        for row, pt in zip(rows, out):
            key = tuple(float(x) for x in pt)
            chk.case((cls.__name__, tuple(bits), row, str(dtype)), sample={"grid": cls.__name__, "left": left, "right": right, "bits": bits, "row": list(row), "point": list(key)} if len(chk.samples) < 3 else None)
            # S4 oracles
            for v in range(nvar):
                if not (left[v] - 1e-9 <= pt[v] <= right[v] + 1e-9):
                    chk.fail("transform output outside the box", {"left": left, "right": right, "bits": bits, "row": list(row), "point": list(key)}, {"fn": "transform", "clause": "box"})
            if key in seen:
                chk.fail("two distinct bit strings decode to the same point", {"bits": bits, "row": list(row)}, {"fn": "transform", "clause": "injective"})
            seen.add(key)
            if len(ops) < (6000 if tier == "quick" else 60000):
                add({"op": "gray_transform", "vars": vj, "gray": gray, "row": [bool(b) for b in row]},
                    ("transform", {"grid": cls.__name__, "left": left, "right": right, "bits": bits, "row": list(row)}, list(key)))
        # endpoints
        z = g.transform(np.zeros((1, total), dtype=dtype))[0]
        if not all(C.close(float(z[v]), left[v], 1e-12, 1e-12) for v in range(nvar)):
            chk.fail("the all-zero string does not map to left_border", {"left": left, "bits": bits, "point": [float(x) for x in z]}, {"fn": "transform", "clause": "zero"})
        if not gray:
            o = g.transform(np.ones((1, total), dtype=dtype))[0]
            if not all(C.close(float(o[v]), right[v], 1e-9, 1e-9) for v in range(nvar)):
                chk.fail("the all-ones binary string does not map to right_border", {"right": right, "bits": bits, "point": [float(x) for x in o]}, {"fn": "transform", "clause": "ones"})
        # round trip on SUB-batches that do not contain the largest code (fixed length clause)
        for sub in (out[:1], out[: max(1, len(out) // 3)], out):
            try:
                back = g.inverse_transform(np.array(sub))
            except Exception as e:  # noqa
                chk.fail("inverse_transform raises on a batch of grid points", {"grid": cls.__name__, "bits": bits, "batch_rows": len(sub), "error": repr(e)[:200]},
                         {"fn": "inverse_transform", "clause": "fixed_length"})
                continue
            if back.shape != (len(sub), total):
                chk.fail("inverse_transform output length depends on the batch (not the fitted number of bits)",
                         {"grid": cls.__name__, "bits": bits, "batch_rows": len(sub), "shape": list(back.shape), "expected_cols": total},
                         {"fn": "inverse_transform", "clause": "fixed_length"})
                continue
            exp = np.array(rows[: len(sub)], dtype=np.int64)
            if not np.array_equal(back.astype(np.int64), exp):
                bad = int(np.argmax(np.any(back.astype(np.int64) != exp, axis=1)))
                chk.fail("inverse_transform(transform(b)) != b", {"grid": cls.__name__, "bits": bits, "row": list(rows[bad]), "back": [int(x) for x in back[bad]]},
                         {"fn": "inverse_transform", "clause": "roundtrip"})
        # two batches of the same size encoded one after the other: the strings handed out for the first stay what they were
        if len(out) >= 4:
            k2 = len(out) // 2
            try:
                s1 = g.inverse_transform(np.array(out[:k2]))
                s1_then = np.array(s1, copy=True)
                g.inverse_transform(np.array(out[k2: 2 * k2]))
                chk.count("held_result")
                if not np.array_equal(s1, s1_then):
                    chk.fail("inverse_transform(transform(b)) != b", {"grid": cls.__name__, "bits": bits, "scenario": "the strings returned for one batch changed when the next batch of the same size was encoded",
                                                                       "rows_changed": int(np.sum(np.any(np.asarray(s1) != s1_then, axis=1)))},
                             {"fn": "inverse_transform", "clause": "held_result"})
            except Exception:
                pass
        # inverse on random points of the box: model equality + nearest grid point
        pts = np.array([[rng.uniform(left[v], right[v]) for v in range(nvar)] for _ in range(8)] + [list(right)])
        try:
            back = g.inverse_transform(pts)
            if back.shape == (len(pts), total):
                again = g.transform(back)
                for p, b, a in zip(pts, back, again):
                    if any(abs(a[v] - p[v]) > h[v] / 2 + 1e-9 for v in range(nvar)):
                        chk.fail("transform(inverse_transform(x)) is not a nearest grid point", {"grid": cls.__name__, "bits": bits, "x": [float(t) for t in p], "got": [float(t) for t in a]},
                                 {"fn": "inverse_transform", "clause": "nearest"})
                    q = [(Fraction(float(p[v])) - Fraction(float(left[v]))) / Fraction(float(h[v])) for v in range(nvar)]
                    if all(abs((qq % 1) - Fraction(1, 2)) > Fraction(1, 10 ** 6) for qq in q):
                        vj2 = [{"l": C.rat(float(left[v])), "r": C.rat(float(right[v])), "bits": int(bits[v])} for v in range(nvar)]
                        add({"op": "gray_inverse", "vars": vj2, "gray": gray, "xs": [C.rat(float(t)) for t in p]},
                            ("inverse", {"grid": cls.__name__, "left": left, "right": right, "bits": bits, "x": [float(t) for t in p]}, [bool(t) for t in b]))
        except Exception as e:  # noqa
            chk.fail("inverse_transform raises on points of the box", {"grid": cls.__name__, "bits": bits, "error": repr(e)[:200]},
                     {"fn": "inverse_transform", "clause": "fixed_length"})

    # exhaustive single-variable grids for every width
    for cls in (SamplingGrid, GrayCode):
        for w in range(1, wmax + 1):
            left, right = [rng.choice([-5.12, 0.0, -1.0, 3.25])], None
            right = [left[0] + rng.choice([1.0, 10.24, 0.5, 7.0])]
            one_grid(cls, left, right, [w], np.int8 if w % 2 else np.float64)
        # all bits-per-variable vectors with <= 3 variables, widths <= 3 (4 in thorough)
        wv = 3 if tier == "quick" else 4
        for nvar in (2, 3):
            for bits in itertools.product(range(1, wv + 1), repeat=nvar):
                if sum(bits) > (9 if tier == "quick" else 12):
                    continue
                left = [rng.choice([-2.0, 0.0, 1.5]) for _ in range(nvar)]
                right = [l + rng.choice([1.0, 4.0, 0.75]) for l in left]
                one_grid(cls, left, right, list(bits), np.int8)
        # wide variables, sampled rows (16 bits as used for network weights)
        one_grid(cls, [-10.0, -10.0], [10.0, 10.0], [16, 16], np.int8, full=False)
        # "every bits-per-variable vector": widths beyond 16 and beyond 32, sampled rows
        one_grid(cls, [0.0], [1.0], [17], np.int8, full=False)
        one_grid(cls, [-1.0, 2.0], [1.0, 3.0], [20, 3], np.float64, full=False)
        one_grid(cls, [0.0], [8.0], [33], np.int8, full=False)
        # "every box and step": steps near and below 1e-12 - a tiny box with few bits, the 40-bit example of fit's docstring
        one_grid(cls, [0.0, 5e-12], [1e-11, 3e-11], [4, 3], np.int8)
        one_grid(cls, [0.9], [1.5], [40], np.int8, full=False)

    # Gray adjacency through the public static methods
    for w in range(1, wmax + 1):
        ints = np.arange(2 ** w, dtype=np.int64)
        bits_ = SamplingGrid.int_to_bit(ints)  # the batch contains the largest code: width w
        if bits_.shape[1] != w:
            chk.fail("int_to_bit width", {"w": w, "shape": list(bits_.shape)}, {"fn": "int_to_bit"})
            continue
        gray = GrayCode.bit_to_gray(bits_).astype(np.int64)
        back = GrayCode.gray_to_bit(gray)
        if not np.array_equal(back.astype(np.int64), bits_.astype(np.int64)):
            chk.fail("gray_to_bit(bit_to_gray(b)) != b", {"w": w}, {"fn": "gray_roundtrip"})
        d = np.sum(gray[1:] != gray[:-1], axis=1)
        if not np.all(d == 1):
            chk.fail("successive Gray codes differ in more than one bit", {"w": w}, {"fn": "gray_adjacent"})
        add({"op": "gray_codes", "w": w}, ("gray_codes", {"w": w}, [[bool(x) for x in r] for r in gray]))
        chk.case(("gray_codes", w))

    # bits from a step
    for _ in range(60 if tier == "quick" else 600):
        left = rng.choice([-5.0, 0.0, -1.28])
        right = left + rng.choice([1.0, 10.24, 2.56, 100.0])
        hreq = rng.choice([0.5, 0.1, 0.01, 0.3, 1.0, 0.001])
        g = SamplingGrid().fit(left_border=left, right_border=right, num_variables=2, h_per_variable=hreq)
        b = int(g.get_bits_per_variable()[0])
        hfit = float(g.get_h_per_variable()[0])
        chk.case(("bits_from_h", left, right, hreq))
        # the grid fitted from a step is a grid in the sense of the first clause: all-ones -> right_border, outputs in the box
        ones = g.transform(np.ones((1, 2 * b), dtype=np.int8))[0]
        rnd = g.transform(np.array([[rng.randint(0, 1) for _ in range(2 * b)] for _ in range(16)], dtype=np.int8))
        if not all(C.close(float(v), right, 1e-9, 1e-9) for v in ones) or np.any(rnd < left - 1e-9) or np.any(rnd > right + 1e-9) \
                or not C.close(hfit, (right - left) / (2 ** b - 1), 1e-12, 1e-15):
            chk.fail("a grid fitted from a step h does not end at right_border (all-ones string / outputs outside the box)",
                     {"left": left, "right": right, "h": hreq, "bits": b, "h_fitted": hfit, "all_ones": [float(v) for v in ones]}, {"fn": "bits_from_h", "clause": "ones"})
        if not (hfit <= hreq * (1 + 1e-12) and b >= 1):
            chk.fail("the number of bits derived from a step h gives a coarser grid", {"left": left, "right": right, "h": hreq, "bits": b, "h_fitted": hfit}, {"fn": "bits_from_h"})
        ratio = (Fraction(right) - Fraction(left)) / Fraction(hreq) + 1
        # skip exact powers of two neighbourhoods where float log2 may round
        import math
        lg = math.log2(float(ratio))
        if abs(lg - round(lg)) > 1e-9:
            add({"op": "bits_from_h", "l": C.rat(left), "r": C.rat(right), "h": C.rat(hreq)}, ("bits_from_h", {"left": left, "right": right, "h": hreq}, b))

    # ---- the TRANSLATED vectorised kernels (TFV/Generated/Src/{SG,GC}_*.lean, read through TFV.Model.Np) evaluated by Lean on concrete
    #      arrays against the real numpy code on the same arrays: this is what ties my reading of the numpy calls to numpy
    import subprocess
    gfit = GrayCode().fit(left_border=-1.0, right_border=1.0, num_variables=2, bits_per_variable=np.array([5, 3], dtype=np.int64))
    sfit = SamplingGrid().fit(left_border=-1.0, right_border=1.0, num_variables=2, bits_per_variable=np.array([5, 3], dtype=np.int64))
    pw = [int(v) for v in gfit._powers]
    cases = []
    for _ in range(90 if tier == "quick" else 600):
        nr, nc = rng.randint(0, 4), rng.randint(0, 6)
        kind = rng.choice(["bit_to_int", "bit_to_int_p", "gray_to_bit", "bit_to_gray", "sg_decode", "gc_decode", "int_to_bit", "int_to_bit_p"])
        if kind.startswith("int_to_bit"):
            w_ = rng.randint(0, 5)
            cases.append((kind, np.array([[w_] + [rng.randint(0, 40) for _ in range(nr)]], dtype=np.int64)))      # [width, codes...] in one row
            continue
        if kind in ("bit_to_int_p", "sg_decode", "gc_decode"):
            nc = min(nc, len(pw) + 1)
        lo, hi = (0, 1) if kind != "gray_to_bit" or rng.random() < 0.5 else (-1, 2)      # logical_xor reads any non-zero entry as True
        M = np.array([[rng.randint(lo, hi) for _ in range(nc)] for _ in range(nr)], dtype=np.int64).reshape(nr, nc)
        cases.append((kind, M))

    def real(kind, M):
        try:
            if kind == "bit_to_int":
                return [int(v) for v in SamplingGrid.bit_to_int(M)]
            if kind == "bit_to_int_p":
                return [int(v) for v in SamplingGrid.bit_to_int(M, np.array(pw, dtype=np.int64))]
            if kind == "gray_to_bit":
                r = GrayCode.gray_to_bit(M)
                return [int(r.shape[1])] + [[int(v) for v in row] for row in r]
            if kind == "bit_to_gray":
                r = GrayCode.bit_to_gray(M)
                return [int(r.shape[1])] + [[int(v) for v in row] for row in r]
            if kind in ("int_to_bit", "int_to_bit_p"):
                w_, xs_ = int(M[0, 0]), np.array(M[0, 1:], dtype=np.int64)
                r = SamplingGrid.int_to_bit(xs_, None if kind == "int_to_bit" else np.array(pw, dtype=np.int64), w_)
                if w_ > len(pw) and kind == "int_to_bit_p":
                    return "skip"       # columns beyond the power table stay unassigned (np.empty): unspecified contents
                return [int(r.shape[1])] + [[int(v) for v in row] for row in r]
            if kind == "sg_decode":
                return [int(v) for v in sfit._decode(M)]
            return [int(v) for v in gfit._decode(M)]
        except Exception:
            return "none"
    lean_call = {"bit_to_int": "showV (SG_bit_to_int {m} none)", "bit_to_int_p": "showV (SG_bit_to_int {m} (some {p}))", "gray_to_bit": "showM (GC_gray_to_bit {m})",
                 "bit_to_gray": "showM (GC_bit_to_gray {m})", "sg_decode": "showV (SG_decode {p} {m})", "gc_decode": "showV (GC_decode {p} {m})"}
    lean_call["int_to_bit"] = "showM (SG_int_to_bit (fun _ => 0) {xs} none (some {w}))"
    lean_call["int_to_bit_p"] = "showM (SG_int_to_bit (fun _ => 0) {xs} (some {p}) (some {w}))"
    lines = ["import TFV.Generated.Src.SG_int_to_bit", "import TFV.Generated.Src.SG_decode", "import TFV.Generated.Src.GC_decode", "import TFV.Generated.Src.GC_bit_to_gray", "open TFV TFV.Generated.Src",
             "def showV : Option (List Int) → String | none => \"none\" | some v => toString v",
             "def showM : Option Np.Mat → String | none => \"none\" | some m => toString (([(m.ncols : Int)] :: m.rows))"]
    for kind, M in cases:
        m = "{ ncols := %d, rows := %s }" % (M.shape[1], "[" + ", ".join("[" + ", ".join(str(int(v)) for v in row) + "]" for row in M) + "]")
        lines.append("#eval IO.println (" + lean_call[kind].format(m=m, p="[" + ", ".join(map(str, pw)) + "]", w=int(M[0, 0]) if kind.startswith("int_to_bit") else 0,
                                                                  xs="[" + ", ".join(str(int(v)) for v in M[0, 1:]) + "]" if kind.startswith("int_to_bit") else "[]") + ")")
    audit = C.LEAN / "TFV" / "Audit" / "C10_np.lean"
    audit.parent.mkdir(parents=True, exist_ok=True)
    audit.write_text("\n".join(lines) + "\n")
    with C.LeanLock():
        pr = subprocess.run(["lake", "env", "lean", str(audit.relative_to(C.LEAN))], cwd=C.LEAN, capture_output=True, text=True, timeout=900)
    got = [l.strip() for l in pr.stdout.splitlines() if l.strip()]
    chk.obligation("the translated vectorised kernels evaluate (lake env lean TFV/Audit/C10_np.lean)", pr.returncode == 0 and len(got) == len(cases), (pr.stdout + pr.stderr)[-600:])
    if pr.returncode == 0 and len(got) == len(cases):
        for (kind, M), g in zip(cases, got):
            r = real(kind, M)
            if r == "skip":
                continue
            if kind in ("gray_to_bit", "bit_to_gray", "int_to_bit", "int_to_bit_p") and r != "none":
                r = [[r[0]]] + r[1:]
            want = "none" if r == "none" else str(r).replace(" ", "")
            chk.count("np_kernel_" + kind + ("_error" if want == "none" else ""))
            if g.replace(" ", "") == want:
                chk.agree("np_kernel:" + kind)
            else:
                chk.disagree("np_kernel:" + kind, {"input": {"kernel": kind, "array": M.tolist(), "shape": list(M.shape)}, "impl": r, "model": g})

    try:
        outs = C.lean_driver([json.dumps(o) for o in ops])
    except Exception as e:
        chk.obligation("driver run", False, str(e))
        outs = []
    for o, (kind, inp, impl) in zip(outs, ctx):
        if "error" in o:
            chk.disagree(kind, {"input": inp, "impl": impl, "model_error": o["error"]})
            continue
        m = o["ok"]
        if kind == "transform":
            ok = len(m) == len(impl) and all(C.close(a, C.frac(b)) for a, b in zip(impl, m))
        else:
            ok = m == impl
        (chk.agree(kind) if ok else chk.disagree(kind, {"input": inp, "impl": impl, "model": m if kind != "transform" else [float(C.frac(b)) for b in m]}))
    chk.notes.append(f"all bit strings of single variables up to width {wmax}; all bits vectors (2-3 variables, small widths); 16-bit variables sampled; int8 and float64 genotype arrays; sub-batches without the largest code")
    chk.assumptions.append("points exactly half-way between grid points (np.rint ties) are not compared (measure zero for random points)")
    return chk.finish()


def replay(path: str) -> int:
    print("replaying by re-running the deterministic quick check")
    return main("quick")
