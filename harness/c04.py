"""C04 — a run is a deterministic function of its arguments and random_state.

S0: the inventory of random-number call sites is regenerated from the current source
(harness/extract/c04_sites.py -> TFV/Generated/C04.lean) and its obligation `C04_rng_sites`
(every site on a seeded numba stream or whitelisted) is re-proved by `decide`.
S3/S4: every optimizer and every estimator is run twice with identical arguments and seed, the
second time after perturbing ALL FOUR generators (numba `random`, numba `np.random`, Python
`random`, numpy's global) and after running a different optimizer in between; per-generation
populations, fitness, adaptation state and the result must be bit-identical; an int seed and a
RandomState in the same state agree; different seeds change the initial population.
"""
from __future__ import annotations

import random as pyrandom
import subprocess
import sys

import numpy as np

import common as C
import ea_trace as T
import estim as E


def perturb(k: int):
    from thefittest.utils.random import numba_seed, random_sample, randint
    numba_seed(977 + k)
    random_sample(np.int64(50), np.int64(7 + k % 5), True)
    randint(np.int64(0), np.int64(9), np.int64(3 + k % 4))
    pyrandom.seed(k)
    [pyrandom.random() for _ in range(k % 7 + 1)]
    np.random.seed(k + 5)
    np.random.random(k % 11 + 1)


def fingerprint(rec):
    st = rec.final["stats"]
    out = {"snaps": [(tuple(s["pop_g"] and [T.key_of(x) for x in s["raw_pop_g"]]), tuple(float(v) for v in s["raw_fit"]), T.key_of(s["raw_best"][0]), s["raw_best"][2], s["no_upd"]) for s in rec.snaps]}
    for k in ("H_F", "H_CR", "H_MR", "F", "CR", "s_proba", "c_proba", "m_proba"):
        if k in st:
            out[k] = [T.key_of(np.asarray(list(v.values())) if isinstance(v, dict) else v) for v in st[k]]
    return out


def main(tier: str) -> int:
    chk = C.Check("C04", tier)
    # S0: regenerate the call-site inventory from the current tree
    p = subprocess.run([sys.executable, str(C.VERIF / "harness/extract/c04_sites.py"), str(C.REPO), str(C.LEAN / "TFV/Generated/C04.lean")],
                       capture_output=True, text=True)
    chk.obligation("regenerate TFV/Generated/C04.lean from the current source", p.returncode == 0, p.stdout + p.stderr)
    chk.distribution["rng_sites"] = p.stdout.strip().splitlines()[0] if p.stdout else ""
    chk.lean()
    import ea_trace
    rng = pyrandom.Random(chk.seed)
    # ---- optimizers
    k = 0
    for cn in T.ALL:
        cfgs = [dict(pop_size=8 if cn not in T.GP else 7, iters=6 if cn not in T.GP else 4, objective=("onemax" if cn not in T.FLOAT else "sphere"), seed=chk.seed * 10 + 3, elitism=True),
                dict(pop_size=8 if cn not in T.GP else 7, iters=5 if cn not in T.GP else 4, objective="asym", seed=chk.seed * 10 + 4, elitism=False, minimization=True)]
        if tier == "quick":
            cfgs = cfgs[:2]
        for cfg in cfgs:
            k += 1
            perturb(k)
            try:
                a = fingerprint(T.record(cn, dict(cfg)))
                # the same optimizer class again with a DIFFERENT configuration in between (per-class state must not leak)
                T.record(cn, dict(cfg, pop_size=cfg["pop_size"] + 1, iters=3, seed=cfg["seed"] + 77))
            except Exception as e:
                chk.fail("an optimizer run raises after another run of the same class in this process (state leaks between instances)",
                         {"optimizer": cn, **cfg, "error": repr(e)[:200]}, {"target": cn, "clause": "raises"})
                continue
            # another optimizer in between, then perturb all generators differently
            other = T.ALL[(T.ALL.index(cn) + 3) % len(T.ALL)]
            try:
                T.record(other, dict(pop_size=8 if other not in T.GP else 7, iters=3, objective="plateau", seed=99 + k))
            except Exception as e:
                chk.fail("an optimizer run raises after another run in this process (state leaks between instances)",
                         {"optimizer": other, "error": repr(e)[:200]}, {"target": other, "clause": "raises"})
            perturb(1000 + 7 * k)
            try:
                b = fingerprint(T.record(cn, dict(cfg)))
            except Exception as e:
                chk.fail("an optimizer run raises after another run of the same class in this process (state leaks between instances)",
                         {"optimizer": cn, **cfg, "error": repr(e)[:200]}, {"target": cn, "clause": "raises"})
                continue
            # RandomState object in the state the integer seed produces
            cfg_rs = dict(cfg)
            cfg_rs["seed"] = np.random.RandomState(cfg["seed"])
            cfg_other = dict(cfg)
            cfg_other["seed"] = cfg["seed"] + 1
            try:
                c = fingerprint(T.record(cn, cfg_rs))
                d2 = fingerprint(T.record(cn, cfg_other))
            except Exception as e:
                chk.fail("an optimizer run raises after another run of the same class in this process (state leaks between instances)",
                         {"optimizer": cn, **cfg, "error": repr(e)[:200]}, {"target": cn, "clause": "raises"})
                continue
            chk.count(cn)
            d = {"optimizer": cn, **cfg}
            chk.case((cn, str(sorted(cfg.items()))), sample=d if len(chk.samples) < 3 else None)
            if a != b:
                gen = next((i for i, (x, y) in enumerate(zip(a["snaps"], b["snaps"])) if x != y), None)
                chk.fail("two runs with identical arguments and seed differ (the earlier random history leaked into the run)",
                         {**d, "first_differing_generation": gen, "differing_keys": [kk for kk in a if a[kk] != b.get(kk)]}, {"target": cn, "clause": "same_seed"})
            if a != c:
                chk.fail("an integer random_state and a RandomState in the same state give different runs", d, {"target": cn, "clause": "seed_key"})
            if a["snaps"][0][0] == d2["snaps"][0][0]:
                chk.fail("a different seed does not change the initial population", d, {"target": cn, "clause": "different_seed"})
    # ---- estimators
    E.install_validate_data()
    Xr, yr = E.data_regression(seed=chk.seed)
    Xc, yc = E.data_classification(seed=chk.seed)
    for name, make, kind in E.estimators(seed=chk.seed + 11):
        X, y = (Xr, yr) if kind.endswith("reg") else (Xc, yc)
        res = []
        for rep in range(2):
            perturb(50 + rep * 13 + len(name))
            if rep == 1:
                T.record("SHADE", dict(pop_size=6, iters=3, objective="sphere", seed=5))
            est = make()
            est.fit(X, y)
            pred = est.predict(X)
            model = str(est.get_tree()) if hasattr(est, "tree_") else None
            net = est.get_net() if hasattr(est, "net_") else None
            res.append((model, None if net is None else (net._connects.tolist(), [float(w) for w in net._weights]), [str(v) for v in pred]))
        chk.count(name)
        chk.case((name, "twice"))
        if res[0] != res[1]:
            chk.fail("fitting an estimator twice with the same random_state gives different models",
                     {"estimator": name, "same_tree": res[0][0] == res[1][0], "same_net": res[0][1] == res[1][1], "same_predictions": res[0][2] == res[1][2]},
                     {"target": name, "clause": "same_seed"})
    chk.notes.append("10 optimizers x 2 configurations and 6 estimators, each run twice under perturbation of all four generators with another optimizer run in between; int seed vs RandomState object; different seed")
    chk.trusted.append("equality of two executions of JIT-compiled numeric code is observed, not proved; n_jobs>1 with a stochastic genotype_to_phenotype is outside the property's quantifier")
    chk.assumptions.append("the Mersenne Twister / samplers are parameters of the model (only 'same state in, same numbers out' is used)")
    return chk.finish()


def replay(path: str) -> int:
    return main("quick")
