"""C04 — a run is a deterministic function of its arguments and random_state.

S0: the inventory of random-number call sites is regenerated from the current source
(harness/extract/c04_sites.py -> TFV/Generated/C04.lean) and its obligation `C04_rng_sites`
(every site on a seeded numba stream or whitelisted) is re-proved by `decide`.
S3/S4: every optimizer and every estimator is run twice with identical arguments and seed, the
second time after perturbing ALL FOUR generators (numba `random`, numba `np.random`, Python
`random`, numpy's global) and after running a different optimizer in between; per-generation
populations, fitness, adaptation state and the result must be bit-identical; an int seed and a
RandomState in the same state agree; different seeds change the initial population.
"""
from __future__ import annotations

import copy
import json
import random as pyrandom
import subprocess
import sys

import numpy as np

import common as C
import ea_trace as T
import estim as E


def perturb(k: int):
    from thefittest.utils.random import numba_seed, random_sample, randint
    numba_seed(977 + k)
    random_sample(np.int64(50), np.int64(7 + k % 5), True)
    randint(np.int64(0), np.int64(9), np.int64(3 + k % 4))
    pyrandom.seed(k)
    [pyrandom.random() for _ in range(k % 7 + 1)]
    np.random.seed(k + 5)
    np.random.random(k % 11 + 1)


def fingerprint(rec):
    st = rec.final["stats"]
    out = {"snaps": [(tuple(s["pop_g"] and [T.key_of(x) for x in s["raw_pop_g"]]), tuple(float(v) for v in s["raw_fit"]), T.key_of(s["raw_best"][0]), s["raw_best"][2], s["no_upd"]) for s in rec.snaps]}
    for k in ("H_F", "H_CR", "H_MR", "F", "CR", "s_proba", "c_proba", "m_proba"):
        if k in st:
            out[k] = [T.key_of(np.asarray(list(v.values())) if isinstance(v, dict) else v) for v in st[k]]
    return out


def main(tier: str) -> int:
    chk = C.Check("C04", tier)
    # S0: regenerate the call-site inventory from the current tree
    p = subprocess.run([sys.executable, str(C.VERIF / "harness/extract/c04_sites.py"), str(C.REPO), str(C.LEAN / "TFV/Generated/C04.lean")],
                       capture_output=True, text=True)
    chk.obligation("regenerate TFV/Generated/C04.lean from the current source", p.returncode == 0, p.stdout + p.stderr)
    chk.distribution["rng_sites"] = p.stdout.strip().splitlines()[0] if p.stdout else ""
    chk.lean()
    import ea_trace
    rng = pyrandom.Random(chk.seed)
    # ---- optimizers
    k = 0
    for cn in T.ALL:
        cfgs = [dict(pop_size=8 if cn not in T.GP else 7, iters=6 if cn not in T.GP else 4, objective=("onemax" if cn not in T.FLOAT else "sphere"), seed=chk.seed * 10 + 3, elitism=True),
                dict(pop_size=8 if cn not in T.GP else 7, iters=5 if cn not in T.GP else 4, objective="asym", seed=chk.seed * 10 + 4, elitism=False, minimization=True)]
        if tier == "quick":
            cfgs = cfgs[:2]
        for cfg in cfgs:
            k += 1
            perturb(k)
            try:
                a = fingerprint(T.record(cn, dict(cfg)))
                # the same optimizer class again with a DIFFERENT configuration in between (per-class state must not leak)
                T.record(cn, dict(cfg, pop_size=cfg["pop_size"] + 1, iters=3, seed=cfg["seed"] + 77))
            except Exception as e:
                chk.fail("an optimizer run raises after another run of the same class in this process (state leaks between instances)",
                         {"optimizer": cn, **cfg, "error": repr(e)[:200]}, {"target": cn, "clause": "raises"})
                continue
            # another optimizer in between, then perturb all generators differently
            other = T.ALL[(T.ALL.index(cn) + 3) % len(T.ALL)]
            try:
                T.record(other, dict(pop_size=8 if other not in T.GP else 7, iters=3, objective="plateau", seed=99 + k))
            except Exception as e:
                chk.fail("an optimizer run raises after another run in this process (state leaks between instances)",
                         {"optimizer": other, "error": repr(e)[:200]}, {"target": other, "clause": "raises"})
            perturb(1000 + 7 * k)
            try:
                b = fingerprint(T.record(cn, dict(cfg)))
            except Exception as e:
                chk.fail("an optimizer run raises after another run of the same class in this process (state leaks between instances)",
                         {"optimizer": cn, **cfg, "error": repr(e)[:200]}, {"target": cn, "clause": "raises"})
                continue
            # RandomState object in the state the integer seed produces
            cfg_rs = dict(cfg)
            cfg_rs["seed"] = np.random.RandomState(cfg["seed"])
            cfg_other = dict(cfg)
            cfg_other["seed"] = cfg["seed"] + (1 if k % 2 else 2 ** 31)      # also seeds that differ only in a high bit
            try:
                c = fingerprint(T.record(cn, cfg_rs))
                d2 = fingerprint(T.record(cn, cfg_other))
            except Exception as e:
                chk.fail("an optimizer run raises after another run of the same class in this process (state leaks between instances)",
                         {"optimizer": cn, **cfg, "error": repr(e)[:200]}, {"target": cn, "clause": "raises"})
                continue
            # random numbers consumed, and another optimizer constructed, BETWEEN construction and fit()
            def between(_k=k, _cn=cn, _cfg=cfg):
                perturb(2000 + _k)
                T.build(_cn, dict(_cfg, seed=_cfg["seed"] + 5), T.Recorder(_cn, dict(_cfg)))
                import thefittest.optimizers as _O
                _O.GeneticAlgorithm.binary_string_population(5, 7)
                _O.DifferentialEvolution.float_population(4, -1.0, 1.0, 3)
            try:
                e2 = fingerprint(T.record(cn, dict(cfg), between=between))
            except Exception as e:
                chk.fail("an optimizer run raises when other optimizers are constructed between its construction and fit()",
                         {"optimizer": cn, **cfg, "error": repr(e)[:200]}, {"target": cn, "clause": "raises"})
                e2 = a
            if a != e2:
                gen = next((i for i, (x, y) in enumerate(zip(a["snaps"], e2["snaps"])) if x != y), None)
                chk.fail("a run differs when random numbers are consumed (and another optimizer is constructed) between the optimizer's construction and fit()",
                         {"optimizer": cn, **cfg, "first_differing_generation": gen}, {"target": cn, "clause": "same_seed_delayed_fit"})
            chk.count(cn)
            d = {"optimizer": cn, **cfg}
            chk.case((cn, str(sorted(cfg.items()))), sample=d if len(chk.samples) < 3 else None)
            if a != b:
                gen = next((i for i, (x, y) in enumerate(zip(a["snaps"], b["snaps"])) if x != y), None)
                chk.fail("two runs with identical arguments and seed differ (the earlier random history leaked into the run)",
                         {**d, "first_differing_generation": gen, "differing_keys": [kk for kk in a if a[kk] != b.get(kk)]}, {"target": cn, "clause": "same_seed"})
            if a != c:
                chk.fail("an integer random_state and a RandomState in the same state give different runs", d, {"target": cn, "clause": "seed_key"})
            if a["snaps"][0][0] == d2["snaps"][0][0]:
                chk.fail("a different seed does not change the initial population", d, {"target": cn, "clause": "different_seed"})
    # ---- identical arguments include a caller-owned init_population handed to BOTH runs (same object)
    for cn in T.ALL:
        cfg = dict(pop_size=8 if cn not in T.GP else 7, iters=4, objective=("onemax" if cn not in T.FLOAT else "sphere"), seed=chk.seed * 10 + 6, elitism=True)
        init = T.make_init(cn, cfg, cfg["seed"])
        init0 = copy.deepcopy(init)
        try:
            fa = fingerprint(T.record(cn, dict(cfg, init_population=init, _init_copy=init0)))
            perturb(31 + len(cn))
            fb = fingerprint(T.record(cn, dict(cfg, init_population=init, _init_copy=init0)))
        except Exception as e:
            chk.fail("an optimizer run with a supplied init_population raises", {"optimizer": cn, **cfg, "error": repr(e)[:200]}, {"target": cn, "clause": "raises"})
            continue
        chk.count("shared_init_population")
        chk.case((cn, "shared_init"))
        if fa != fb:
            gen = next((i for i, (x, y) in enumerate(zip(fa["snaps"], fb["snaps"])) if x != y), None)
            chk.fail("two runs with identical arguments (the same init_population object) and seed differ: the first run changed the caller's array",
                     {"optimizer": cn, **cfg, "first_differing_generation": gen, "init_population_changed": T.key_of(init) != T.key_of(init0)},
                     {"target": cn, "clause": "same_seed_shared_init"})
    # ---- GP with a user-defined operator of three arguments and swap mutations (the Sattolo shuffle only has a
    #      choice to make from three arguments on), Python-level generators perturbed differently before each run
    from thefittest.base import FunctionalNode, TerminalNode, EphemeralNode, UniversalSet, create_operator
    from thefittest.utils.random import generator1
    import thefittest.optimizers as O
    xs = np.linspace(-2.0, 2.0, 16)
    us3 = UniversalSet((FunctionalNode(create_operator("({} + {})", "add", "+", lambda a, b: a + b)),
                        FunctionalNode(create_operator("pick({}, {}, {})", "pick", "pick", lambda c, a, b: np.where(np.asarray(c) > 0, a, b))),
                        FunctionalNode(create_operator("mid({}, {}, {}, {})", "mid", "mid", lambda a, b, c, e: (a + b + c + e) / 4))),
                       (TerminalNode(xs, "x0"), EphemeralNode(generator1)))

    def gp_obj(trees):
        out = np.empty(len(trees), dtype=np.float64)
        for i, t in enumerate(trees):
            with np.errstate(all="ignore"):
                v = np.mean((t() * np.ones(len(xs)) - np.abs(xs)) ** 2)
            out[i] = -v if np.isfinite(v) else -1e30
        return out
    for cls, kw in ((O.GeneticProgramming, dict(mutation="gp_custom_rate_swap", mutation_rate=1.0, crossover="gp_empty")),
                    (O.GeneticProgramming, dict(mutation="gp_strong_swap", crossover="gp_standard")),
                    (O.SelfCGP, dict(mutations=("gp_strong_swap", "gp_average_swap"))),
                    (O.PDPGP, dict(mutations=("gp_strong_swap", "gp_weak_swap")))):
        prints = []
        try:
            for rep in range(2):
                perturb(400 + 19 * rep + len(prints))
                o = cls(gp_obj, iters=5, pop_size=12, uniset=us3, max_level=7, init_level=4, keep_history=True, random_state=chk.seed + 8, **kw)
                o.fit()
                st = o.get_stats()
                prints.append(([[str(t) for t in g] for g in st["population_g"]], [[float(v) for v in f] for f in st["fitness"]]))
        except Exception as e:
            chk.fail("a GP run over a universal set with 3- and 4-argument operators raises", {"optimizer": cls.__name__, **kw, "error": repr(e)[:200]}, {"target": cls.__name__, "clause": "raises"})
            continue
        chk.count("gp_ternary_swap")
        chk.case((cls.__name__, "ternary_swap", str(sorted(kw.items()))))
        if prints[0] != prints[1]:
            gen = next((i for i, (x, y) in enumerate(zip(prints[0][0], prints[1][0])) if x != y), None)
            chk.fail("two GP runs with identical arguments and seed differ (operators of three and four arguments, swap mutation)",
                     {"optimizer": cls.__name__, **{k: str(v) for k, v in kw.items()}, "first_differing_generation": gen}, {"target": cls.__name__, "clause": "same_seed_swap"})
    # ---- the same seed with worker processes / threads (n_jobs > 1): every random draw of a run must still come from the seeded streams
    import c16_workers as W
    W.DELAYS = 0
    for cls, kw, f in ((O.GeneticAlgorithm, dict(iters=4, pop_size=10, str_len=14), W.onemax),
                       (O.GeneticProgramming, dict(iters=4, pop_size=10, uniset=T.uniset(), max_level=6, init_level=3), W.tree_size),
                       (O.SelfCGA, dict(iters=4, pop_size=10, str_len=14), W.onemax),
                       (O.DifferentialEvolution, dict(iters=4, pop_size=10, left_border=-2.0, right_border=2.0, num_variables=3), W.neg_sphere_delayed)):
        prints = []
        try:
            for rep in range(2):
                perturb(700 + 23 * rep + len(prints))
                o = cls(f, keep_history=True, n_jobs=2, random_state=chk.seed + 17, **kw)
                o.fit()
                st = o.get_stats()
                prints.append(([[T.key_of(x) for x in g] for g in st["population_g"]], [[float(v) for v in fr] for fr in st["fitness"]]))
        except Exception as e:
            chk.fail("a run with n_jobs > 1 raises", {"optimizer": cls.__name__, "error": repr(e)[:200]}, {"target": cls.__name__, "clause": "raises_parallel"})
            continue
        chk.count("same_seed_n_jobs")
        chk.case((cls.__name__, "n_jobs=2"))
        if prints[0] != prints[1]:
            gen = next((i for i, (x, y) in enumerate(zip(prints[0][0], prints[1][0])) if x != y), None)
            chk.fail("two runs with identical arguments and seed differ", {"optimizer": cls.__name__, "n_jobs": 2, "first_differing_generation": gen},
                     {"target": cls.__name__, "clause": "same_seed_n_jobs"})
    # ---- estimators
    E.install_validate_data()
    Xr, yr = E.data_regression(seed=chk.seed)
    Xc, yc = E.data_classification(seed=chk.seed)
    for name, make, kind in E.estimators(seed=chk.seed + 11):
        X, y = (Xr, yr) if kind.endswith("reg") else (Xc, yc)
        res = []
        for rep in range(2):
            perturb(50 + rep * 13 + len(name))
            if rep == 1:
                T.record("SHADE", dict(pop_size=6, iters=3, objective="sphere", seed=5))
            est = make()
            est.fit(X, y)
            pred = est.predict(X)
            model = str(est.get_tree()) if hasattr(est, "tree_") else None
            net = est.get_net() if hasattr(est, "net_") else None
            res.append((model, None if net is None else (net._connects.tolist(), [float(w) for w in net._weights]), [str(v) for v in pred]))
        # the SAME estimator object fitted again (sklearn style re-fit)
        perturb(91 + len(name))
        est.fit(X, y)
        pred = est.predict(X)
        model = str(est.get_tree()) if hasattr(est, "tree_") else None
        net = est.get_net() if hasattr(est, "net_") else None
        refit = (model, None if net is None else (net._connects.tolist(), [float(w) for w in net._weights]), [str(v) for v in pred])
        if refit != res[0]:
            chk.fail("re-fitting the same estimator object with the same random_state gives a different model",
                     {"estimator": name, "same_tree": refit[0] == res[0][0], "same_net": refit[1] == res[0][1], "same_predictions": refit[2] == res[0][2]},
                     {"target": name, "clause": "same_seed_refit"})
        # "every seed": the falsy seed 0
        res0 = []
        for rep in range(2):
            perturb(70 + rep * 17 + len(name))
            e0 = make().set_params(random_state=0)
            e0.fit(X, y)
            res0.append((str(e0.get_tree()) if hasattr(e0, "tree_") else None,
                         None if not hasattr(e0, "net_") else (e0.get_net()._connects.tolist(), [float(w) for w in e0.get_net()._weights]),
                         [str(v) for v in e0.predict(X)]))
        if res0[0] != res0[1]:
            chk.fail("fitting an estimator twice with random_state=0 gives different models",
                     {"estimator": name, "random_state": 0, "same_tree": res0[0][0] == res0[1][0], "same_net": res0[0][1] == res0[1][1]},
                     {"target": name, "clause": "same_seed_zero"})
        chk.count(name)
        chk.case((name, "twice"))
        if res[0] != res[1]:
            chk.fail("fitting an estimator twice with the same random_state gives different models",
                     {"estimator": name, "same_tree": res[0][0] == res[1][0], "same_net": res[0][1] == res[1][1], "same_predictions": res[0][2] == res[1][2]},
                     {"target": name, "clause": "same_seed"})
    # ---- the same seeded fit in DIFFERENT interpreter processes (different string-hash salts, nothing shared)
    import os as _os
    procs = []
    for hs in ("0", "1", "4242"):
        env = dict(_os.environ, PYTHONHASHSEED=hs, PYTHONPATH=str(C.REPO / "src") + ":" + str(C.VERIF / "harness"))
        # "every preceding history in the same process" / nothing but the arguments and the seed: the second child first evaluates other
        # nets with the same wiring, the third runs under another thread setting of the numerical runtime
        if hs == "1":
            env["C04_PRELUDE"] = "1"
        if hs == "4242":
            env["NUMBA_NUM_THREADS"] = "2"
        procs.append((hs, subprocess.Popen([sys.executable, str(C.VERIF / "harness/c04_child.py"), str(C.VERIF / "harness")], env=env, stdout=subprocess.PIPE, stderr=subprocess.PIPE, text=True)))
    prints = {}
    for hs, pr in procs:
        so, se = pr.communicate(timeout=900)
        line = next((l for l in so.splitlines() if l.startswith("FINGERPRINT ")), None)
        if line is None:
            chk.fail("a seeded GP fit in a fresh interpreter raises", {"PYTHONHASHSEED": hs, "error": se[-300:]}, {"target": "GPRegressor", "clause": "raises"})
        else:
            prints[hs] = json.loads(line[len("FINGERPRINT "):])
    chk.count("fresh_processes", len(prints))
    chk.case(("fresh_processes",))
    ks = sorted(prints)
    for other in ks[1:]:
        for name in prints[ks[0]]:
            if prints[other][name] != prints[ks[0]][name]:
                chk.fail("the same seeded fit gives different results in different interpreter processes",
                         {"estimator": name if name.endswith("Regressor") else "GeneticProgrammingRegressor", "optimizer": name, "PYTHONHASHSEED": [ks[0], other],
                          "other_process": {"1": "other nets with the same wiring were evaluated first", "4242": "NUMBA_NUM_THREADS=2"}.get(other, ""),
                          "trees": [prints[ks[0]][name]["tree"], prints[other][name]["tree"]], "same_initial_population": prints[other][name]["pop0"] == prints[ks[0]][name]["pop0"]},
                         {"target": "GPRegressor", "clause": "same_seed_processes"})
                break
    # ---- GP with the protected functions that mask part of their argument (logabs, div, sqrtabs, exp): exact zeros in a
    #      feature column, >= 128 samples (large buffers come from the allocator un-initialised), different heap histories
    from thefittest.regressors import GeneticProgrammingRegressor
    rs_h = np.random.RandomState(chk.seed + 3)
    Xh = np.column_stack([rs_h.randint(0, 3, size=192).astype(np.float64), rs_h.uniform(-2, 2, size=192), np.zeros(192)])
    yh = Xh[:, 0] * 2.0 + np.abs(Xh[:, 1])
    for fs in (("add", "mul", "logabs"), ("sub", "div", "sqrtabs", "logabs"), ("add", "exp", "logabs", "abs")):
        runs_h = []
        try:
            for rep in range(3):
                perturb(300 + rep)
                junk = [np.random.RandomState(rep * 7 + k).uniform(-1e6, 1e6, size=192) for k in range(40 + 30 * rep)]   # fills and frees heap blocks
                junk = [j_ * (rep + 1.5) for j_ in junk]
                del junk
                eh = GeneticProgrammingRegressor(n_iter=4, pop_size=12, functional_set_names=fs, optimizer_args={"keep_history": True}, random_state=chk.seed + 9)
                eh.fit(Xh, yh)
                st_h = eh.get_stats()
                runs_h.append(([[float(v) for v in f] for f in st_h["fitness"]], str(eh.get_tree())))
        except Exception as e:  # noqa
            chk.fail("a GP estimator over a functional set with protected functions raises", {"functional_set": list(fs), "error": repr(e)[:200]}, {"target": "GPRegressor", "clause": "raises"})
            continue
        chk.count("gp_protected_functions")
        chk.case(("gp_protected", fs))
        if any(r != runs_h[0] for r in runs_h[1:]):
            gen = next((g for r in runs_h[1:] for g, (a, b) in enumerate(zip(runs_h[0][0], r[0])) if a != b and not (np.isnan(a).all() and np.isnan(b).all())), None)
            chk.fail("two fits with identical arguments and seed differ (functional set with protected functions, exact zeros in the data, different heap histories)",
                     {"estimator": "GeneticProgrammingRegressor", "functional_set": list(fs), "samples": 192, "first_differing_generation": gen},
                     {"target": "GPRegressor", "clause": "same_seed_heap"})
    chk.notes.append("10 optimizers x 2 configurations and 6 estimators, each run twice under perturbation of all four generators with another optimizer run in between; int seed vs RandomState object; different seed")
    chk.trusted.append("equality of two executions of JIT-compiled numeric code is observed, not proved; n_jobs>1 with a stochastic genotype_to_phenotype is outside the property's quantifier")
    chk.assumptions.append("the Mersenne Twister / samplers are parameters of the model (only 'same state in, same numbers out' is used)")
    return chk.finish()


def replay(path: str) -> int:
    return main("quick")
