"""Fresh-process evaluation of benchmark problems for C20 (spawned interpreters: every query sees
pristine module-level tables), and the deterministic query batches shared with the harness."""
from __future__ import annotations

import os
import zlib

import numpy as np

DATA = os.path.join(os.environ.get("VERIF_REPO", "/repo"), "src/thefittest/benchmarks/_data")
NOISY = {"F4", "F17", "F24", "F25"}


def load(name):
    return np.loadtxt(os.path.join(DATA, name))


def reference_optimum(pid: str, D: int) -> np.ndarray:
    """the shifted optimal point the CEC2005 definition prescribes, from the raw data files"""
    files = {"F1": "sphere_func_data.txt", "F2": "schwefel_102_data.txt", "F3": "high_cond_elliptic_rot_data.txt", "F4": "schwefel_102_data.txt",
             "F6": "rosenbrock_func_data.txt", "F7": "griewank_func_data.txt", "F8": "ackley_func_data.txt", "F9": "rastrigin_func_data.txt",
             "F10": "rastrigin_func_data.txt", "F11": "weierstrass_data.txt", "F13": "EF8F2_func_data.txt", "F14": "E_ScafferF6_func_data.txt"}
    if pid in files:
        o = np.atleast_1d(load(files[pid])).astype(np.float64)
        o = o.reshape(-1)[:D].copy() if o.ndim == 1 else o[0][:D].copy()
        if pid == "F8":
            o[0:D:2] = -32.0
        return o
    if pid == "F5":
        o = load("schwefel_206_data.txt")[0][:D].copy()
        o[int(np.floor(3 * D / 4)) - 1: D] = 100
        o[: int(np.ceil(D / 4))] = -100
        return o
    if pid == "F12":
        return load("schwefel_213_data.txt")[-1][:D].copy()
    hyb = {"F15": 1, "F16": 1, "F17": 1, "F18": 2, "F19": 2, "F20": 2, "F21": 3, "F22": 3, "F23": 3, "F24": 4, "F25": 4}
    o = load(f"hybrid_func{hyb[pid]}_data.txt")[0][:D].copy()
    if pid == "F20":
        o[1:int(D / 2):2] = 5
    return o


def batch(pid: str, D: int, bounds, variant: int, seed: int) -> np.ndarray:
    """deterministic batch for a query: random points, border points, the reference optimum"""
    rs = np.random.RandomState(zlib.crc32(f"{pid}:{D}:{variant}:{seed}".encode()) % (2 ** 31))
    lo, hi = float(bounds[0]), float(bounds[1])
    n = 3 + variant % 3
    X = rs.uniform(lo, hi, size=(n, D))
    X[0, ::2] = lo
    X[0, 1::2] = hi
    opt = reference_optimum(pid, D)
    X = np.vstack([X, np.clip(opt, min(lo, opt.min()), max(hi, opt.max()))[None, :]])
    return X


def evaluate(pid: str, X: np.ndarray, noise_seed: int, instance=None):
    from thefittest.benchmarks.CEC2005 import problems_dict
    f = instance if instance is not None else problems_dict[pid]["function"]()
    if pid in NOISY:
        np.random.seed(noise_seed)
    return np.asarray(f(X), dtype=np.float64)


def fresh(task):
    """runs in a spawned interpreter"""
    pid, D, variant, seed = task
    from thefittest.benchmarks.CEC2005 import problems_dict
    X = batch(pid, D, problems_dict[pid]["bounds"], variant, seed)
    X0 = X.copy()
    y = evaluate(pid, X, 1234 + variant)
    rows = [float(evaluate(pid, X[i:i + 1].copy(), 1234 + variant)[0]) for i in range(len(X))] if pid not in NOISY else None
    # "all batch sizes": degenerate batches (1 row, 2 rows, exactly D rows, D+1 rows) of the same points, row by row
    sub = []
    if pid not in NOISY:
        rs = np.random.RandomState(zlib.crc32(f"sub:{pid}:{D}:{variant}:{seed}".encode()) % (2 ** 31))
        lo, hi = float(problems_dict[pid]["bounds"][0]), float(problems_dict[pid]["bounds"][1])
        for n in sorted({1, 2, 3, D, D + 1} if D <= 10 else {1, 2, 3}):
            B = rs.uniform(lo, hi, size=(n, D))
            if n >= 3:
                B[-1] = B[0]          # a batch may contain the same point more than once (converged populations, elitism)
            yb = evaluate(pid, B.copy(), 0)
            alone = [float(evaluate(pid, B[i:i + 1].copy(), 0)[0]) for i in range(n)]
            gap = max(abs(a - b) / max(1.0, abs(b)) for a, b in zip(yb, alone)) if len(yb) == n else float("inf")
            sub.append({"n": n, "gap": float(gap), "row0": B[0].tolist() if gap > 1e-9 else None})
    # a LARGE batch (blocked evaluation must not lose or reorder rows): n values, and sampled rows equal the row alone
    big = None
    if pid not in NOISY and variant == 0 and D in (30, 50):
        n = 20011 if D == 30 else 7001
        rs = np.random.RandomState(zlib.crc32(f"big:{pid}:{D}:{seed}".encode()) % (2 ** 31))
        lo, hi = float(problems_dict[pid]["bounds"][0]), float(problems_dict[pid]["bounds"][1])
        B = rs.uniform(lo, hi, size=(n, D))
        yb = evaluate(pid, B.copy(), 0)
        idx = [0, 1, n // 2, n - 2, n - 1]
        gaps = []
        if len(yb) == n:
            for i in idx:
                a1 = float(evaluate(pid, B[i:i + 1].copy(), 0)[0])
                gaps.append(abs(float(yb[i]) - a1) / max(1.0, abs(a1)))
        big = {"rows": n, "returned": int(len(yb)), "gap": max(gaps) if gaps else None}
    # noisy problems: the documented noise never takes a value below the optimum (many draws)
    noisy_min = None
    if pid in NOISY and D <= 10:
        rs = np.random.RandomState(zlib.crc32(f"noise:{pid}:{D}:{variant}:{seed}".encode()) % (2 ** 31))
        lo, hi = float(problems_dict[pid]["bounds"][0]), float(problems_dict[pid]["bounds"][1])
        B = rs.uniform(lo, hi, size=(1500, D))
        noisy_min = float(np.min(evaluate(pid, B, 4321 + variant + seed)))
    return {"task": list(task), "y": [float(v) for v in y], "rows": rows, "x_modified": not np.array_equal(X, X0),
            "sub": sub, "noisy_min": noisy_min, "big": big}
