"""Trees for the C08 / C09 harnesses: a universal set with arities 1, 2, 3 and integer terminals,
conversions to the driver's [symbol, arity] lists, exhaustive shape enumeration, and an independent
recursive reference (parse, evaluate, print, levels, argument positions, common region)."""
from __future__ import annotations

import itertools

import numpy as np

_CACHE = {}


def uniset(with_ephemeral=False):
    key = bool(with_ephemeral)
    if key in _CACHE:
        return _CACHE[key]
    from thefittest.base import FunctionalNode, TerminalNode, EphemeralNode, UniversalSet
    from thefittest.utils import create_operator
    import operator as op

    def tern(a, b, c):
        return a - b * c

    def neg(a):
        return -a
    fs = (FunctionalNode(create_operator("neg({})", "neg", "neg", neg)),
          FunctionalNode(create_operator("({} + {})", "add", "+", op.add)),
          FunctionalNode(create_operator("({} - {})", "sub", "-", op.sub)),
          FunctionalNode(create_operator("({} * {})", "mul", "*", op.mul)),
          FunctionalNode(create_operator("tern({}, {}, {})", "tern", "tern", tern)))
    ts = [TerminalNode(3, "x0"), TerminalNode(-2, "x1"), TerminalNode(5, "x2")]
    if with_ephemeral:
        from thefittest.utils.random import generator2
        ts.append(EphemeralNode(generator2))
    us = UniversalSet(fs, tuple(ts))
    _CACHE[key] = us
    return us


class Symbols:
    """stable symbol ids by node name; arity and interpretation tables for the driver"""

    def __init__(self):
        self.ids = {}
        self.arity = []
        self.table_int = []
        self.table_str = []

    def sid(self, node):
        from thefittest.base import FunctionalNode
        name = node._name
        if name not in self.ids:
            self.ids[name] = len(self.arity)
            if isinstance(node, FunctionalNode):
                self.arity.append(int(node._n_args))
                self.table_int.append({"k": name})
                self.table_str.append(node._value._formula)
            else:
                self.arity.append(0)
                v = node._value
                self.table_int.append({"k": "const", "v": int(v) if isinstance(v, (int, np.integer)) or float(v).is_integer() else 0})
                self.table_str.append(str(node._name))
        return self.ids[name]

    def flat(self, tree):
        return [[self.sid(n), int(a)] for n, a in zip(tree._nodes, tree._n_args)]


def make_tree(shape, us, variant=0):
    """a Tree with the given arity sequence; symbols chosen deterministically (varied by position)"""
    from thefittest.base import Tree
    nodes = []
    for pos, a in enumerate(shape):
        if a == 0:
            nodes.append(us._terminal_set[(pos + variant) % 3])
        else:
            cands = us._functional_set[a]
            nodes.append(cands[(pos + variant) % len(cands)])
    return Tree(nodes)


def shapes(max_nodes, arities=(0, 1, 2, 3)):
    """all well-formed arity sequences with at most max_nodes nodes"""
    out = []

    def rec(seq, pending):
        if pending == 0:
            out.append(tuple(seq))
            return
        if len(seq) + pending > max_nodes:
            return
        for a in arities:
            if len(seq) + 1 + (pending - 1 + a) <= max_nodes:
                rec(seq + [a], pending - 1 + a)
    rec([], 1)
    return out


# ----------------------------------------------------------------------------- recursive reference
def parse(names, ar, i=0):
    """(nested, next index): nested = (position, name, arity, [kids])"""
    kids = []
    j = i + 1
    for _ in range(ar[i]):
        k, j = parse(names, ar, j)
        kids.append(k)
    return (i, names[i], ar[i], kids), j


def wf(ar):
    pending = 1
    for a in ar:
        if pending == 0:
            return False
        pending += a - 1
    return pending == 0


def ref_eval(t, value_of, apply_of):
    pos, name, a, kids = t
    if a == 0:
        return value_of(pos, name)
    return apply_of(name, [ref_eval(k, value_of, apply_of) for k in kids])


def ref_print(t, fmt_of):
    pos, name, a, kids = t
    if a == 0:
        return name
    return fmt_of(name).format(*[ref_print(k, fmt_of) for k in kids])


def ref_levels(t, d=0, out=None):
    out = [] if out is None else out
    out.append(d)
    for k in t[3]:
        ref_levels(k, d + 1, out)
    return out


def size(t):
    return 1 + sum(size(k) for k in t[3])


def sub_at(t, i):
    if t[0] == i:
        return t
    for k in t[3]:
        if k[0] <= i < k[0] + size(k):
            return sub_at(k, i)
    return None


def ref_common(ts):
    """recursive definition of the common region of several trees: (tuples, border tuples)"""
    common, border = [], []

    def rec(nodes):
        common.append([n[0] for n in nodes])
        a = nodes[0][2]
        if all(n[2] == a for n in nodes):
            for c in range(a):
                rec([n[3][c] for n in nodes])
        else:
            border.append([n[0] for n in nodes])
    rec(ts)
    k = len(ts)
    return [[tp[j] for tp in common] for j in range(k)], [[tp[j] for tp in border] for j in range(k)]
