"""C06 — binary GA family: genotypes stay binary and operators do what they are named.

S3: every binary crossover / binomialGA / flip_mutation against TFV.Model.BinOps, exactly, with
the draws predicted by the RandomState mirror of numba's generators (relational oracles only if
the mirror breaks); pool tables of live instances against the specification table.
S4: closure, locus-wise parentage, named structure, coverage of the whole outcome set for small
strings, inputs unmodified; live optimizers with recording wrappers in the pool dictionaries
(function, tournament size, parent count, rate actually passed); every evaluated individual.
"""
from __future__ import annotations

import itertools
import json
import random as pyrandom
from fractions import Fraction

import numpy as np

import common as C
from c11 import mirror_ok

SEL_SPEC = {"proportional": ("proportional_selection", 0), "rank": ("rank_selection", 0), "tournament_k": ("tournament_selection", "tour_size"),
            "tournament_3": ("tournament_selection", 3), "tournament_5": ("tournament_selection", 5), "tournament_7": ("tournament_selection", 7)}
X_SPEC = {"empty": ("empty_crossover", 1), "one_point": ("one_point_crossover", 2), "two_point": ("two_point_crossover", 2),
          "uniform_2": ("uniform_crossover", 2), "uniform_7": ("uniform_crossover", 7), "uniform_k": ("uniform_crossover", "parents_num"),
          "uniform_prop_2": ("uniform_proportional_crossover", 2), "uniform_prop_7": ("uniform_proportional_crossover", 7),
          "uniform_prop_k": ("uniform_proportional_crossover", "parents_num"),
          "uniform_rank_2": ("uniform_rank_crossover", 2), "uniform_rank_7": ("uniform_rank_crossover", 7), "uniform_rank_k": ("uniform_rank_crossover", "parents_num"),
          "uniform_tour_3": ("uniform_tournament_crossover", 3), "uniform_tour_7": ("uniform_tournament_crossover", 7),
          "uniform_tour_k": ("uniform_tournament_crossover", "parents_num")}
M_SPEC = {"weak": ("flip_mutation", Fraction(1, 3), False), "average": ("flip_mutation", Fraction(1), False), "strong": ("flip_mutation", Fraction(3), False),
          "custom_rate": ("flip_mutation", "mutation_rate", True)}


def fname(f):
    return getattr(f, "__name__", None) or getattr(getattr(f, "py_func", None), "__name__", str(f))


def bsearch_float(v, cum):
    # binary_search_interval semantics (validated against the model in C11)
    if v <= cum[0]:
        return 0
    left, right = 0, len(cum) - 1
    while right - left > 1:
        mid = (left + right) // 2
        if v <= cum[mid]:
            right = mid
        else:
            left = mid
    return right


def main(tier: str) -> int:
    chk = C.Check("C06", tier)
    chk.lean()
    from thefittest.utils import crossovers as X
    from thefittest.utils.mutations import flip_mutation
    from thefittest.utils.random import numba_seed
    from thefittest.optimizers import GeneticAlgorithm, SelfCGA, PDPGA, SHAGA

    rng = pyrandom.Random(chk.seed)
    mirror = mirror_ok()
    chk.obligation("draw oracle: numba streams == RandomState mirror", mirror, "")
    ops, ctx = [], []

    def add(op, c):
        ops.append(op)
        ctx.append(c)

    nseeds = 60 if tier == "quick" else 400
    outcomes = {}   # (op, parents) -> set of children seen

    def check_child(name, ps, child, fit=None):
        """S4 relational oracles"""
        n = len(ps[0])
        child = [int(x) for x in child]
        d = {"operator": name, "parents": [list(map(int, p)) for p in ps], "child": child}
        if len(child) != n:
            chk.fail("crossover changed the string length", d, {"fn": name, "clause": "length"})
            return
        if any(child[i] not in {int(p[i]) for p in ps} for i in range(n)):
            chk.fail("a locus of the child does not carry the gene of any supplied parent at that locus", d, {"fn": name, "clause": "parentage"})
        a, b = [int(x) for x in ps[0]], [int(x) for x in ps[1]] if len(ps) > 1 else None
        if name == "empty_crossover" and child != a:
            chk.fail("empty crossover is not a clone of the first parent", d, {"fn": name, "clause": "structure"})
        if name == "one_point_crossover":
            ok = any(child == a[:c + 1] + b[c + 1:] or child == b[:c + 1] + a[c + 1:] for c in range(n))
            if not ok:
                chk.fail("one-point crossover child is not a prefix of one parent followed by the suffix of the other", d, {"fn": name, "clause": "structure"})
        if name == "two_point_crossover":
            ok = any(child == a[:c0] + b[c0:c1 + 1] + a[c1 + 1:] or child == b[:c0] + a[c0:c1 + 1] + b[c1 + 1:]
                     for c0 in range(n) for c1 in range(c0 + 1, n))
            if not ok:
                chk.fail("two-point crossover child is not one parent with the segment between two cuts taken from the other", d, {"fn": name, "clause": "structure"})

    # ---------------- direct calls
    for n in range(2, (6 if tier == "quick" else 8) + 1):
        for k in (2, 3, 7) if n <= 4 else (2, 5):
            # parents: distinguishable genes where possible (parent p carries gene p) and binary
            for binary in (False, True):
                if binary:
                    ps = np.array([[rng.randint(0, 1) for _ in range(n)] for _ in range(k)], dtype=np.int8)
                    if k >= 2:
                        ps[0, :] = 0
                        ps[1, :] = 1
                else:
                    ps = np.array([[p] * n for p in range(k)], dtype=np.int8)
                fit = np.array([float(rng.choice([0, 1, 2, 2, 5])) for _ in range(k)])
                if rng.random() < 0.3:
                    fit[:] = 1.0
                elif rng.random() < 0.2:
                    fit[:] = 0.0          # all-zero weights
                rank = np.array([float(x) for x in np.argsort(np.argsort(fit)) + 1])
                fkey = [C.float_key(v) for v in fit]
                psl = [[int(x) for x in p] for p in ps]
                for s in range(nseeds):
                    seed = chk.seed * 100000 + (n * 31 + k * 7 + int(binary)) * 1000 + s     # other draws for every (length, parents, alphabet)
                    rs_i, rs_u = np.random.RandomState(seed), np.random.RandomState(seed)
                    todo = ["empty_crossover", "uniform_crossover", "uniform_proportional_crossover", "uniform_rank_crossover", "uniform_tournament_crossover"]
                    if k == 2:
                        todo += ["one_point_crossover", "two_point_crossover"]
                    name = todo[s % len(todo)]
                    fn = getattr(X, name)
                    before, fit_before, rank_before = ps.copy(), fit.copy(), rank.copy()
                    numba_seed(seed)
                    child = fn(ps[:1] if False else ps, fit, rank)
                    chk.count(name)
                    if not np.array_equal(ps, before):
                        chk.fail("a crossover modified its parents", {"operator": name, "parents": psl}, {"fn": name, "clause": "inputs"})
                    if not (np.array_equal(fit, fit_before) and np.array_equal(rank, rank_before)):
                        chk.fail("a crossover modified the fitness / rank vector it was given",
                                 {"operator": name, "fitness_before": fit_before.tolist(), "fitness_after": fit.tolist()}, {"fn": name, "clause": "inputs"})
                        fit[:] = fit_before
                        rank[:] = rank_before
                    check_child(name, ps, child)
                    outcomes.setdefault((name, n, k, binary, tuple(map(tuple, psl)), tuple(fit)), set()).add(tuple(int(x) for x in child))
                    chk.case((name, n, k, binary, tuple(int(x) for x in child)), sample={"operator": name, "parents": psl, "child": [int(x) for x in child]} if len(chk.samples) < 3 else None)
                    if not mirror:
                        continue
                    ch = [int(x) for x in child]
                    if name == "one_point_crossover":
                        cut = int(rs_i.randint(0, n))
                        coin = bool(rs_u.random_sample() < 0.5)
                        add({"op": "x_one_point", "ps": psl, "cut": cut, "coin": coin}, (name, {"parents": psl, "seed": seed}, ch))
                    elif name == "two_point_crossover":
                        pts = []
                        while len(pts) < 2:
                            v = int(rs_i.randint(0, n))
                            if v not in pts:
                                pts.append(v)
                        coin = bool(rs_u.random_sample() < 0.5)
                        add({"op": "x_two_point", "ps": psl, "c0": pts[0], "c1": pts[1], "coin": coin}, (name, {"parents": psl, "seed": seed}, ch))
                    elif name == "uniform_crossover":
                        choice = [int(x) for x in rs_i.randint(0, k, size=n)]
                        add({"op": "x_uniform", "ps": psl, "choice": choice}, (name, {"parents": psl, "seed": seed}, ch))
                    elif name in ("uniform_proportional_crossover", "uniform_rank_crossover"):
                        w = fit if name == "uniform_proportional_crossover" else rank
                        cum = np.cumsum(w)
                        if cum[-1] > 0:
                            choice = []
                            while len(choice) < n:
                                roll = cum[-1] * rs_u.random_sample()
                                if roll == 0.0:
                                    continue
                                choice.append(bsearch_float(roll, cum))
                            add({"op": "x_uniform", "ps": psl, "choice": choice}, (name, {"parents": psl, "weights": list(map(float, w)), "seed": seed}, ch))
                    elif name == "uniform_tournament_crossover":
                        t = [int(x) for x in rs_i.randint(0, k, size=2 * n)]
                        pairs = [[t[2 * i], t[2 * i + 1]] for i in range(n)]
                        add({"op": "x_uniform_tour", "ps": psl, "fitness": fkey, "pairs": pairs}, (name, {"parents": psl, "fitness": list(map(float, fit)), "seed": seed}, ch))
                    elif name == "empty_crossover":
                        add({"op": "x_empty", "ps": psl}, (name, {"parents": psl}, ch))

    # outcome-set coverage ("can produce every such child") for small strings with distinguishable parents
    for (name, n, k, binary, psl, fit), seen in outcomes.items():
        if binary or n > 3 or k > 3:
            continue
        if name == "uniform_crossover" or name == "uniform_tournament_crossover":
            expected = set(itertools.product(range(k), repeat=n))
        elif name in ("uniform_proportional_crossover", "uniform_rank_crossover"):
            w = fit if name == "uniform_proportional_crossover" else None
            support = [p for p in range(k) if (w is None or w[p] > 0)]
            if w is not None and sum(w) == 0:
                support = [0]
            expected = set(itertools.product(support, repeat=n))
        elif name == "one_point_crossover":
            a, b = list(psl[0]), list(psl[1])
            expected = {tuple(a[:c + 1] + b[c + 1:]) for c in range(n)} | {tuple(b[:c + 1] + a[c + 1:]) for c in range(n)}
        elif name == "two_point_crossover":
            a, b = list(psl[0]), list(psl[1])
            expected = {tuple(a[:c0] + b[c0:c1 + 1] + a[c1 + 1:]) for c0 in range(n) for c1 in range(c0 + 1, n)} | \
                       {tuple(b[:c0] + a[c0:c1 + 1] + b[c1 + 1:]) for c0 in range(n) for c1 in range(c0 + 1, n)}
        else:
            continue
        need = len(expected) * 12
        if len(seen) and (nseeds // 7) >= need // 4:   # enough draws for coverage to be expected
            missing = expected - seen
            extra = seen - expected
            if missing and (nseeds // 6) >= need:
                chk.fail("a crossover cannot produce every child of its named structure (children over all supplied parents are missing)",
                         {"operator": name, "parents": [list(p) for p in psl], "fitness": list(fit), "missing": sorted(missing)[:6], "seen": len(seen)},
                         {"fn": name, "clause": "complete"})
            if extra:
                chk.fail("a crossover produced a child outside its named structure", {"operator": name, "extra": sorted(extra)[:4]}, {"fn": name, "clause": "structure"})

    # aimed coverage for the cut-point and per-locus crossovers: with distinguishable parents and 60 draws per possible child, every child
    # of the named structure appears (and nothing else)
    for n in (2, 3, 4, 5):
        a, b = [0] * n, [1] * n
        ps2 = np.array([a, b], dtype=np.int8)
        one = np.ones(2)
        aims = {"one_point_crossover": {tuple(a[:c + 1] + b[c + 1:]) for c in range(n)} | {tuple(b[:c + 1] + a[c + 1:]) for c in range(n)},
                "two_point_crossover": {tuple(a[:c0] + b[c0:c1 + 1] + a[c1 + 1:]) for c0 in range(n) for c1 in range(c0 + 1, n)} |
                                       {tuple(b[:c0] + a[c0:c1 + 1] + b[c1 + 1:]) for c0 in range(n) for c1 in range(c0 + 1, n)},
                "uniform_crossover": set(itertools.product((0, 1), repeat=n))}
        for name, expected in aims.items():
            fn = getattr(X, name)
            numba_seed(chk.seed * 1000 + 8_000_000 + n)
            try:
                got = {tuple(int(x) for x in fn(ps2, one, one)) for _ in range(60 * len(expected) * (2 if name == "two_point_crossover" else 1))}
            except Exception as e:  # noqa
                chk.fail("a crossover raises on valid parents", {"operator": name, "parents": [a, b], "error": repr(e)[:160]}, {"fn": name, "clause": "raises"})
                continue
            chk.count("aimed_coverage_" + name)
            chk.case(("aimed", name, n))
            if got != expected:
                chk.fail("a crossover cannot produce every child of its named structure (children over all supplied parents are missing)" if expected - got else
                         "a crossover produced a child outside its named structure",
                         {"operator": name, "parents": [a, b], "missing": sorted(expected - got)[:6], "extra": sorted(got - expected)[:4], "draws": 60 * len(expected)},
                         {"fn": name, "clause": "complete" if expected - got else "structure"})

    # aimed coverage for the tournament variant with three parents (every parent must be able to win a locus)
    ps3 = np.array([[0, 0, 0], [1, 1, 1], [2, 2, 2]], dtype=np.int8)
    for fit3 in ([1.0, 2.0, 3.0], [3.0, 2.0, 1.0], [1.0, 1.0, 1.0]):
        genes = set()
        for s in range(300):
            numba_seed(7_000_000 + s)
            ch = X.uniform_tournament_crossover(ps3, np.array(fit3), np.array(fit3))
            genes |= {int(x) for x in ch}
        chk.count("tour_coverage")
        if genes != {0, 1, 2}:
            chk.fail("uniform tournament crossover never takes a gene from some supplied parents",
                     {"parents": ps3.tolist(), "fitness": fit3, "genes_seen": sorted(genes), "seeds": 300}, {"fn": "uniform_tournament_crossover", "clause": "complete"})

    # binomialGA and flip_mutation with mirrored draws
    for s in range(nseeds * 2):
        seed = chk.seed * 100000 + 50000 + s
        n = rng.randint(2, 9)
        x = np.array([rng.randint(0, 1) for _ in range(n)], dtype=np.int8)
        m = np.array([rng.randint(0, 1) for _ in range(n)], dtype=np.int8)
        rate = rng.choice([0.0, 1.0, 0.5, 1 / 3, 1.5, 0.05, 1 / n])
        x0, m0 = x.copy(), m.copy()
        rs_u = np.random.RandomState(seed)
        if s % 2 == 0:
            numba_seed(seed)
            out = [int(v) for v in X.binomialGA(x, m, np.float64(rate))]
            chk.count("binomialGA")
            donors = [i for i in range(n) if out[i] == int(m[i]) and out[i] != int(x[i])]
            if any(out[i] not in (int(x[i]), int(m[i])) for i in range(n)) or len(out) != n:
                chk.fail("binomial crossover produced a gene of neither parent", {"x": x.tolist(), "m": m.tolist(), "CR": rate, "child": out}, {"fn": "binomialGA", "clause": "parentage"})
            if rate >= 1.0 and out != [int(v) for v in m]:
                chk.fail("binomial crossover with CR = 1 is not the mutant", {"x": x.tolist(), "m": m.tolist(), "child": out}, {"fn": "binomialGA", "clause": "rate"})
            if rate <= 0.0 and sum(1 for i in range(n) if out[i] != int(x[i])) > 1:
                chk.fail("binomial crossover with CR = 0 takes more than the forced locus from the mutant", {"x": x.tolist(), "m": m.tolist(), "child": out}, {"fn": "binomialGA", "clause": "rate"})
            if mirror:
                u = rs_u.random_sample(n + 1)
                j = int(np.floor(n * u[0]))
                mask = [bool(u[i + 1] < rate) for i in range(n)]
                add({"op": "x_binomial", "x": x.tolist(), "m": m.tolist(), "mask": mask, "j": j}, ("binomialGA", {"x": x.tolist(), "m": m.tolist(), "CR": rate, "seed": seed}, out))
        else:
            numba_seed(seed)
            out = [int(v) for v in flip_mutation(x, np.float64(rate))]
            chk.count("flip_mutation")
            if any(o not in (0, 1) for o in out) or len(out) != n:
                chk.fail("flip mutation left {0,1}^n", {"x": x.tolist(), "rate": rate, "child": out}, {"fn": "flip_mutation", "clause": "binary"})
            if rate <= 0.0 and out != x.tolist():
                chk.fail("flip mutation flipped a bit at rate 0", {"x": x.tolist(), "child": out}, {"fn": "flip_mutation", "clause": "rate"})
            if rate >= 1.0 and out != [1 - int(v) for v in x]:
                chk.fail("flip mutation at rate >= 1 did not flip every bit", {"x": x.tolist(), "rate": rate, "child": out}, {"fn": "flip_mutation", "clause": "rate"})
            if mirror:
                u = rs_u.random_sample(n)
                add({"op": "flip", "x": x.tolist(), "mask": [bool(v < rate) for v in u]}, ("flip_mutation", {"x": x.tolist(), "rate": rate, "seed": seed}, out))
        chk.case(("bf", s % 2, tuple(out), rate))
        if not (np.array_equal(x, x0) and np.array_equal(m, m0)):
            chk.fail("an operator modified its inputs", {"x": x0.tolist(), "m": m0.tolist()}, {"fn": "binomial/flip", "clause": "inputs"})

    # forced-locus coverage of binomial crossover: with CR = 0 the single donor locus must be able to
    # fall on every locus ("can produce every such child": every non-empty donor set)
    for n in (2, 3, 5, 8):
        loci = set()
        for s in range(120 * n):
            numba_seed(8_000_000 + chk.seed * 10_000 + s)
            out = X.binomialGA(np.zeros(n, dtype=np.int8), np.ones(n, dtype=np.int8), np.float64(0.0))
            loci |= {int(i) for i in np.nonzero(out)[0]}
        chk.count("binomial_forced_locus_coverage")
        if loci != set(range(n)):
            chk.fail("binomial crossover can never force some loci: not every non-empty donor set is reachable",
                     {"str_len": n, "CR": 0.0, "forced_loci_seen": sorted(loci), "draws": 120 * n}, {"fn": "binomialGA", "clause": "complete"})

    # ---------------- pool tables and wiring of live instances
    def onemax(x):
        return np.sum(x, axis=1, dtype=np.float64)

    L, P = 9, 10
    for cls in (GeneticAlgorithm, SelfCGA, PDPGA):
        kw = dict(fitness_function=onemax, iters=4, pop_size=P, str_len=L, tour_size=4, parents_num=3, mutation_rate=0.21)
        inst = cls(**kw)
        sub = {"tour_size": 4, "parents_num": 3, "mutation_rate": Fraction(0.21)}
        bad = []
        for name, (fn_, par) in SEL_SPEC.items():
            got = inst._selection_pool.get(name)
            par = sub.get(par, par)
            if got is None or fname(got[0]) != fn_ or got[1] != par:
                bad.append(("selection", name, None if got is None else (fname(got[0]), got[1])))
        for name, (fn_, par) in X_SPEC.items():
            got = inst._crossover_pool.get(name)
            par = sub.get(par, par)
            if got is None or fname(got[0]) != fn_ or got[1] != par:
                bad.append(("crossover", name, None if got is None else (fname(got[0]), got[1])))
        for name, (fn_, par, const) in M_SPEC.items():
            got = inst._mutation_pool.get(name)
            par = sub.get(par, par)
            if got is None or fname(got[0]) != fn_ or Fraction(got[1]) != Fraction(par) and abs(float(got[1]) - float(par)) > 1e-15 or bool(got[2]) != const:
                bad.append(("mutation", name, None if got is None else (fname(got[0]), got[1], got[2])))
        chk.obligation(f"pool table of {cls.__name__} equals the specification table", not bad, str(bad[:5]))
        if bad:
            chk.fail("an operator pool entry is bound to the wrong function or parameter", {"class": cls.__name__, "entries": [str(b) for b in bad[:5]]},
                     {"fn": "pool", "clause": "wiring"})

    # live runs with recording wrappers around the pool entries
    def live(cls, sel, cx, mut, seed, P=P, parents_num=3):
        rec = {"sel": [], "x": [], "m": [], "evaluated": [], "pops": [], "stale": []}

        def fit(x):
            rec["evaluated"].append(np.array(x).copy())
            return np.sum(x, axis=1, dtype=np.float64)
        kw = dict(fitness_function=fit, iters=4, pop_size=P, str_len=L, tour_size=min(4, P), parents_num=parents_num, mutation_rate=0.21, random_state=seed)
        if cls is GeneticAlgorithm:
            kw.update(selection=sel, crossover=cx, mutation=mut)
        else:
            kw.update(selections=(sel,), crossovers=(cx,) if cx == "empty" else (cx,), mutations=(mut,))
        o = cls(**kw)
        # a second instance with other parameters, constructed AFTER the one under test and never run:
        # it must not influence the first one (no state shared between instances)
        kw2 = dict(kw)
        kw2.update(tour_size=6, parents_num=5, mutation_rate=0.77, fitness_function=lambda x: np.zeros(len(x)))
        cls(**kw2)
        for pool, key in ((o._selection_pool, "sel"), (o._crossover_pool, "x"), (o._mutation_pool, "m")):
            for name in list(pool.keys()):
                ent = pool[name]

                def mk(f, name=name, key=key):
                    def w(*a):
                        r = f(*a)
                        if key == "sel":
                            rec[key].append((name, int(a[2]), int(a[3]), len(r)))
                            # the selection sees the scaled fitness and the ranks of the population the parents are taken FROM
                            # (the end-of-generation population, elite included)
                            cur = np.asarray(o._fitness_i, dtype=np.float64)
                            span = cur.max() - cur.min()
                            want_scale = (cur - cur.min()) / span if span > 0 else np.ones_like(cur)
                            from scipy.stats import rankdata as _rk
                            if not (np.allclose(np.asarray(a[0]), want_scale, rtol=1e-12, atol=1e-15) and np.array_equal(np.asarray(a[1]), _rk(cur))) and not rec["stale"]:
                                rec["stale"].append({"fitness_now": cur.tolist(), "scaled_seen_by_selection": np.asarray(a[0]).tolist()})
                        elif key == "x":
                            rec[key].append((name, len(a[0]), len(r)))
                        else:
                            rec[key].append((name, float(a[1]), len(a[0])))
                        return r
                    return w
                pool[name] = (mk(ent[0]),) + tuple(ent[1:])
        o.fit()
        return rec

    combos = [("tournament_k", "uniform_k", "custom_rate"), ("proportional", "one_point", "weak"), ("rank", "two_point", "average"),
              ("tournament_3", "uniform_prop_7", "strong"), ("tournament_5", "uniform_rank_2", "weak"), ("tournament_7", "uniform_tour_3", "average"),
              ("rank", "uniform_tour_k", "strong"), ("proportional", "uniform_7", "custom_rate")]
    if tier == "thorough":
        combos += [(s, x, m) for s in SEL_SPEC for x in X_SPEC for m in M_SPEC][::7]
    for ci, (sel, cx, mut) in enumerate(combos):
        for cls in (GeneticAlgorithm, SelfCGA, PDPGA):
            if cls is not GeneticAlgorithm and cx == "empty":
                continue
            try:
                rec = live(cls, sel, cx, mut, chk.seed + ci)
            except Exception as e:
                chk.fail("a configured operator combination raises", {"class": cls.__name__, "selection": sel, "crossover": cx, "mutation": mut, "error": repr(e)[:200]},
                         {"fn": "wiring", "clause": "raises"})
                continue
            chk.count("live_" + cls.__name__)
            chk.case(("live", cls.__name__, sel, cx, mut))
            d = {"class": cls.__name__, "selection": sel, "crossover": cx, "mutation": mut}
            sub = {"tour_size": 4, "parents_num": 3}
            exp_t = sub.get(SEL_SPEC[sel][1], SEL_SPEC[sel][1])
            exp_q = sub.get(X_SPEC[cx][1], X_SPEC[cx][1])
            mk_, mconst = M_SPEC[mut][1], M_SPEC[mut][2]
            exp_rate = 0.21 if mk_ == "mutation_rate" else float(mk_) / L
            ngen = 3
            if len(rec["sel"]) != ngen * P or len(rec["x"]) != ngen * P or len(rec["m"]) != ngen * P:
                chk.fail("not exactly one selection, crossover and mutation per offspring", {**d, "counts": [len(rec["sel"]), len(rec["x"]), len(rec["m"])]}, {"fn": "wiring", "clause": "counts"})
            if any(n != sel or t != exp_t or q != exp_q or ln != exp_q for n, t, q, ln in rec["sel"]):
                chk.fail("the configured selection / tournament size / parent count is not what is applied", {**d, "seen": sorted(set(rec["sel"]))[:4]}, {"fn": "wiring", "clause": "selection"})
            if any(n != cx or npar != exp_q or ln != L for n, npar, ln in rec["x"]):
                chk.fail("the configured crossover / parent count is not what is applied", {**d, "seen": sorted(set(rec["x"]))[:4]}, {"fn": "wiring", "clause": "crossover"})
            if any(n != mut or abs(r - exp_rate) > 1e-12 or ln != L for n, r, ln in rec["m"]):
                chk.fail("the configured mutation / rate (presets = k/str_len) is not what is applied", {**d, "expected_rate": exp_rate, "seen": sorted(set(rec["m"]))[:4]}, {"fn": "wiring", "clause": "mutation"})
            for batch in rec["evaluated"]:
                if batch.shape != (P, L) or not np.isin(batch, (0, 1)).all():
                    chk.fail("an evaluated population is not pop_size rows of {0,1}^str_len", {**d, "shape": list(batch.shape)}, {"fn": "wiring", "clause": "binary"})
                    break
            if rec["stale"]:
                chk.fail("the selection is applied to fitness values that are not those of the population the parents are taken from",
                         {**d, **rec["stale"][0]}, {"fn": "wiring", "clause": "selection_inputs"})
    # a population smaller than the configured number of parents (parents are drawn with replacement)
    for ci, (sel, cx, exp_q) in enumerate((("rank", "uniform_7", 7), ("proportional", "uniform_k", 9), ("tournament_3", "uniform_prop_7", 7), ("rank", "uniform_rank_k", 9))):
        for cls in (GeneticAlgorithm, SelfCGA, PDPGA):
            try:
                rec = live(cls, sel, cx, "weak", chk.seed + 50 + ci, P=5, parents_num=9)
            except Exception as e:
                chk.fail("a configured operator combination raises", {"class": cls.__name__, "selection": sel, "crossover": cx, "pop_size": 5, "parents_num": 9, "error": repr(e)[:200]},
                         {"fn": "wiring", "clause": "raises"})
                continue
            chk.count("live_small_pop_" + cls.__name__)
            chk.case(("live_small", cls.__name__, sel, cx))
            if any(q != exp_q or ln != exp_q for _, _, q, ln in rec["sel"]) or any(npar != exp_q for _, npar, _ in rec["x"]):
                chk.fail("the configured crossover / parent count is not what is applied",
                         {"class": cls.__name__, "selection": sel, "crossover": cx, "pop_size": 5, "parents_num": 9, "expected_parents": exp_q,
                          "seen": sorted(set((q, ln) for _, _, q, ln in rec["sel"]))[:3] + sorted(set(npar for _, npar, _ in rec["x"]))[:3]},
                         {"fn": "wiring", "clause": "crossover"})
    # SHAGA: tournament of size 2, binomialGA, flip_mutation; every individual binary
    import thefittest.optimizers._shaga as SH
    for mn_ in (False, True):
        seen = {"t": [], "b": 0, "f": 0, "ev": []}
        saved = (SH.tournament_selection, SH.binomialGA, SH.flip_mutation)

        def fit(x):
            seen["ev"].append(np.array(x).copy())
            return np.sum(x, axis=1, dtype=np.float64)
        try:
            sh = SHAGA(fitness_function=fit, iters=4, pop_size=P, str_len=L, minimization=mn_, random_state=chk.seed)
            seen["roles"] = []
            seen["last_t"] = None

            def wtour(f, r, t, q, _o=saved[0]):
                seen["t"].append((int(t), int(q)))
                # the tournament compares the (normalised) fitness of the current population: the better individual wins
                if not np.array_equal(np.asarray(f), np.asarray(sh._fitness_i)) and "key" not in seen:
                    seen["key"] = {"minimization": mn_, "key_handed_to_the_tournament": np.asarray(f).tolist()[:5], "normalised_fitness": np.asarray(sh._fitness_i).tolist()[:5]}
                res = _o(f, r, t, q)
                seen["last_t"] = int(res[0])
                return res

            def wbin(a, b, c, _o=saved[1]):
                i = seen["b"] % P
                seen["b"] += 1
                # the child of individual i: individual i is the receiver, the tournament winner the donor, CR_i the rate
                if not (np.array_equal(a, sh._population_g_i[i]) and np.array_equal(b, sh._population_g_i[seen["last_t"]]) and float(c) == float(sh._CR[i])):
                    seen["roles"].append({"offspring_index": i, "receiver_is_individual_i": bool(np.array_equal(a, sh._population_g_i[i])),
                                          "donor_is_selected_parent": bool(np.array_equal(b, sh._population_g_i[seen["last_t"]])), "rate_is_CR_i": float(c) == float(sh._CR[i])})
                return _o(a, b, c)
            SH.tournament_selection = wtour
            SH.binomialGA = wbin
            SH.flip_mutation = lambda a, p, _o=saved[2]: (seen.__setitem__("f", seen["f"] + 1), _o(a, p))[1]
            sh.fit()
            if "key" in seen:
                chk.fail("SHAGA's tournament does not compare the normalised fitness of the current population (the better individual must win)",
                         seen["key"], {"fn": "wiring", "clause": "shaga_tournament_key"})
            if seen["roles"]:
                chk.fail("SHAGA does not build offspring i from individual i (receiver) and the tournament winner (donor) at rate CR_i",
                         {"first": seen["roles"][0], "count": len(seen["roles"])}, {"fn": "wiring", "clause": "shaga_roles"})
        finally:
            SH.tournament_selection, SH.binomialGA, SH.flip_mutation = saved
        chk.count("live_SHAGA")
        if set(seen["t"]) != {(2, 1)} or seen["b"] != 3 * P or seen["f"] != 3 * P:
            chk.fail("SHAGA does not apply tournament(2) / binomial crossover / flip mutation once per offspring", {"seen": [sorted(set(seen["t"])), seen["b"], seen["f"]]}, {"fn": "wiring", "clause": "shaga"})
        for batch in seen["ev"]:
            if batch.shape != (P, L) or not np.isin(batch, (0, 1)).all():
                chk.fail("a SHAGA population is not pop_size rows of {0,1}^str_len", {"shape": list(batch.shape)}, {"fn": "wiring", "clause": "binary"})
                break

    try:
        outs = C.lean_driver([json.dumps(o) for o in ops])
    except Exception as e:
        chk.obligation("driver run", False, str(e))
        outs = []
    for o, (kind, inp, impl) in zip(outs, ctx):
        if "error" in o:
            chk.disagree(kind, {"input": inp, "impl": impl, "model_error": o["error"]})
        elif o["ok"] == impl:
            chk.agree(kind)
        else:
            chk.disagree(kind, {"input": inp, "impl": impl, "model": o["ok"]})
    chk.notes.append(f"direct operator calls: string lengths 2..{6 if tier == 'quick' else 8}, 2/3/5/7 parents, distinguishable and binary parents, fitness with ties/zeros, {nseeds} seeds each with mirrored draws; outcome-set coverage for lengths <= 3; live GA/SelfCGA/PDPGA/SHAGA with recording wrappers in the pools")
    return chk.finish()


def replay(path: str) -> int:
    return main("quick")
