"""C20 — benchmark problems are pure functions with the documented optimum.

S4: every CEC2005 problem (and the basic functions) evaluated in FRESH interpreters (pristine
module tables) and again inside long interleavings of problems, instances and dimensions in this
process: equal for the same batch (relative 1e-9; noisy problems with the global numpy generator
seeded identically); rows evaluated alone equal rows of the batch; arguments unmodified; values at
least the documented optimum; the optimum attained at the reference optimum point computed from the
raw data files per the CEC2005 definition for the dimension in use.
S3: the shift bookkeeping (F5 / F8 / F20) against TFV.Model.Bench: the model's effective shift
vector for (problem, D) is where the implementation attains its optimum, after any history; exact
rational values of sphere / Schwefel 1.2 / Rosenbrock on dyadic points.
"""
from __future__ import annotations

import json
import multiprocessing as mp
import random as pyrandom

import numpy as np

import common as C
import c20_workers as W

DIMS_ROT = (2, 10, 30, 50)


def main(tier: str) -> int:
    chk = C.Check("C20", tier)
    chk.lean()
    from thefittest.benchmarks.CEC2005 import problems_dict
    from thefittest.benchmarks import _optproblems as OP
    rng = pyrandom.Random(chk.seed)
    seed = chk.seed
    pids = [f"F{i}" for i in range(1, 26)]
    tasks = []
    for pid in pids:
        dims = problems_dict[pid]["dimentions"]
        ds = [d for d in DIMS_ROT if d in dims]
        if isinstance(dims, range):
            ds = sorted(set(ds + [3, 4, 5, 7, 8, 12, 16]))
        if tier == "quick":
            ds = [d for d in ds if d <= 30]
        for D in ds:
            for variant in range(1 if tier == "quick" else 3):
                tasks.append((pid, D, variant, seed))
    # ---- fresh interpreters
    ctx = mp.get_context("spawn")
    with ctx.Pool(processes=14, maxtasksperchild=1) as pool:
        fresh = {tuple(r["task"]): r for r in pool.map(W.fresh, tasks, chunksize=1)}
    # ---- history: long interleaving in this process
    instances = {}
    order = list(tasks)
    rng.shuffle(order)
    filler = [(rng.choice(pids), rng.choice(DIMS_ROT), 100 + k, seed) for k in range(len(tasks) * (2 if tier == "quick" else 4))]
    filler = [t for t in filler if t[1] in problems_dict[t[0]]["dimentions"] and (tier == "thorough" or t[1] <= 30)]
    seq = []
    for t in order:
        seq += [filler.pop() for _ in range(min(2, len(filler)))]
        seq.append(t)
    gap_rows = 0.0
    for t in seq:
        pid, D, variant, _ = t
        meta = problems_dict[pid]
        X = W.batch(pid, D, meta["bounds"], variant, seed)
        X0 = X.copy()
        reuse = rng.random() < 0.5 and pid in instances
        inst = instances[pid] if reuse else meta["function"]()
        instances[pid] = inst
        y = W.evaluate(pid, X, 1234 + variant, instance=inst)
        chk.count(pid)
        d = {"problem": pid, "D": D, "variant": variant, "instance": "reused" if reuse else "new"}
        if not np.array_equal(X, X0):
            chk.fail("a benchmark problem modified its argument", d, {"problem": pid, "clause": "inputs"})
            X = X0.copy()
        # the values depend on x and D only - not on the memory layout of the array that holds x (Fortran order: the transpose of a
        # (D, n) array, a frame's columns)
        if len(X) >= 2 and len(y) == len(X):
            Xf = np.asfortranarray(X.copy())
            yf = W.evaluate(pid, Xf, 1234 + variant, instance=inst)
            chk.count("fortran_ordered_batch")
            if len(yf) != len(y) or not all(C.close(float(a), float(b), 1e-9, 1e-9) for a, b in zip(y, yf)) or not np.array_equal(Xf, X):
                chk.fail("a benchmark value depends on something other than x and D", {**d, "scenario": "the same batch held in Fortran (column-major) order",
                                                                                     "c_ordered": [float(v) for v in y[:3]], "fortran_ordered": [float(v) for v in yf[:3]]},
                         {"problem": pid, "clause": "layout"})
        if t not in fresh:
            continue
        chk.case((pid, D, variant), sample={**d, "values": [float(v) for v in y[:2]]} if len(chk.samples) < 4 else None)
        fr = fresh[t]
        if fr["x_modified"]:
            chk.fail("a benchmark problem modified its argument", {**d, "where": "fresh process"}, {"problem": pid, "clause": "inputs"})
        if len(y) != len(X):
            chk.fail("a benchmark problem does not return one value per row", {**d, "values": len(y), "rows": len(X)}, {"problem": pid, "clause": "shape"})
            continue
        if not all(C.close(float(a), float(b), 1e-9, 1e-9) for a, b in zip(y, fr["y"])):
            chk.fail("a benchmark value depends on which problems / dimensions / instances were evaluated before",
                     {**d, "fresh": fr["y"][:3], "after_history": [float(v) for v in y[:3]]}, {"problem": pid, "clause": "history"})
        opt = float(meta["optimum"])
        tol = float(meta["fix_accuracy"])
        if any(v < opt - max(1e-6, 1e-9 * abs(opt)) for v in fr["y"]):
            chk.fail("a benchmark value is below the documented optimum", {**d, "min": min(fr["y"]), "optimum": opt}, {"problem": pid, "clause": "lower_bound"})
        if pid not in W.NOISY or True:
            at_opt = fr["y"][-1]
            if abs(at_opt - opt) > max(tol, 1e-6):
                chk.fail("the documented optimum is not attained at the optimal point the CEC2005 definition prescribes for this dimension",
                         {**d, "value_at_reference_optimum": at_opt, "optimum": opt}, {"problem": pid, "clause": "attained"})
        for sb in fr.get("sub", []):
            chk.count("batch_rows_%s" % ("D" if sb["n"] == D else "D+1" if sb["n"] == D + 1 else sb["n"]))
            if sb["gap"] > 1e-9:
                chk.fail("a row's value differs from the value obtained when that row is evaluated alone", {**d, "batch_rows": sb["n"], "relative_gap": sb["gap"], "first_row": sb["row0"]}, {"problem": pid, "clause": "rows"})
        if fr.get("big") is not None:
            bg = fr["big"]
            chk.count("large_batch")
            if bg["returned"] != bg["rows"]:
                chk.fail("a benchmark problem does not return one value per row", {**d, "rows": bg["rows"], "values": bg["returned"]}, {"problem": pid, "clause": "shape"})
            elif bg["gap"] is not None and bg["gap"] > 1e-9:
                chk.fail("a row's value differs from the value obtained when that row is evaluated alone", {**d, "batch_rows": bg["rows"], "relative_gap": bg["gap"]}, {"problem": pid, "clause": "rows"})
        if fr.get("noisy_min") is not None:
            chk.count("noisy_bulk")
            if fr["noisy_min"] < opt - max(1e-6, 1e-9 * abs(opt)):
                chk.fail("a noisy benchmark value is below the documented optimum", {**d, "min_over_1500_rows": fr["noisy_min"], "optimum": opt}, {"problem": pid, "clause": "lower_bound"})
        if fr["rows"] is not None:
            g = max(abs(a - b) / max(1.0, abs(a)) for a, b in zip(fr["y"], fr["rows"]))
            gap_rows = max(gap_rows, g)
            if g > 1e-9:
                chk.fail("a row's value differs from the value obtained when that row is evaluated alone", {**d, "relative_gap": g}, {"problem": pid, "clause": "rows"})
    chk.distribution["max_relative_gap_batch_vs_rowwise"] = gap_rows

    # ---- basic functions: purity, rows, arguments unmodified
    basics = ["Sphere", "Schwefe1_2", "HighConditionedElliptic", "Rosenbrock", "Rastrigin", "Griewank", "Ackley", "Weierstrass", "F8F2",
              "ExpandedScaffers_F6", "NonContinuosRastrigin", "NonContinuosExpandedScaffers_F6", "OneMax"]
    ops, ctx_ = [], []
    for name in basics:
        cls = getattr(OP, name)
        for D in (2, 5, 10):
            X = np.array([[rng.choice([-2.0, -0.75, 0.0, 0.5, 1.0, 1.25, 3.0]) for _ in range(D)] for _ in range(4)])
            X0 = X.copy()
            y1 = np.asarray(cls()(X), dtype=np.float64)
            modified = not np.array_equal(X, X0)
            y2 = np.asarray(cls()(X0.copy()), dtype=np.float64)
            rows = [float(np.asarray(cls()(X0[i:i + 1].copy()))[0]) for i in range(len(X0))]
            # a result handed out earlier is the caller's: later calls of the same object (same, fewer or single rows) leave it alone
            inst = cls()
            held = inst(X0.copy())
            held_copy = np.array(held, dtype=np.float64, copy=True)
            inst(X0[::-1].copy() * 0.5)
            inst(X0[:1].copy() + 1.0)
            gathered = np.concatenate([np.atleast_1d(inst(X0[i:i + 1].copy())) for i in range(len(X0))])
            if not np.array_equal(np.asarray(held, dtype=np.float64), held_copy, equal_nan=True) or not np.allclose(gathered, rows, rtol=1e-12, atol=0, equal_nan=True):
                chk.fail("a value returned earlier by a benchmark function was changed by a later call of the same object",
                         {**{"function": name, "D": D}, "held_before": held_copy[:3].tolist(), "held_after": np.asarray(held, dtype=np.float64)[:3].tolist(),
                          "gathered_row_results": gathered[:3].tolist(), "rows": rows[:3]}, {"problem": name, "clause": "aliased_result"})
            chk.count("basic_" + name)
            chk.case(("basic", name, D, tuple(map(tuple, X0))))
            d = {"function": name, "D": D}
            if modified:
                chk.fail("a basic benchmark function modified its argument", {**d, "before": X0[0].tolist(), "after": X[0].tolist()}, {"problem": name, "clause": "inputs"})
            if not np.allclose(y1, y2, rtol=1e-12, atol=0) or not np.allclose(y2, rows, rtol=1e-9, atol=1e-12):
                chk.fail("a basic benchmark function is not a pure row-wise function", d, {"problem": name, "clause": "rows"})
            if name in ("Sphere", "Schwefe1_2", "Rosenbrock"):
                fn = {"Sphere": "sphere", "Schwefe1_2": "schwefel12", "Rosenbrock": "rosenbrock"}[name]
                for r in range(len(X0)):
                    ops.append({"op": "bench_fn", "fn": fn, "x": [C.rat(float(v)) for v in X0[r]]})
                    ctx_.append(("basic:" + fn, {**d, "x": X0[r].tolist()}, float(y2[r])))

    # ---- shift bookkeeping against the model: after a history, the optimum sits where the model says
    for which, pid in (("f5", "F5"), ("f8", "F8"), ("f20", "F20")):
        raw = {"f5": W.load("schwefel_206_data.txt")[0], "f8": W.load("ackley_func_data.txt"), "f20": W.load("hybrid_func2_data.txt")[0]}[which]
        raw = np.asarray(raw, dtype=np.float64).reshape(-1)[:100]
        hist = [50, 10, 30] if tier == "thorough" else [30, 10]
        for D in ((2, 10, 30) if tier == "quick" else (2, 10, 30, 50)):
            ops.append({"op": "bench_shift", "problem": which, "table": [C.rat(float(v)) for v in raw], "D": D, "history": hist, "inplace": False})
            ctx_.append(("shift:" + which, {"problem": pid, "D": D, "history": hist}, None))
    # ---- the TRANSLATED elementwise functions (TFV/Generated/Src/Bench_*_f.lean, read through TFV.Model.NpQ) evaluated by Lean on
    #      populations of small dyadic numbers (every float operation on them is exact) against the real functions
    import subprocess
    import re as _re0
    _re_idx = _re0.compile(r"\((\d+), (\d+)\)")
    from fractions import Fraction as _Fr
    kcases = []
    for _ in range(40 if tier == "quick" else 300):
        kname = rng.choice(["OneMax", "Sphere", "Schwefel12", "Rosenbrock", "Rastrigin", "Griewank", "Elliptic", "Ackley", "ScafferPair"])
        nr, nc = rng.randint(0, 3), rng.randint(2 if kname == "Elliptic" else 1, 5)      # D = 1: the real condition exponent is 0/0
        den = 1 if kname == "Rastrigin" else rng.choice([1, 2, 4])        # integers for Rastrigin: cos(2 pi k) = 1
        Xk = np.array([[rng.randint(-6, 6) / den for _ in range(nc)] for _ in range(nr)], dtype=np.float64).reshape(nr, nc)
        kcases.append((kname, Xk))
    # the shifted wrapper TestShiftedFunction.__call__ over Sphere: shift tables shorter than, as long as and longer than D (and of the
    # lengths numpy broadcasts: 1, and anything against a one-column population)
    kshift = {}
    for _ in range(12 if tier == "quick" else 80):
        nr, nc = rng.randint(0, 3), rng.randint(1, 5)
        Xk = np.array([[rng.randint(-6, 6) / 2 for _ in range(nc)] for _ in range(nr)], dtype=np.float64).reshape(nr, nc)
        ln = rng.choice([0, 1, max(nc - 1, 0), nc, nc, nc + 2])
        kshift[len(kcases)] = ([rng.randint(-8, 8) / 4 for _ in range(ln)], rng.randint(-40, 40) / 2)
        kcases.append(("Shifted", Xk))
    cls_of = {"OneMax": OP.OneMax, "Sphere": OP.Sphere, "Schwefel12": OP.Schwefe1_2, "Rosenbrock": OP.Rosenbrock, "Rastrigin": OP.Rastrigin, "Griewank": OP.Griewank, "Elliptic": OP.HighConditionedElliptic, "Ackley": OP.Ackley}

    class _NpProxy:
        # numpy with exp / sqrt / cos replaced by exact stand-ins (the function parameters E, R, cs of the translated Ackley.f are set to
        # the same stand-ins on the Lean side), so that the REAL code's arithmetic around them is compared exactly
        def __getattr__(self, k):
            return getattr(np, k)
        exp = staticmethod(lambda u: np.asarray(u, dtype=np.float64) / 2 + 1)
        sqrt = staticmethod(lambda u: np.asarray(u, dtype=np.float64) * 3)
        cos = staticmethod(lambda u: 1 - (np.asarray(u, dtype=np.float64) / (2 * np.pi)) ** 2)
        sin = staticmethod(lambda u: np.asarray(u, dtype=np.float64) / 4)
    _SN2 = "(fun s => 9 * s * s / 16) "        # sin(sqrt(s))² under the stand-ins: ((3 s) / 4)²
    _ACK = "(fun u => u / 2 + 1) (fun u => 3 * u) (fun z => 1 - z * z) "

    class _ShiftedSphere(OP.TestShiftedFunction, OP.Sphere):
        def __init__(self, o, bias):
            OP.TestShiftedFunction.__init__(self, fbias=np.float64(bias), x_shift=np.array(o, dtype=np.float64))

    def _real_f(kname, Xk, ci=None):
        if kname == "Shifted":
            return _ShiftedSphere(*kshift[ci])(Xk)
        if kname not in ("Ackley", "ScafferPair"):
            return cls_of[kname]().f(Xk)
        saved = OP.np
        OP.np = _NpProxy()
        try:
            return OP.Ackley().f(Xk) if kname == "Ackley" else OP.ExpandedScaffers_F6().Scaffes_F6(Xk)
        finally:
            OP.np = saved

    def _cw_table(D):
        # the condition weights 1e6 ** (j / (D - 1)) of HighConditionedElliptic as numpy computes them, read as exact rationals
        w = 1e6 ** ((np.arange(1, D + 1) - 1) / (D - 1))
        tbl = ", ".join("(%d, %s)" % (j, _q(w[j])) for j in range(D))
        return "(fun D j => if D == %d then ((([%s] : List (Nat × Rat)).find? (fun t => t.1 == j)).map (·.2)).getD 0 else 0) " % (D, tbl)

    def _q(v):
        f = _Fr(float(v))
        return "(%d : Rat) / %d" % (f.numerator, f.denominator)

    def _csi_table(Xk):
        # Griewank's cosine parameter `csi i a` = cos(a / sqrt(i+1)) as a finite table over the entries of this population: the doubles
        # numpy computes, read as exact rationals (the arithmetic AROUND the cosines is what the evaluation compares)
        ent = sorted({(i, float(v)) for row in Xk for i, v in enumerate(row)})
        tbl = ", ".join("(%d, %s, %s)" % (i, _q(v), _q(np.cos(np.float64(v) / np.sqrt(np.float64(i + 1))))) for i, v in ent)
        return "(fun i a => ((([%s] : List (Nat × Rat × Rat)).find? (fun t => t.1 == i && t.2.1 == a)).map (·.2.2)).getD 0) " % tbl
    klines = ["import TFV.Generated.Src.Bench_OneMax_f", "import TFV.Generated.Src.Bench_Sphere_f", "import TFV.Generated.Src.Bench_Schwefel12_f",
              "import TFV.Generated.Src.Bench_Rosenbrock_f", "import TFV.Generated.Src.Bench_Rastrigin_f", "import TFV.Generated.Src.Bench_Griewank_f", "import TFV.Generated.Src.Bench_Elliptic_f", "import TFV.Generated.Src.Bench_Ackley_f", "import TFV.Generated.Src.Bench_ScafferPair", "import TFV.Generated.Src.Bench_Shifted_call", "open TFV TFV.Generated.Src",
              "def showQ : Option (List Rat) → String | none => \"none\" | some v => toString (v.map fun q => (q.num, q.den))"]
    for ci, (kname, Xk) in enumerate(kcases):
        mtx = "{ ncols := %d, rows := [%s] }" % (Xk.shape[1], ", ".join("[" + ", ".join("(%d : Rat) / %d" % (_Fr(float(v)).numerator, _Fr(float(v)).denominator) for v in row) + "]" for row in Xk))
        if kname == "Shifted":
            klines.append("#eval IO.println (showQ (Bench_Shifted_call Bench_Sphere_f [%s] (%s) %s))" % (", ".join(_q(v) for v in kshift[ci][0]), _q(kshift[ci][1]), mtx))
            continue
        klines.append("#eval IO.println (showQ (Bench_%s %s%s))" % ("ScafferPair" if kname == "ScafferPair" else kname + "_f", _SN2 if kname == "ScafferPair" else "(fun _ => 1) " if kname == "Rastrigin" else _csi_table(Xk) if kname == "Griewank" else _cw_table(Xk.shape[1]) if kname == "Elliptic" else _ACK if kname == "Ackley" else "", mtx))
    kaudit = C.LEAN / "TFV" / "Audit" / "C20_np.lean"
    kaudit.parent.mkdir(parents=True, exist_ok=True)
    kaudit.write_text("\n".join(klines) + "\n")
    with C.LeanLock():
        kpr = subprocess.run(["lake", "env", "lean", str(kaudit.relative_to(C.LEAN))], cwd=C.LEAN, capture_output=True, text=True, timeout=900)
    kgot = [l.strip() for l in kpr.stdout.splitlines() if l.strip()]
    chk.obligation("the translated benchmark functions evaluate (lake env lean TFV/Audit/C20_np.lean)", kpr.returncode == 0 and len(kgot) == len(kcases), (kpr.stdout + kpr.stderr)[-600:])
    if kpr.returncode == 0 and len(kgot) == len(kcases):
        import re as _re
        for ci, ((kname, Xk), g) in enumerate(zip(kcases, kgot)):
            try:
                real = [float(v) for v in np.asarray(_real_f(kname, Xk, ci), dtype=np.float64).reshape(-1)]
            except Exception:
                real = None
            vals = None if g == "none" else [int(a) / int(b) for a, b in _re.findall(r"\((-?\d+), (\d+)\)", g)]
            chk.count("np_kernel_" + kname)
            same = (real is None and vals is None) or (real is not None and vals is not None and len(real) == len(vals) and all(C.close(a, b, 1e-9, 1e-9) for a, b in zip(real, vals)))
            (chk.agree("np_kernel:" + kname) if same else chk.disagree("np_kernel:" + kname, {"input": {"function": kname, "population": Xk.tolist(), "shift_and_bias": kshift.get(ci)}, "impl": real, "model": g}))

    # ---- the TRANSLATED column pairing of ExpandedScaffers_F6.f / F8F2.f against the pairs the real methods hand to their pair functions
    #      (observed by replacing the pair function of an instance with a recorder and evaluating the row 0, 1, ..., D-1)
    idx_dims = list(range(1, 13)) + ([30, 50] if tier == "thorough" else [30])
    ilines = ["import TFV.Generated.Src.Bench_Scaffer_indexes", "import TFV.Generated.Src.Bench_F8F2_indexes", "open TFV TFV.Generated.Src"]
    for D in idx_dims:
        ilines.append("#eval IO.println (toString (NpQ.pairsOf (Bench_Scaffer_indexes %d)))" % D)
        ilines.append("#eval IO.println (toString (NpQ.pairsOf (Bench_F8F2_indexes %d)))" % D)
    iaudit = C.LEAN / "TFV" / "Audit" / "C20_idx.lean"
    iaudit.write_text("\n".join(ilines) + "\n")
    with C.LeanLock():
        ipr = subprocess.run(["lake", "env", "lean", str(iaudit.relative_to(C.LEAN))], cwd=C.LEAN, capture_output=True, text=True, timeout=900)
    igot = [l.strip() for l in ipr.stdout.splitlines() if l.strip()]
    chk.obligation("the translated column pairings evaluate (lake env lean TFV/Audit/C20_idx.lean)", ipr.returncode == 0 and len(igot) == 2 * len(idx_dims), (ipr.stdout + ipr.stderr)[-600:])
    if ipr.returncode == 0 and len(igot) == 2 * len(idx_dims):
        def _real_pairs(which, D):
            seen = []

            def rec(v):
                seen.append(np.asarray(v).copy())
                return np.zeros(len(v))
            row = np.arange(D, dtype=np.float64).reshape(1, D)
            if which == "Scaffer":
                inst = OP.ExpandedScaffers_F6()
                inst.Scaffes_F6 = rec
            else:
                inst = OP.F8F2()
                inst.rosenbrock_f = rec
            inst.f(row)
            return [(int(a), int(b)) for a, b in seen[0]]
        for k, D in enumerate(idx_dims):
            for j, which in enumerate(("Scaffer", "F8F2")):
                try:
                    real = _real_pairs(which, D)
                except Exception:
                    real = None
                got = [(int(a), int(b)) for a, b in _re_idx.findall(igot[2 * k + j])]
                chk.count("np_kernel_pairing_" + which)
                (chk.agree("np_kernel:pairing") if real == got else chk.disagree("np_kernel:pairing", {"input": {"method": which, "D": D}, "impl": real, "model": igot[2 * k + j]}))

    try:
        outs = C.lean_driver([json.dumps(o) for o in ops])
    except Exception as e:
        chk.obligation("driver run", False, str(e))
        outs = []
    for o, (kind, inp, impl) in zip(outs, ctx_):
        if "error" in o:
            chk.disagree(kind, {"input": inp, "model_error": o["error"]})
            continue
        if kind.startswith("basic"):
            (chk.agree(kind) if C.close(impl, C.frac(o["ok"]), 1e-12, 1e-12) else chk.disagree(kind, {"input": inp, "impl": impl, "model": float(C.frac(o["ok"]))}))
        else:
            pid, D = inp["problem"], inp["D"]
            shift = np.array([float(C.frac(v)) for v in o["ok"]])
            meta = problems_dict[pid]
            inst = instances.get(pid) or meta["function"]()
            for hD in inp["history"]:
                inst(np.zeros((2, hD)))
            val = float(np.asarray(inst(shift[None, :].copy()))[0])
            if abs(val - float(meta["optimum"])) <= max(float(meta["fix_accuracy"]), 1e-6):
                chk.agree(kind)
            else:
                chk.disagree(kind, {"input": inp, "value_at_model_shift": val, "optimum": float(meta["optimum"])})
    # metadata table (regenerated fact): documented optimum = f_bias of the data file
    fb = W.load("fbias_data.txt")
    bad = [pid for i, pid in enumerate(pids) if float(problems_dict[pid]["optimum"]) != float(fb[i]) and pid not in ("F19",)]
    chk.obligation("problems_dict optimum equals fbias_data.txt", not bad, str(bad))
    chk.notes.append("F1-F25 at the supported dimensions (2,10,30[,50] and 3,7 for unrestricted problems): fresh spawned interpreter vs long random interleavings of problems / new and reused instances / dimensions; batch vs rows; arguments; lower bound; optimum at the CEC2005 reference point; 13 basic functions")
    chk.trusted.append("numeric kernels (matmul, cos, exp) are floats: values are observed at relative 1e-9, the lower-bound theorems are over Rat with bounded-cosine parameters")
    return chk.finish()


def replay(path: str) -> int:
    return main("quick")
