"""Shared machinery of the /verif checks: seeds, Lean build/audit/driver, verdict protocol,
evidence / replay writers, known findings.  Runs under /venv/bin/python with PYTHONPATH=/repo/src.
"""
from __future__ import annotations

import fcntl
import json
import math
import os
import re
import struct
import subprocess
import sys
import time
from fractions import Fraction
from pathlib import Path

VERIF = Path(__file__).resolve().parent.parent
LEAN = Path(os.environ.get("VERIF_LEAN_DIR", VERIF / "lean"))     # overridable so that scratch runs on seeded changes can use their own copy of the Lean project
REPO = Path(os.environ.get("VERIF_REPO", "/repo"))
EVID = Path(os.environ.get("VERIF_EVIDENCE_DIR", VERIF / "evidence"))     # overridable for scratch runs on seeded changes
REPLAYS = Path(os.environ.get("VERIF_REPLAY_DIR", VERIF / "replays"))
ALLOWED_AXIOMS = {"propext", "Classical.choice", "Quot.sound"}
FORBIDDEN = re.compile(
    r"\b(sorry|admit|native_decide|bv_decide|implemented_by|unsafe)\b|^\s*axiom\s|maxHeartbeats\s+0\b"
)

# property -> (Lean property modules, theorem-name prefix)
LEAN_MODULES = {
    "C01": ["TFV.Properties.EA", "TFV.Properties.Heap", "TFV.Properties.Src.Engine", "TFV.Properties.Src.Elitism"],
    "C02": ["TFV.Properties.EA", "TFV.Properties.Src.Engine", "TFV.Properties.Src.Greedy", "TFV.Properties.Src.Elitism"],
    "C03": ["TFV.Properties.EA", "TFV.Properties.Src.Engine", "TFV.Properties.Src.Skeleton", "TFV.Properties.Src.GetAim"],
    "C04": ["TFV.Properties.Rng"],
    "C05": ["TFV.Properties.EA", "TFV.Properties.Src.Engine"],
    "C06": ["TFV.Properties.BinOps", "TFV.Properties.Runs", "TFV.Properties.Src.BinKernels", "TFV.Properties.Src.BinKernels2", "TFV.Properties.Src.GATrial", "TFV.Properties.Src.ShagaTrial"],
    "C07": ["TFV.Properties.DE", "TFV.Properties.Runs", "TFV.Properties.Src.BoundsControl", "TFV.Properties.Src.Binomial", "TFV.Properties.Src.Donors", "TFV.Properties.Src.DETrial", "TFV.Properties.Src.Pbest"],
    "C08": ["TFV.Properties.Tree", "TFV.Properties.TreeCR", "TFV.Properties.Runs", "TFV.Properties.Src.Levels", "TFV.Properties.Src.Shrink", "TFV.Properties.Src.StandardX", "TFV.Properties.Src.OnePointGP", "TFV.Properties.Src.GrowMut", "TFV.Properties.Src.PointMut", "TFV.Properties.Src.Swap", "TFV.Properties.Src.Grow", "TFV.Properties.Src.GPTrial"],
    "C09": ["TFV.Properties.Tree", "TFV.Properties.TreeCR", "TFV.Properties.Src.TreeIdx", "TFV.Properties.Src.CommonRegion", "TFV.Properties.Src.TreeMethods",
            "TFV.Properties.Src.StandardX", "TFV.Properties.Src.OnePointGP", "TFV.Properties.Src.TreeCall", "TFV.Properties.Src.TreeInit", "TFV.Properties.Src.TreeEq"],
    "C10": ["TFV.Properties.Gray", "TFV.Properties.Src.GrayKernels"],
    "C11": ["TFV.Properties.Select", "TFV.Properties.Src.Bsearch", "TFV.Properties.Src.Tournament", "TFV.Properties.Src.Sampling", "TFV.Properties.Src.MinMax"],
    "C12": ["TFV.Properties.Net", "TFV.Properties.Src.SoftmaxKernel"],
    "C13": ["TFV.Properties.Net", "TFV.Properties.Gray"],
    "C14": ["TFV.Properties.SelfConf", "TFV.Properties.Src.SelfCGAAdapt", "TFV.Properties.Src.PdpgaTrial", "TFV.Properties.Src.GATrial", "TFV.Properties.Src.GPTrial", "TFV.Properties.Src.PdpgaAdapt", "TFV.Properties.Src.SelfCGAProba"],
    "C15": ["TFV.Properties.Adapt", "TFV.Properties.Src.ShadeParams", "TFV.Properties.Src.Greedy", "TFV.Properties.Src.ShadeBook", "TFV.Properties.Src.JdeParams", "TFV.Properties.Src.MemoryUpdate", "TFV.Properties.Src.ShagaParams"],
    "C16": ["TFV.Properties.Split", "TFV.Properties.Src.GetNJobs", "TFV.Properties.Src.SplitPop"],
    "C17": ["TFV.Properties.EA", "TFV.Properties.Heap", "TFV.Properties.Src.UpdateData"],
    "C18": ["TFV.Properties.Estim"],
    "C19": ["TFV.Properties.Metrics", "TFV.Properties.Src.MetricCounts", "TFV.Properties.Src.MetricAccuracy"],
    "C20": ["TFV.Properties.Bench", "TFV.Properties.Src.BenchKernels", "TFV.Properties.Src.BenchPairing"],
}

# kernels of /repo that are TRANSLATED into Lean on every run (harness/extract/py2lean.py) and proved equal to the
# hand-written model by the theorems C*_src_* of TFV/Properties/Src/*.lean
SRC_KERNELS = {
    "C01": ["TheFittest_replace", "TheFittest_update", "termination_check", "get_remains_calls", "EA_get_fitness", "TheFittest_get", "EA_from_population_g_to_fitness", "DE_from_population_g_to_fitness", "SHAGA_from_population_g_to_fitness", "GA_from_population_g_to_fitness"],
    "C02": ["TheFittest_replace", "TheFittest_update", "termination_check", "get_remains_calls", "EA_get_fitness", "DE_greedy_replacement", "jDE_greedy_replacement", "TheFittest_get", "EA_from_population_g_to_fitness", "DE_from_population_g_to_fitness", "SHAGA_from_population_g_to_fitness", "GA_from_population_g_to_fitness"],
    "C03": ["TheFittest_replace", "TheFittest_update", "termination_check", "get_remains_calls", "EA_fit", "EA_get_fitness", "EA_get_aim"],
    "C05": ["TheFittest_replace", "TheFittest_update", "termination_check", "get_remains_calls", "EA_get_fitness"],
    "C10": ["SG_bit_to_int", "GC_gray_to_bit", "GC_bit_to_gray", "SG_decode", "GC_decode", "SG_int_to_bit"],     # vectorised kernels: harness/extract/np2lean.py
    "C20": ["Bench_OneMax_f", "Bench_Sphere_f", "Bench_Schwefel12_f", "Bench_Rosenbrock_f", "Bench_Rastrigin_f", "Bench_Griewank_f", "Bench_Elliptic_f", "Bench_Ackley_f", "Bench_ScafferPair", "Bench_Shifted_shift", "Bench_Shifted_call", "Bench_Scaffer_indexes", "Bench_F8F2_indexes"],   # np2lean (elementwise float code)
    "C06": ["flip_mutation", "binomialGA", "one_point_crossover", "two_point_crossover", "uniform_crossover",
            "uniform_proportional_crossover", "uniform_rank_crossover", "empty_crossover", "GA_get_new_individ_g", "SHAGA_get_new_individ_g",
            "random_sample", "check_for_value", "sattolo_shuffle", "random_weighted_sample", "binary_search_interval"],
    "C07": ["bounds_control", "binomial", "best_1", "rand_1", "rand_to_best1", "current_to_best_1", "best_2", "rand_2",
            "current_to_pbest_1_archive", "DE_get_new_individ_g", "SHADE_get_new_individ_g", "find_pbest_id", "argsort_k", "random_sample", "check_for_value", "sattolo_shuffle", "random_weighted_sample", "binary_search_interval"],
    "C08": ["get_levels_tree_from_i", "find_end_subtree_from_i", "find_id_args_from_i", "Tree_subtree_id", "Tree_subtree", "Tree_concat", "shrink_mutation",
            "Tree_get_levels", "Tree_get_max_level", "standard_crossover",
            "find_first_difference_between_two", "common_region_two_trees", "Tree_get_common_region", "one_point_crossoverGP", "growing_mutation", "Tree_get_args_id", "point_mutation", "swap_mutation",
            "Tree_full_growing_method", "Tree_growing_method", "Tree_random_tree", "GP_get_new_individ_g"],
    "C09": ["find_end_subtree_from_i", "find_id_args_from_i", "find_first_difference_between_two", "common_region_two_trees",
            "Tree_subtree_id", "Tree_subtree", "Tree_concat", "get_levels_tree_from_i", "Tree_get_levels", "Tree_get_max_level",
            "standard_crossover", "Tree_get_common_region", "one_point_crossoverGP", "Tree_call", "Tree_str", "Tree_init_n_args", "Tree_eq"],
    "C11": ["binary_search_interval", "check_for_value", "argsort_k", "tournament_selection", "proportional_selection", "rank_selection", "sattolo_shuffle", "random_sample", "random_weighted_sample", "Select_minmax_scale"],
    "C12": ["Net_max_axis", "Net_softmax_numba", "Net_multiactivation2d"],     # np2lean, matrices over the rationals
    "C14": ["SelfCGA_get_new_proba", "SelfCGA_choice_operators", "SelfCGA_adapt", "PDPGA_adapt", "PDPGA_get_new_individ_g", "PDPGP_get_new_individ_g", "GA_get_new_individ_g", "GP_get_new_individ_g"],
    "C15": ["SHADE_generate_F_CR", "SHADE_update_u_F", "DE_greedy_replacement", "jDE_greedy_replacement", "SHADE_bookkeeping", "SHAGA_bookkeeping", "jDE_get_mutate_F", "jDE_get_mutate_CR", "SHADE_update_u_CR", "SHAGA_update_u", "Lehmer_mean_weighted", "Lehmer_mean_plain", "SHAGA_randn", "SHAGA_randc", "SHAGA_generate_MR_CR"],
    "C16": ["get_n_jobs", "EA_split_population"],
    "C17": ["EA_update_data"],
    "C19": ["recall_counts", "precision_counts", "f1_counts", "Metrics_accuracy_score", "Metrics_mse", "Metrics_r2"],
}


def seed() -> int:
    try:
        return int(os.environ.get("VERIF_SEED", "0"))
    except ValueError:
        return 0


# ----------------------------------------------------------------------------- numbers
def float_key(x: float) -> int:
    """order-preserving integer key of a double, key(-x) == -key(x); +0/-0 -> 0; NaN rejected."""
    x = float(x)
    if math.isnan(x):
        raise ValueError("NaN has no order key")
    if x == 0.0:
        return 0
    bits = struct.unpack("<q", struct.pack("<d", abs(x)))[0]
    return bits if x > 0 else -bits


def rat(x) -> list:
    """exact rational [num, den] of a python int / float / Fraction"""
    if isinstance(x, Fraction):
        return [x.numerator, x.denominator]
    if isinstance(x, (int,)) or hasattr(x, "__index__"):
        return [int(x), 1]
    n, d = float(x).as_integer_ratio()
    return [n, d]


def frac(pair) -> Fraction:
    return Fraction(int(pair[0]), int(pair[1]))


def close(a: float, b: Fraction | float, rel=1e-9, abs_=1e-12) -> bool:
    b = float(b)
    if math.isinf(a) or math.isinf(b):
        return a == b
    return abs(a - b) <= max(abs_, rel * max(abs(a), abs(b)))


# ----------------------------------------------------------------------------- Lean
class LeanLock:
    def __enter__(self):
        self.f = open(LEAN / ".verif.lock", "w")
        fcntl.flock(self.f, fcntl.LOCK_EX)
        return self

    def __exit__(self, *a):
        fcntl.flock(self.f, fcntl.LOCK_UN)
        self.f.close()


def lean_build(modules: list[str], timeout=3000) -> tuple[bool, str]:
    with LeanLock():
        p = subprocess.run(
            ["lake", "build", *modules], cwd=LEAN, capture_output=True, text=True, timeout=timeout
        )
    out = p.stdout + p.stderr
    ok = p.returncode == 0 and "declaration uses 'sorry'" not in out
    return ok, out


def module_path(mod: str) -> Path:
    return LEAN / (mod.replace(".", "/") + ".lean")


def theorem_names(mod: str, prefix: str) -> list[str]:
    """names of the property theorems `<prefix>_*` declared in a property module"""
    src = module_path(mod).read_text()
    ns = re.findall(r"^namespace\s+(\S+)", src, flags=re.M)
    ns = ns[0] + "." if ns else ""
    return [ns + n for n in re.findall(rf"^theorem\s+({prefix}_\w+'?)", src, flags=re.M)]


def grep_forbidden(mods: list[str]) -> list[str]:
    """forbidden tokens outside comments in the given modules and everything under TFV/ they may import"""
    hits = []
    for f in sorted((LEAN / "TFV").rglob("*.lean")):
        text = f.read_text()
        # strip block comments and line comments
        text = re.sub(r"/-.*?-/", lambda m: "\n" * m.group(0).count("\n"), text, flags=re.S)
        for i, line in enumerate(text.splitlines(), 1):
            line = line.split("--", 1)[0]
            if FORBIDDEN.search(line):
                hits.append(f"{f.relative_to(LEAN)}:{i}: {line.strip()}")
    return hits


def lean_axioms(prop: str, mods: list[str], names: list[str], timeout=1800) -> tuple[dict, str]:
    """`#print axioms` on every named theorem; returns {name: [axioms]} and raw output"""
    audit = LEAN / "TFV" / "Audit" / f"{prop}.lean"
    audit.parent.mkdir(parents=True, exist_ok=True)
    body = "".join(f"import {m}\n" for m in mods) + "".join(f"#print axioms {n}\n" for n in names)
    audit.write_text(body)
    with LeanLock():
        p = subprocess.run(
            ["lake", "env", "lean", str(audit.relative_to(LEAN))],
            cwd=LEAN, capture_output=True, text=True, timeout=timeout,
        )
    out = p.stdout + p.stderr
    res: dict[str, list[str] | None] = {}
    for m in re.finditer(r"'(\S+)' depends on axioms: \[([^\]]*)\]", out, flags=re.S):
        res[m.group(1)] = [a.strip() for a in m.group(2).replace("\n", " ").split(",") if a.strip()]
    for m in re.finditer(r"'(\S+)' does not depend on any axioms", out):
        res[m.group(1)] = []
    return res, out


def lean_driver(lines: list[str], timeout=3000) -> list[dict]:
    """pipe JSON lines through Driver.lean, return the parsed output lines"""
    inp = "\n".join(lines) + "\n"
    with LeanLock():
        pass  # the driver only reads .olean files; wait for any build in progress to finish
    p = subprocess.run(
        ["lake", "env", "lean", "--run", "Driver.lean"],
        cwd=LEAN, input=inp, capture_output=True, text=True, timeout=timeout,
    )
    outs = [l for l in p.stdout.splitlines() if l.strip()]
    if p.returncode != 0 or len(outs) != len(lines):
        raise DriverError(
            f"driver rc={p.returncode} lines_in={len(lines)} lines_out={len(outs)} stderr={p.stderr[-2000:]}"
        )
    return [json.loads(l) for l in outs]


class DriverError(Exception):
    pass


# ----------------------------------------------------------------------------- known findings
def known_findings() -> list[dict]:
    f = VERIF / "known_findings.json"
    if not f.exists():
        return []
    return json.loads(f.read_text())["entries"]


def match_known(prop: str, case: dict) -> dict | None:
    """a finding suppresses only a violation whose discriminating features all match"""
    for e in known_findings():
        if e.get("kind") != "finding" or e.get("property") != prop:
            continue
        m = e.get("match", {})
        if all(case.get("features", {}).get(k) == v for k, v in m.items()):
            return e
    return None


# ----------------------------------------------------------------------------- the run object
class Check:
    """One check run of one property.  Collects obligations (S0-S2), correspondence streams (S3) and
    failing inputs found on the implementation (S4); `finish()` prints the verdict lines, writes the
    evidence file and returns the exit code."""

    def __init__(self, prop: str, tier: str, level: str = "proof"):
        self.prop, self.tier, self.level = prop, tier, level
        self.t0 = time.time()
        self.seed = seed()
        REPLAYS.mkdir(exist_ok=True)
        for old in REPLAYS.glob(f"{prop}-{self.seed}-*.json"):   # replays of an earlier run with this seed
            old.unlink()
        self.obligations: list[dict] = []   # {name, ok, detail}
        self.streams: dict[str, dict] = {}  # name -> {cases, disagreements, samples}
        self.failures: list[dict] = []      # failing inputs on the real code
        self.samples: list = []
        self.distinct: set = set()
        self.evaluations = 0
        self.notes: list[str] = []
        self.assumptions: list[str] = []
        self.trusted: list[str] = []
        self.distribution: dict = {}
        self.axioms: dict = {}

    # ---- S0-S2
    def obligation(self, name: str, ok: bool, detail: str = ""):
        self.obligations.append({"name": name, "ok": bool(ok), "detail": detail[-1500:]})

    def lean(self, prefix: str | None = None):
        """S1 + S2 for this property: build, forbidden-token grep, axiom audit"""
        prefix = prefix or self.prop
        if SRC_KERNELS.get(self.prop):
            # S0: re-translate the kernels this property's source-tie theorems are about from the CURRENT tree
            sys.path.insert(0, str(VERIF / "harness" / "extract"))
            import py2lean
            with LeanLock():
                try:
                    st = py2lean.main(repo=str(REPO), out=str(LEAN / "TFV/Generated/Src"), only=SRC_KERNELS[self.prop])
                except Exception as e:  # noqa
                    st = {k: "translator error: " + repr(e)[:200] for k in SRC_KERNELS[self.prop]}
            for k in SRC_KERNELS[self.prop]:
                self.obligation(f"translate {k} from the current source (py2lean)", st.get(k) == "ok", st.get(k, "missing"))
            self.trusted.append("source translator harness/extract/py2lean.py (Python AST subset -> state-passing Lean over TFV.Model.Imp) for: " + ", ".join(SRC_KERNELS[self.prop]))
        mods = [m for m in LEAN_MODULES[self.prop] if module_path(m).exists()]
        if not mods:
            self.obligation("lean-modules-present", False, f"no property module for {self.prop}")
            return
        ok, out = lean_build(mods)
        self.obligation("lake build " + " ".join(mods), ok, out if not ok else "")
        hits = grep_forbidden(mods)
        self.obligation("no sorry/admit/axiom/native_decide/bv_decide/implemented_by/unsafe", not hits, "\n".join(hits))
        if not ok:
            return
        names = []
        for m in mods:
            names += theorem_names(m, prefix)
        if not names:
            self.obligation("property theorems present", False, f"no theorem {prefix}_* in {mods}")
            return
        if self.tier == "thorough":
            # independent re-check of the compiled modules by the toolchain's leanchecker
            with LeanLock():
                pc = subprocess.run(["lake", "env", "leanchecker", *mods], cwd=LEAN, capture_output=True, text=True, timeout=3000)
            self.obligation("leanchecker " + " ".join(mods), pc.returncode == 0, (pc.stdout + pc.stderr)[-800:])
        ax, raw = lean_axioms(self.prop, mods, names)
        self.axioms = ax
        for n in names:
            a = ax.get(n)
            good = a is not None and set(a) <= ALLOWED_AXIOMS
            self.obligation(f"theorem {n} checks; axioms ⊆ standard", good,
                            "" if good else f"axioms={a} raw={raw[-600:]}")

    # ---- S3
    def stream(self, name: str):
        return self.streams.setdefault(name, {"cases": 0, "disagreements": 0, "examples": []})

    def agree(self, name: str, n: int = 1):
        self.stream(name)["cases"] += n

    def disagree(self, name: str, case):
        s = self.stream(name)
        s["cases"] += 1
        s["disagreements"] += 1
        if len(s["examples"]) < 5:
            s["examples"].append(case)

    # ---- S4
    def case(self, key=None, nontrivial=True, sample=None):
        self.evaluations += 1
        if nontrivial and key is not None:
            self.distinct.add(key)
        if sample is not None and len(self.samples) < 6:
            self.samples.append(sample)

    def fail(self, what: str, case: dict, features: dict | None = None):
        """a concrete input on which the property fails on the real code"""
        self.failures.append({"what": what, "case": case, "features": features or {}})

    def count(self, key: str, n: int = 1):
        self.distribution[key] = self.distribution.get(key, 0) + n

    # ---- verdict
    def broken(self) -> list[str]:
        b = [o["name"] for o in self.obligations if not o["ok"]]
        b += [f"correspondence:{k}" for k, s in self.streams.items() if s["disagreements"]]
        return b

    def finish(self) -> int:
        REPLAYS.mkdir(exist_ok=True)
        EVID.mkdir(exist_ok=True)
        rc = 0
        unlisted = []
        known_seen = set()
        for f in self.failures:
            e = match_known(self.prop, f)
            if e is not None:
                if e["what"] not in known_seen:
                    known_seen.add(e["what"])
                    print(f"KNOWN-FINDING: property={self.prop} {e['what']}")
            else:
                unlisted.append(f)
        n_viol = 0
        seen_what = set()
        for i, f in enumerate(unlisted):
            if f["what"] in seen_what:
                continue
            seen_what.add(f["what"])
            path = REPLAYS / f"{self.prop}-{self.seed}-{len(seen_what)}.json"
            path.write_text(json.dumps({"property": self.prop, "kind": "failing-input", "seed": self.seed, "tier": self.tier, **f}, indent=1, default=str))
            print(f"VIOLATION property={self.prop} replay={path}")
            n_viol += 1
            rc = 1
            if n_viol >= 5:
                break
        broken = self.broken()
        if broken and not unlisted:
            path = REPLAYS / f"{self.prop}-{self.seed}-broken.json"
            path.write_text(json.dumps({
                "property": self.prop, "kind": "no-failing-input-found", "seed": self.seed, "tier": self.tier, "no_longer_checks": broken,
                "obligations": [o for o in self.obligations if not o["ok"]],
                "correspondence": {k: s for k, s in self.streams.items() if s["disagreements"]},
            }, indent=1, default=str))
            print(f"VIOLATION property={self.prop} replay={path} no-failing-input-found")
            n_viol += 1
            rc = 1
        elif broken:
            print(f"NOTE property={self.prop} also no longer checks: {broken}")
        self.write_evidence(n_viol)
        return rc

    def write_evidence(self, n_viol: int):
        n_obl = len(self.obligations)
        n_ok = sum(1 for o in self.obligations if o["ok"])
        cov = {
            "obligations": max(n_obl, 1),
            "discharged": n_ok if n_obl else 0,
            "checker_cmd": f"cd /verif/lean && lake build {' '.join(LEAN_MODULES.get(self.prop, []))} && lake env lean TFV/Audit/{self.prop}.lean  (+ ./check {self.prop} correspondence)",
            "trusted_base": [
                "Lean 4.33 kernel; axioms per theorem listed under 'axioms' (subset of propext, Classical.choice, Quot.sound)",
                "hand-written model TFV/Model/*.lean — tied to /repo by the correspondence streams below, within the listed case counts",
                "harness (Python), Driver.lean parsing/canonicalisation, tolerance 1e-9 for Rat vs double",
                *self.trusted,
            ],
            "evaluations": max(self.evaluations, 1),
            "distinct_nontrivial": len(self.distinct),
            "rule": "; ".join(self.notes) or "see streams",
            "samples": self.samples[:6] or ["(no sample recorded)"],
            "obligation_list": self.obligations,
            "axioms": self.axioms,
            "correspondence_streams": {k: {"cases": s["cases"], "disagreements": s["disagreements"],
                                           "examples": s["examples"][:3]} for k, s in self.streams.items()},
            "traces_validated_against_impl": sum(s["cases"] for s in self.streams.values()),
            "input_distribution": self.distribution,
            "failing_inputs_found": len(self.failures),
        }
        ev = {
            "property_id": self.prop, "tier": self.tier, "seed": self.seed, "level": self.level,
            "coverage": cov, "assumptions": self.assumptions, "wall_s": round(time.time() - self.t0, 2),
            "violations": n_viol,
        }
        (EVID / f"{self.prop}.json").write_text(json.dumps(ev, indent=1, default=str))
