"""Module-level (picklable) objectives for the C16 worker processes.  `DELAYS` selects a
per-chunk delay pattern keyed on the first row, so chunks finish in different orders."""
import time
import zlib

import numpy as np

DELAYS = 0


def _delay(x):
    if DELAYS:
        first = np.ascontiguousarray(np.asarray(x[0], dtype=np.float64))
        h = zlib.crc32(first.tobytes()) % 5
        time.sleep(0.004 * ((h * DELAYS) % 5))


def onemax(x):
    return np.sum(x, axis=1, dtype=np.float64)


def onemax_delayed(x):
    _delay(x)
    return np.sum(x, axis=1, dtype=np.float64)


def sphere_delayed(x):
    _delay(x)
    return np.sum(np.asarray(x, dtype=np.float64) ** 2, axis=1)


def g2p_scale(x):
    return np.asarray(x, dtype=np.float64) * 0.5 - 0.25


def neg_sphere_delayed(x):
    return -sphere_delayed(x)


def neg_onemax_delayed(x):
    return -onemax_delayed(x)


def weighted_sum(x, weights=None, scale=None, table=None):
    x = np.asarray(x, dtype=np.float64)
    return (x * weights[None, : x.shape[1]]).sum(axis=1) * float(scale) + float(table[0, 0])


def g2p_shift(x, shift=None):
    return np.asarray(x, dtype=np.float64) + shift[None, : np.asarray(x).shape[1]]


def tree_size(trees):
    return np.array([-abs(len(t) - 7.0) for t in trees], dtype=np.float64)


def g2p_rowsum(x):
    """one number per individual: a 1-D phenotype population"""
    return np.sum(np.asarray(x, dtype=np.float64), axis=1)


def scalar_value_delayed(ph):
    _delay(ph)
    a = np.asarray(ph, dtype=np.float64)
    return -(a - 3.0) ** 2


def first_column_view(x):
    """a VIEW of the argument (its first column): the caller's array must not be written to"""
    return x[:, 0] if isinstance(x, np.ndarray) else np.asarray(x, dtype=np.float64)[:, 0]


def readonly_sphere(x):
    """a read-only result (as np.asarray of another framework's array is)"""
    v = np.sum(np.asarray(x, dtype=np.float64) ** 2, axis=1)
    v.flags.writeable = False
    return v


class BufferedSphere:
    """an objective that reuses its output buffer between calls"""

    def __init__(self):
        self._out = None

    def __call__(self, x):
        a = np.asarray(x, dtype=np.float64) ** 2
        if self._out is None or len(self._out) != len(a):
            self._out = np.empty(len(a), dtype=np.float64)
        np.sum(a, axis=1, out=self._out)
        return self._out


buffered_sphere = BufferedSphere()
