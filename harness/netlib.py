"""Conversions between thefittest's Net / net-encoding trees and the driver's JSON, plus an
independent reference evaluation of a net's graph (used as the S4 oracle of C12)."""
from __future__ import annotations

import itertools
import math
import struct

import numpy as np


def fbits(x: float) -> int:
    return struct.unpack("<Q", struct.pack("<d", float(x)))[0]


def bits_f(b: int) -> float:
    return struct.unpack("<d", struct.pack("<Q", int(b)))[0]


def net_json(net) -> dict:
    return {
        "inputs": sorted(int(i) for i in net._inputs),
        "hidden": [sorted(int(i) for i in l) for l in net._hidden_layers],
        "outputs": sorted(int(i) for i in net._outputs),
        "conns": [[int(a), int(b)] for a, b in net._connects],
        "activs": [[int(k), int(v)] for k, v in net._activs.items()],
    }


def canon_net(d: dict) -> dict:
    """order-insensitive form for comparing decoded nets (edge multiset, activations as dict)"""
    return {
        "inputs": sorted(d["inputs"]),
        "hidden": [sorted(l) for l in d["hidden"]],
        "outputs": sorted(d["outputs"]),
        "conns": sorted(map(tuple, d["conns"])),
        "activs": sorted(map(tuple, d["activs"])),
    }


def sched_json(net) -> list:
    """the schedule the implementation actually uses (after _get_order)"""
    out = []
    for f, t, w in zip(net._numba_from, net._numba_to, net._numba_weights_id):
        out.append({"srcs": [int(x) for x in f], "dsts": [int(x) for x in t],
                    "wids": [[int(x) for x in row] for row in w]})
    return out


def sched_activation_faults(net) -> list:
    """the per-step activation lists of the compiled schedule against the activation the net carries for each node:
    every target of a step appears exactly once in the step's activation lists, under its own activation code"""
    faults = []
    for step, (t, codes, groups) in enumerate(zip(net._numba_to, net._numba_activs_code, net._numba_activs_nodes)):
        seen = {}
        for code, nodes in zip(codes, groups):
            for nd in nodes:
                seen.setdefault(int(nd), []).append(int(code))
        for nd in (int(x) for x in t):
            want = int(net._activs[nd])
            if seen.get(nd) != [want]:
                faults.append({"step": step, "node": nd, "carried_activation": want, "applied_activations": seen.get(nd, [])})
        faults += [{"step": step, "node": nd, "carried_activation": None, "applied_activations": c} for nd, c in seen.items() if nd not in {int(x) for x in t}]
    return faults


def tree_syms(tree) -> list:
    """net-encoding tree -> list of NSym JSON objects in prefix order"""
    from thefittest.base import FunctionalNode, TerminalNode
    out = []
    for node in tree._nodes:
        if isinstance(node, FunctionalNode):
            out.append({"k": "+" if node._name == "add" else ">"})
        elif type(node) is TerminalNode:
            out.append({"k": "in", "vars": sorted(int(v) for v in node._value)})
        else:
            out.append({"k": "h", "size": int(node._value._size), "activ": int(node._value._activ)})
    return out


ACT = {
    0: lambda x: (1.0 / (1.0 + math.exp(-x)) if x > -700 else 0.0),
    1: lambda x: x if x > 0 else 0.0,
    2: lambda x: (math.exp(-(x * x)) if abs(x) < 27 else 0.0),
    3: math.tanh,
    4: lambda x: x,
}


def reference_forward(net, x_row, weights):
    """independent evaluation of the graph: node equations in dependency order (topological by
    repeated relaxation), parallel duplicates add, softmax jointly over the OUTPUT layer."""
    conns = [(int(a), int(b)) for a, b in net._connects]
    inputs = sorted(int(i) for i in net._inputs)
    hidden = sorted(set().union(*net._hidden_layers)) if net._hidden_layers else []
    outputs = sorted(int(i) for i in net._outputs)
    val = {i: float(x_row[i]) for i in inputs}
    todo = [t for t in hidden + outputs]
    pre = {}
    guard = 0
    while todo and guard < 10000:
        guard += 1
        for t in list(todo):
            srcs = [(s, k) for k, (s, tt) in enumerate(conns) if tt == t]
            if all(s in val for s, _ in srcs):
                z = math.fsum(val[s] * float(weights[k]) for s, k in srcs)
                code = int(net._activs[t])
                pre[t] = z
                if code == 5:
                    # value assigned once every softmax node has its pre-activation
                    val[t] = None
                else:
                    val[t] = ACT[code](z)
                todo.remove(t)
                # softmax nodes: wait for the whole output layer
        sm = [t for t in outputs if int(net._activs[t]) == 5]
        if sm and all(t in pre for t in sm) and any(val.get(t) is None for t in sm):
            m = max(pre[t] for t in sm)
            e = {t: math.exp(pre[t] - m) for t in sm}
            s = math.fsum(e.values()) or 1.0
            for t in sm:
                val[t] = e[t] / s
    return [val[o] for o in outputs]
