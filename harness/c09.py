"""C09 — a tree means what it prints: evaluation, printing and tree algebra agree.

S3: Tree public methods against TFV.Model.Tree, exact, exhaustively over all tree shapes up to a
size bound over arities {0,1,2,3} and every node index; common region on pairs and triples.
S4: an independent recursive reference (treelib) for evaluation, printing, levels, argument
positions, subtree / concat, common region; the symbolic-regression function table against
`math` on scalars, arrays, mixed arguments, zeros, huge and negative values; batch = per-sample.
Runs with NUMBA_BOUNDSCHECK=1 so that an out-of-range access in an index helper is an exception.
"""
from __future__ import annotations

import json
import math
import random as pyrandom

import numpy as np

import common as C
import treelib as TL

SPEC = {  # accepted name -> (node name, formula, reference)
    "cos": ("cos", "cos({})", lambda a: math.cos(a)),
    "sin": ("sin", "sin({})", lambda a: math.sin(a)),
    "add": ("add", "({} + {})", lambda a, b: a + b),
    "sub": ("sub", "({} - {})", lambda a, b: a - b),
    "mul": ("mul", "({} * {})", lambda a, b: a * b),
    "div": ("div", "({} / {})", lambda a, b: (a / b) if b != 0 else 1.0),
    "abs": ("abs", "abs({})", lambda a: abs(a)),
    "logabs": ("log(abs)", "log(abs({}))", lambda a: math.log(abs(a)) if a != 0 else 1.0),
    "exp": ("exp", "exp({})", lambda a: math.exp(a) if a < 709 else float(np.finfo(np.float64).max)),
    "sqrtabs": ("sqrt(abs)", "sqrt(abs({}))", lambda a: math.sqrt(abs(a))),
}


def main(tier: str) -> int:
    chk = C.Check("C09", tier)
    chk.lean()
    from thefittest.base import Tree, TerminalNode
    from thefittest.base._tree import init_symbolic_regression_uniset
    rng = pyrandom.Random(chk.seed)
    us = TL.uniset()
    sy = TL.Symbols()
    ops, ctx = [], []

    def add(op, c):
        ops.append(op)
        ctx.append(c)

    nmax = 6 if tier == "quick" else 7
    shapes = TL.shapes(nmax)
    trees = []
    for si, sh in enumerate(shapes):
        t = TL.make_tree(sh, us, variant=si)
        trees.append(t)
    val = {"x0": 3, "x1": -2, "x2": 5}
    apply_of = {"neg": lambda a: -a[0], "add": lambda a: a[0] + a[1], "sub": lambda a: a[0] - a[1], "mul": lambda a: a[0] * a[1], "tern": lambda a: a[0] - a[1] * a[2]}
    fmt_of = {"neg": "neg({})", "add": "({} + {})", "sub": "({} - {})", "mul": "({} * {})", "tern": "tern({}, {}, {})"}
    # functional nodes without arguments (a user-defined constant operator such as pi): called, not pushed unapplied
    from thefittest.base import FunctionalNode, Tree as _Tree
    from thefittest.utils import create_operator
    seven = FunctionalNode(create_operator("seven", "seven", "seven", lambda: 7))
    addn = next(n for n in us._functional_set[2] if n._name == "add")
    x0n = next(n for n in us._terminal_set if getattr(n, "_name", None) == "x0")
    for nodes_, ref_v_, ref_s_ in (([seven], 7, "seven"), ([addn, seven, x0n], 10, "(seven + x0)"), ([addn, x0n, seven], 10, "(x0 + seven)")):
        chk.case(("arity0", ref_s_))
        chk.count("arity0_functional")
        try:
            tz = _Tree(nodes_)
            got_v_, got_s_ = tz(), str(tz)
        except Exception as e:  # noqa
            got_v_, got_s_ = repr(e)[:120], None
        if got_v_ != ref_v_ or (got_s_ is not None and got_s_ != ref_s_):
            chk.fail("calling a tree does not return the value of the expression it denotes", {"tree": ref_s_, "got": str(got_v_)[:120], "reference": ref_v_, "printed": got_s_},
                     {"fn": "__call__", "clause": "arity0"})
    # structural equality looks at the symbols, not at how they are displayed: two different operators that share a sign
    # (unary and binary minus)
    from thefittest.base import TerminalNode as _TN
    neg_ = FunctionalNode(create_operator("(-{})", "neg", "-", lambda a: -a))
    sub_ = FunctionalNode(create_operator("({} - {})", "sub", "-", lambda a, b: a - b))
    xa, xb_ = _TN(5.0, "xa"), _TN(7.0, "xb")
    t_ns, t_sn = _Tree([neg_, sub_, xa, xb_]), _Tree([sub_, neg_, xa, xb_])
    chk.count("same_sign_operators")
    chk.case(("eq_sign", "neg/sub"))
    try:
        eq_ = bool(t_ns == t_sn)
    except Exception as e:  # noqa
        eq_ = repr(e)[:80]
    if eq_ is not False or not bool(t_ns == t_ns.copy()) or t_ns() != 2.0 or t_sn() != -12.0:
        chk.fail("tree equality is not structural", {"left": "[neg, sub, xa, xb] = -(xa - xb)", "right": "[sub, neg, xa, xb] = (-xa - xb)", "equal": str(eq_),
                                                     "values": [float(t_ns()), float(t_sn())]}, {"fn": "__eq__", "clause": "sign"})
    # the formula of a user-defined operator is a format string: every spelling of a field (explicit positions, a position used
    # twice or out of order, escaped literal braces) must be honoured when the tree is printed
    fsub = FunctionalNode(create_operator("({0} - {1})", "sub01", "-", lambda a, b: a - b))
    frsub = FunctionalNode(create_operator("({1} - {0})", "rsub", "rsub", lambda a, b: b - a))
    fsqr = FunctionalNode(create_operator("({0} * {0})", "sqr", "sqr", lambda a: a * a))
    fspan = FunctionalNode(create_operator("span{{{}, {}}}", "span", "span", lambda a, b: a + 2 * b))
    for nodes_, ref_v_, ref_s_ in (([fsub, xa, xb_], -2.0, "(xa - xb)"), ([frsub, xa, xb_], 2.0, "(xb - xa)"), ([fsqr, xb_], 49.0, "(xb * xb)"),
                                   ([fspan, xa, sub_, xb_, xa], 9.0, "span{xa, (xb - xa)}"), ([fsub, fsqr, xa, frsub, xa, xb_], 23.0, "((xa * xa) - (xb - xa))")):
        chk.case(("format_fields", ref_s_))
        chk.count("format_fields")
        try:
            tz = _Tree(nodes_)
            got_v_, got_s_ = float(tz()), str(tz)
        except Exception as e:  # noqa
            got_v_, got_s_ = repr(e)[:120], None
        if got_v_ != ref_v_ or got_s_ != ref_s_:
            chk.fail("str(tree) does not print the expression the tree denotes", {"formulas": [getattr(n, "_value")._formula if hasattr(getattr(n, "_value", None), "_formula") else n._name for n in nodes_],
                                                                                  "got": got_s_, "reference": ref_s_, "value": got_v_, "reference_value": ref_v_},
                     {"fn": "__str__", "clause": "format_fields"})
    # two operators may share a NAME: each function symbol computes and prints its own definition, whatever was created under that
    # name before (by the user or by the library), and the library's names keep computing the library's functions
    import operator as _op
    f_one = FunctionalNode(create_operator("f({})", "f", "f", lambda a: -a))
    f_two = FunctionalNode(create_operator("f({}, {})", "f", "f", lambda a, b: a - b))
    user_div = FunctionalNode(create_operator("({} / {})", "div", "/", lambda a, b: a * 4.0 + b))       # NOT a division: a user's own "div"
    user_exp = FunctionalNode(create_operator("exp({})", "exp", "exp", lambda a: a + 100.0))             # NOT an exponential
    from thefittest.base._tree import init_symbolic_regression_uniset as _isru
    us_lib = _isru(np.array([[0.5, 2.0], [1.5, 4.0]]), ("div", "exp", "add"))
    lib = {n._name: n for n in us_lib._functional_set[1] + us_lib._functional_set[2]}
    same_name_cases = (([f_two, xa, f_one, xb_], 12.0, "f(xa, f(xb))"), ([f_one, f_two, xb_, xa], -2.0, "f(f(xb, xa))"),
                       ([user_div, xa, xb_], 27.0, "(xa / xb)"), ([user_exp, xa], 105.0, "exp(xa)"),
                       ([lib["div"], xa, xb_], 5.0 / 7.0, "(xa / xb)"), ([lib["exp"], xa], float(np.exp(5.0)), "exp(xa)"))
    for nodes_, ref_v_, ref_s_ in same_name_cases:
        chk.case(("same_name", ref_s_, ref_v_))
        chk.count("same_name_operators")
        try:
            tz = _Tree(nodes_)
            got_v_, got_s_ = float(tz()), str(tz)
        except Exception as e:  # noqa
            got_v_, got_s_ = repr(e)[:120], None
        if not (isinstance(got_v_, float) and abs(got_v_ - ref_v_) <= 1e-9 * max(1.0, abs(ref_v_))) or got_s_ != ref_s_:
            chk.fail("calling a tree does not return the value of the expression it denotes", {"scenario": "two operators created under one name (the user's own and / or the library's)",
                                                                                           "printed": got_s_, "reference": ref_s_, "value": got_v_, "reference_value": ref_v_},
                     {"fn": "__call__", "clause": "same_name"})
    for ti, t in enumerate(trees):
        fl = sy.flat(t)
        ar = [int(a) for a in t._n_args]
        names = [n._name for n in t._nodes]
        nested, _ = TL.parse(names, ar)
        d = {"tree": str(t), "arities": ar}
        chk.case(("tree", tuple(names), tuple(ar)), sample=d if ti in (5, 40, 200) else None)
        chk.count("nodes_%d" % len(ar))
        # evaluation and printing
        got_v, got_s = t(), str(t)
        ref_v = TL.ref_eval(nested, lambda p, n: val[n], lambda n, a: apply_of[n](a))
        ref_s = TL.ref_print(nested, lambda n: fmt_of[n])
        if got_v != ref_v:
            chk.fail("calling a tree does not return the value of the expression it denotes", {**d, "got": int(got_v), "reference": int(ref_v)}, {"fn": "__call__"})
        if got_s != ref_s:
            chk.fail("str(tree) does not print the expression the tree denotes", {**d, "got": got_s, "reference": ref_s}, {"fn": "__str__"})
        add({"op": "t_eval", "l": fl, "table": None}, ("eval", d, int(got_v)))
        add({"op": "t_print", "l": fl, "table": None}, ("print", d, got_s))
        lv = [int(x) for x in t.get_levels(0)]
        if lv != TL.ref_levels(nested) or int(t.get_max_level()) != max(lv):
            chk.fail("get_levels / get_max_level disagree with the recursive definition", {**d, "got": lv, "reference": TL.ref_levels(nested)}, {"fn": "get_levels"})
        add({"op": "t_depth", "l": fl}, ("depth", d, int(t.get_max_level())))
        cp = t.copy()
        if not (cp == t) or cp is t or cp._nodes is t._nodes or np.shares_memory(cp._n_args, t._n_args):
            chk.fail("copy() is not a structurally equal independent tree", d, {"fn": "copy"})
        for i in range(len(ar)):
            sub = TL.sub_at(nested, i)
            end = int(t.subtree_id(i)[1])
            di = {**d, "index": i}
            if end != i + TL.size(sub):
                chk.fail("subtree_id does not end one past the subtree", {**di, "got": end, "reference": i + TL.size(sub)}, {"fn": "subtree_id"})
            add({"op": "t_end_sub", "i": i, "ar": ar}, ("end_sub", di, end))
            try:
                aid = [int(x) for x in t.get_args_id(i)]
            except Exception as e:  # IndexError under NUMBA_BOUNDSCHECK
                chk.fail("get_args_id raises (out-of-bounds write) on a node", {**di, "arity": ar[i], "error": repr(e)[:120]}, {"fn": "get_args_id", "terminal": ar[i] == 0})
                aid = None
            if aid is not None:
                if aid != [k[0] for k in sub[3]]:
                    chk.fail("get_args_id does not return the roots of the argument subtrees", {**di, "got": aid, "reference": [k[0] for k in sub[3]]}, {"fn": "get_args_id"})
                add({"op": "t_args_ids", "i": i, "ar": ar}, ("args_ids", di, aid))
            li = [int(x) for x in t.get_levels(i)]
            if li != TL.ref_levels(sub):
                chk.fail("get_levels(i) disagrees with the recursive definition", {**di, "got": li, "reference": TL.ref_levels(sub)}, {"fn": "get_levels"})
            add({"op": "t_levels", "i": i, "ar": ar}, ("levels", di, li))
            st = t.subtree(i)
            if [n._name for n in st._nodes] != names[i:end] or [int(a) for a in st._n_args] != ar[i:end]:
                chk.fail("subtree(i) is not the subterm rooted at i", di, {"fn": "subtree"})
            add({"op": "t_subtree", "l": fl, "i": i}, ("subtree", di, sy.flat(st)))
            back = t.concat(i, st)
            if not (back == t) or [int(a) for a in back._n_args] != ar:
                chk.fail("concat(i, subtree(i)) is not the identity", di, {"fn": "concat"})
            other = trees[(ti * 7 + i * 3) % len(trees)]
            cc = t.concat(i, other)
            exp_names = names[:i] + [n._name for n in other._nodes] + names[end:]
            exp_ar = ar[:i] + [int(a) for a in other._n_args] + ar[end:]
            if [n._name for n in cc._nodes] != exp_names or [int(a) for a in cc._n_args] != exp_ar or not TL.wf(exp_ar):
                chk.fail("concat(i, other) does not replace exactly the subterm at i", {**di, "other": str(other)}, {"fn": "concat"})
            # levels of a DERIVED tree (the source tree has been asked for its levels above): recursive definition again
            if TL.wf(exp_ar) and i % 2 == 0:
                nested_cc, _ = TL.parse(exp_names, exp_ar)
                lvc = [int(x) for x in cc.get_levels(0)]
                cpy = cc.copy()
                if lvc != TL.ref_levels(nested_cc) or int(cc.get_max_level()) != max(lvc) or [int(x) for x in cpy.get_levels(0)] != lvc:
                    chk.fail("get_levels / get_max_level of a tree built by concat disagree with the recursive definition",
                             {**di, "other": str(other), "result": str(cc), "got": lvc, "reference": TL.ref_levels(nested_cc)}, {"fn": "get_levels", "clause": "derived"})
            if [n._name for n in t._nodes] != names or [int(a) for a in t._n_args] != ar:
                chk.fail("subtree / concat modified the tree they were called on", di, {"fn": "concat", "clause": "inputs"})
            if i % 3 == 0:
                add({"op": "t_concat", "l": fl, "i": i, "other": sy.flat(other)}, ("concat", {**di, "other": str(other)}, sy.flat(cc)))
        # set_terminals rebinding on a copy
        reb = t.set_terminals(x0=10, x2=-1)
        val2 = {"x0": 10, "x1": -2, "x2": -1}
        if reb() != TL.ref_eval(nested, lambda p, n: val2[n], lambda n, a: apply_of[n](a)) or t() != ref_v or str(reb) != got_s:
            chk.fail("set_terminals does not rebind exactly the named variables on a copy", d, {"fn": "set_terminals"})
        # "on a copy" also when nothing is rebound (no leaf carries a given name, or no name is given): the result is an
        # independent tree - editing its node list in place must not reach the original
        if ti % 4 == 0:
            for kwv in ({}, {"x9": 4}, {n_: 1 for n_ in ("x0", "x1", "x2") if n_ not in names}):
                cp2 = t.set_terminals(**kwv)
                if cp2._nodes is t._nodes or (hasattr(cp2._n_args, "base") and cp2._n_args is t._n_args and False):
                    chk.fail("set_terminals does not rebind exactly the named variables on a copy", {**d, "named": sorted(kwv), "shares": "node list"},
                             {"fn": "set_terminals", "clause": "copy"})
                    break
                before = list(t._nodes)
                cp2._nodes[0] = before[-1]
                if list(t._nodes) != before:
                    chk.fail("set_terminals does not rebind exactly the named variables on a copy", {**d, "named": sorted(kwv), "shares": "an in-place edit of the result changed the original"},
                             {"fn": "set_terminals", "clause": "copy"})
                    t._nodes[0] = before[0]
                    break
    # the interpretation tables are only known once all symbols have been seen
    for o in ops:
        if o.get("table", 0) is None:
            o["table"] = sy.table_int if o["op"] == "t_eval" else sy.table_str

    # ---- common region: pairs (two-tree version) and triples / quadruples (k-tree version)
    npairs = 1500 if tier == "quick" else 15000
    for _ in range(npairs):
        k = rng.choice([2, 2, 2, 3, 3, 4])
        ts = [trees[rng.randrange(len(trees))] for _ in range(k)]
        ars = [[int(a) for a in t._n_args] for t in ts]
        com, bor = ts[0].get_common_region(ts[1:])
        got = ([[int(x) for x in c] for c in com], [[int(x) for x in b] for b in bor])
        nested = [TL.parse([n._name for n in t._nodes], a)[0] for t, a in zip(ts, ars)]
        ref = TL.ref_common(nested)
        d = {"trees": [str(t) for t in ts], "arities": ars}
        chk.case(("common", tuple(map(tuple, ars))))
        chk.count("common_region_%d_trees" % k)
        if got != ref:
            chk.fail("the common-region computation disagrees with the recursive definition", {**d, "got": got, "reference": ref}, {"fn": "get_common_region", "trees": k})
        add({"op": "t_common", "ars": ars}, ("common", d, [got[0], got[1]]))

    # ---- equality is name-wise and structural on well-formed trees
    for _ in range(300):
        a, b = trees[rng.randrange(len(trees))], trees[rng.randrange(len(trees))]
        same = [n._name for n in a._nodes] == [n._name for n in b._nodes]
        if (a == b) != same:
            chk.fail("tree equality is not structural", {"a": str(a), "b": str(b)}, {"fn": "__eq__"})
        add({"op": "t_eq", "a": sy.flat(a), "b": sy.flat(b)}, ("eq", {"a": str(a), "b": str(b)}, bool(a == b)))

    # ---- ephemeral constants: a constant leaf prints the value it holds; equality distinguishes constants
    from thefittest.base import EphemeralNode, FunctionalNode
    consts = [0.1234564789, 0.1234561, 1e-9, 123456.7890123, -2.5, 7, 0.30000000000000004]
    state = {"i": 0}

    def gen_const():
        v = consts[state["i"] % len(consts)]
        state["i"] += 1
        return v
    eph = EphemeralNode(gen_const)
    leaves = [Tree([eph()]) for _ in consts]
    for v, t in zip(consts, leaves):
        chk.count("ephemeral_constant")
        chk.case(("const", v))
        if t() != v or float(str(t)) != float(v):
            chk.fail("a constant leaf does not print exactly the value it holds and evaluates to", {"value": repr(v), "printed": str(t), "evaluates_to": repr(t())}, {"fn": "__str__", "clause": "ephemeral"})
    for i in range(len(consts)):
        for j in range(len(consts)):
            if (leaves[i] == leaves[j]) != (consts[i] == consts[j]):
                chk.fail("tree equality does not distinguish trees holding different constants (not structural)",
                         {"a": repr(consts[i]), "b": repr(consts[j]), "equal": bool(leaves[i] == leaves[j])}, {"fn": "__eq__", "clause": "ephemeral"})
    add_op = [n for n in us._functional_set[2] if n._name == "add"][0]
    tc = Tree([add_op, leaves[0]._nodes[0], us._terminal_set[0]])
    if tc() != consts[0] + 3 or str(tc) != "({} + x0)".format(str(consts[0])):
        chk.fail("a tree with an ephemeral constant does not print / evaluate the expression it denotes", {"printed": str(tc), "value": repr(tc())}, {"fn": "__str__", "clause": "ephemeral"})

    # ---- the symbolic-regression function table
    X = np.array([[0.5, -1.0], [2.0, 0.0], [0.0, 3.0], [-4.0, 1e-3]])
    accepted = []
    for name in sorted(set(SPEC) | {"sqrtabs", "logabs"}):
        try:
            u = init_symbolic_regression_uniset(X, (name,))
            accepted.append(name)
        except ValueError:
            chk.fail("a documented function name is rejected by the symbolic-regression universal set", {"name": name}, {"fn": "function_table", "name": name})
            continue
        node = u._functional_set[-1][0]
        sp = SPEC[name]
        chk.count("function_" + name)
        if node._name != sp[0] or node._value._formula != sp[1]:
            chk.fail("a function name accepted by the universal set builds a different function than it is named for",
                     {"name": name, "node": node._name, "formula": node._value._formula, "expected": [sp[0], sp[1]]}, {"fn": "function_table", "name": name})
            continue
        f = node._value
        nargs = node._n_args
        pts = [0.0, 1.0, -1.0, 0.5, -2.5, 1e-300, 1e300, -1e300, 700.0, 3.0]
        import itertools
        argsets = list(itertools.product(pts, repeat=nargs))
        for args in argsets:
            with np.errstate(all="ignore"):
                try:
                    ref = sp[2](*args)
                except OverflowError:
                    ref = math.inf
                ref = float(np.clip(ref, np.finfo(np.float64).min, np.finfo(np.float64).max)) if name in ("div", "exp") else ref
                got_scalar = f(*args)
                got_array = f(*[np.array([a, a]) for a in args])
                mixed = [np.array([args[0], args[0]])] + list(args[1:])
                got_mixed = f(*mixed)
            chk.case(("fn", name, args))
            ok_s = (math.isnan(ref) and math.isnan(float(got_scalar))) or C.close(float(got_scalar), ref, 1e-12, 1e-300) or (math.isinf(ref) and float(got_scalar) == ref)
            if not ok_s:
                chk.fail("a symbolic-regression function does not compute the function it is named for (scalar arguments)",
                         {"name": name, "args": list(args), "got": float(got_scalar), "reference": ref}, {"fn": "function_value", "name": name, "zero_denominator": name == "div" and args[-1] == 0})
            ga = np.asarray(got_array, dtype=np.float64)
            gm = np.asarray(got_mixed, dtype=np.float64)
            same = ga.shape == (2,) and all((math.isnan(float(x)) and math.isnan(float(got_scalar))) or float(x) == float(got_scalar) for x in ga)
            same_m = gm.shape == (2,) and all((math.isnan(float(x)) and math.isnan(float(got_scalar))) or float(x) == float(got_scalar) for x in gm)
            if not (same and same_m):
                chk.fail("evaluating a function on a batch differs from evaluating each sample on its own",
                         {"name": name, "args": list(args), "scalar": float(got_scalar), "array": ga.tolist(), "mixed_shape": list(gm.shape), "mixed": gm.tolist() if gm.ndim else float(gm)},
                         {"fn": "function_batch", "name": name, "zero_denominator": name == "div" and args[-1] == 0})
    # batch evaluation of whole trees: arrays bound to the terminals vs each sample on its own
    u = init_symbolic_regression_uniset(X, tuple(n for n in ("add", "mul", "div", "cos", "sub") if n in accepted))
    from thefittest.utils.random import numba_seed
    numba_seed(chk.seed + 5)
    X_before = X.copy()
    for _ in range(60 if tier == "quick" else 600):
        t = Tree.random_tree(u, rng.randint(1, 4))
        with np.errstate(all="ignore"):
            whole = np.asarray(t() * np.ones(len(X)), dtype=np.float64)
            again = np.asarray(t() * np.ones(len(X)), dtype=np.float64)
        # evaluation has no side effects: the data bound to the terminals is untouched, a second call gives the same values
        if not np.array_equal(X, X_before) or not np.array_equal(whole, again, equal_nan=True):
            chk.fail("evaluating a tree changed the data bound to its terminals (or a second evaluation differs from the first)",
                     {"tree": str(t), "data_changed": not np.array_equal(X, X_before), "first": whole.tolist()[:5], "second": again.tolist()[:5]}, {"fn": "tree_batch", "clause": "pure"})
            X[...] = X_before
        with np.errstate(all="ignore"):
            rows = []
            for r in range(len(X)):
                tr = t.set_terminals(**{f"x{i}": X[r, i] for i in range(X.shape[1])})
                rows.append(float(tr()))
        chk.count("batch_trees")
        chk.case(("batch", str(t)))
        if not all((math.isnan(a) and math.isnan(b)) or a == b or C.close(a, b, 1e-12, 1e-300) for a, b in zip(whole.tolist(), rows)):
            chk.fail("evaluating a tree on a batch differs from evaluating each sample on its own", {"tree": str(t), "batch": whole.tolist(), "rows": rows}, {"fn": "tree_batch"})

    try:
        outs = C.lean_driver([json.dumps(o) for o in ops])
    except Exception as e:
        chk.obligation("driver run", False, str(e))
        outs = []
    for o, (kind, inp, impl) in zip(outs, ctx):
        if "error" in o:
            chk.disagree(kind, {"input": inp, "impl": impl, "model_error": o["error"]})
        elif o["ok"] == impl:
            chk.agree(kind)
        else:
            chk.disagree(kind, {"input": inp, "impl": impl, "model": o["ok"]})
    chk.notes.append(f"all {len(shapes)} tree shapes with <= {nmax} nodes over arities 0..3, every node index; {npairs} pairs/triples/quadruples for the common region; function table on a 10-point grid per argument (scalars, arrays, mixed)")
    chk.trusted.append("the numeric function table is compared against Python's math (floats): exploration by nature")
    return chk.finish()


def replay(path: str) -> int:
    return main("quick")
