"""C08 — GP variation is closed: offspring are well-formed trees within max_level.

S3: every GP crossover and the swap / shrink / point / grow mutations against TFV.Model.Tree with
the random choices predicted by the RandomState mirror (exact), on exhaustive small shapes and
random trees over arities 1-3.
S4: well-formedness, depth bound, symbols, parents unmodified and the naming clauses, judged on
what the implementation returned (independent recursive reference); initialisers; GP / SelfCGP /
PDPGP runs with every pool entry, every evaluated tree checked. NUMBA_BOUNDSCHECK=1.
"""
from __future__ import annotations

import json
import random as pyrandom

import numpy as np

import common as C
import treelib as TL
from c11 import mirror_ok


def flat_names(t):
    return [n._name for n in t._nodes], [int(a) for a in t._n_args]


def sstr(t):
    """str(tree) that cannot raise on a malformed tree"""
    try:
        return str(t)
    except Exception:
        return "<malformed: %s / %s>" % ([n._name for n in t._nodes], [int(a) for a in t._n_args])


def well_formed(t, us_names=None):
    names, ar = flat_names(t)
    if len(names) != len(ar) or not TL.wf(ar):
        return False
    return all(int(n._n_args) == a for n, a in zip(t._nodes, ar))


def depth_of(ar):
    nested, _ = TL.parse(["?"] * len(ar), ar)
    return max(TL.ref_levels(nested))


def bsearch_float(v, cum):
    if v <= cum[0]:
        return 0
    left, right = 0, len(cum) - 1
    while right - left > 1:
        mid = (left + right) // 2
        if v <= cum[mid]:
            right = mid
        else:
            left = mid
    return right


def main(tier: str) -> int:
    chk = C.Check("C08", tier)
    chk.lean()
    from thefittest.base import Tree, FunctionalNode
    from thefittest.utils import crossovers as X, mutations as MU
    from thefittest.utils.random import numba_seed
    from thefittest.optimizers import GeneticProgramming, SelfCGP, PDPGP
    rng = pyrandom.Random(chk.seed)
    mirror = mirror_ok()
    chk.obligation("draw oracle: numba streams == RandomState mirror", mirror, "")
    us = TL.uniset()
    use = TL.uniset(with_ephemeral=True)
    sy = TL.Symbols()
    ops, ctx = [], []

    def add(op, c):
        ops.append(op)
        ctx.append(c)

    shapes = TL.shapes(5 if tier == "quick" else 6)
    small = [TL.make_tree(sh, us, variant=i) for i, sh in enumerate(shapes)]
    numba_seed(chk.seed + 17)
    randoms = [Tree.random_tree(us, rng.randint(1, 5)) for _ in range(150 if tier == "quick" else 1000)]
    pool_trees = small + randoms
    L = 6

    def check_child(opname, parents, child, max_level, d):
        """closure oracles common to all operators"""
        if not isinstance(child, Tree) or not well_formed(child):
            names, ar = flat_names(child)
            chk.fail("an operator produced a malformed tree (recorded arities do not describe one complete tree / do not match the symbols)",
                     {**d, "child_nodes": names, "child_arities": ar}, {"fn": opname, "clause": "well_formed"})
            return False
        names, ar = flat_names(child)
        pdepth = max(depth_of(flat_names(p)[1]) for p in parents)
        if pdepth <= max_level and depth_of(ar) > max_level:
            chk.fail("parents within max_level produced a deeper child", {**d, "child": sstr(child), "depth": depth_of(ar), "max_level": max_level}, {"fn": opname, "clause": "depth"})
        allowed = {n._name for p in parents for n in p._nodes} | {n._name for n in us._terminal_set} | {n._name for v in us._functional_set.values() for n in v}
        if any(nm not in allowed for nm in names) and "eph" not in d:
            chk.fail("the child contains a symbol from neither a parent nor the universal set", {**d, "child": sstr(child)}, {"fn": opname, "clause": "symbols"})
        return True

    # ------------------------------------------------------------------ crossovers
    xs = ["empty_crossoverGP", "standard_crossover", "one_point_crossoverGP", "uniform_crossoverGP",
          "uniform_proportional_crossover_GP", "uniform_rank_crossover_GP", "uniform_tournament_crossover_GP"]
    ncases = 700 if tier == "quick" else 7000
    for s in range(ncases):
        seed = chk.seed * 1_000_000 + s
        name = xs[s % len(xs)]
        k = 2 if name in ("standard_crossover", "one_point_crossoverGP") else rng.choice([2, 2, 3, 5, 7])
        src = small if s % 3 else pool_trees
        parents = [src[rng.randrange(len(src))] for _ in range(k)]
        before = [flat_names(p) for p in parents]
        fit = np.array([float(rng.choice([0, 1, 2, 2, 3])) for _ in range(k)])
        if fit.sum() == 0:
            fit[0] = 1.0
        rank = np.array([float(x) for x in np.argsort(np.argsort(fit)) + 1])
        arr = np.array(parents, dtype=object)
        numba_seed(seed)
        d = {"operator": name, "parents": [str(p) for p in parents], "seed": seed, "max_level": L}
        try:
            child = getattr(X, name)(arr, fit, rank, L)
        except Exception as e:
            chk.count(name)
            chk.fail("a crossover raises on well-formed parents", {**d, "error": repr(e)[:160]}, {"fn": name, "clause": "raises"})
            continue
        chk.count(name)
        chk.case((name, tuple(str(p) for p in parents), sstr(child)), sample={**d, "child": sstr(child)} if len(chk.samples) < 4 else None)
        if [flat_names(p) for p in parents] != before:
            chk.fail("a crossover modified its parents", d, {"fn": name, "clause": "inputs"})
        if not check_child(name, parents, child, L, d):
            continue
        cn, car = flat_names(child)
        pf = [sy.flat(p) for p in parents]
        cf = sy.flat(child)
        rs_u, rs_i = np.random.RandomState(seed), np.random.RandomState(seed)
        if name == "empty_crossoverGP":
            if (cn, car) != before[0]:
                chk.fail("empty crossover is not a clone of the first parent", d, {"fn": name, "clause": "naming"})
        elif name == "standard_crossover":
            # naming clause: exactly one subtree transplanted, or a parent clone
            a, b = before
            ok = (cn, car) in (a, b)
            for (rn, ra), (dn, da) in ((a, b), (b, a)):
                if ok:
                    break
                nested_r, _ = TL.parse(rn, ra)
                nested_d, _ = TL.parse(dn, da)
                for i in range(len(ra)):
                    e = i + TL.size(TL.sub_at(nested_r, i))
                    for j in range(len(da)):
                        f = j + TL.size(TL.sub_at(nested_d, j))
                        if cn == rn[:i] + dn[j:f] + rn[e:] and car == ra[:i] + da[j:f] + ra[e:]:
                            ok = True
                            break
                    if ok:
                        break
            if not ok:
                chk.fail("standard crossover child is neither a parent with one subtree transplanted from the other nor a clone", {**d, "child": sstr(child)}, {"fn": name, "clause": "naming"})
            if mirror:
                u = rs_u.random_sample(3)
                add({"op": "t_standard", "a": pf[0], "b": pf[1], "p": int(np.floor(len(pf[0]) * u[0])), "q": int(np.floor(len(pf[1]) * u[1])), "coin": bool(u[2] < 0.5), "L": L},
                    (name, d, cf))
        elif name == "one_point_crossoverGP":
            nested = [TL.parse(*before[0])[0], TL.parse(*before[1])[0]]
            com, _ = TL.ref_common(nested)
            ok = False
            for p, q in zip(com[0], com[1]):
                ea = p + TL.size(TL.sub_at(nested[0], p))
                eb = q + TL.size(TL.sub_at(nested[1], q))
                (an, aa), (bn, ba) = before
                if (cn == bn[:q] + an[p:ea] + bn[eb:] and car == ba[:q] + aa[p:ea] + ba[eb:]) or (cn == an[:p] + bn[q:eb] + an[ea:] and car == aa[:p] + ba[q:eb] + aa[ea:]):
                    ok = True
                    break
            if not ok:
                chk.fail("one-point crossover did not exchange subtrees at a point of the common region", {**d, "child": sstr(child)}, {"fn": name, "clause": "naming"})
            if mirror:
                u = rs_u.random_sample(2)
                add({"op": "t_one_point", "a": pf[0], "b": pf[1], "k": int(np.floor(len(com[0]) * u[0])), "coin": bool(u[1] < 0.5)}, (name, d, cf))
        else:
            nested = [TL.parse(*b)[0] for b in before]
            com, bor = TL.ref_common(nested)
            n0 = len(com[0])
            # naming clause: walk the common region; each position from some parent (whole subtree at borders)
            pos, ok = 0, True
            for i in range(n0):
                cands = []
                for j in range(k):
                    idx = com[j][i]
                    if com[0][i] in bor[0]:
                        e = idx + TL.size(TL.sub_at(nested[j], idx))
                        seg = (before[j][0][idx:e], before[j][1][idx:e])
                    else:
                        seg = ([before[j][0][idx]], [before[j][1][idx]])
                    if cn[pos:pos + len(seg[0])] == seg[0] and car[pos:pos + len(seg[1])] == seg[1]:
                        cands.append(len(seg[0]))
                if not cands:
                    ok = False
                    break
                pos += max(cands) if len(set(cands)) == 1 else min(cands)
            if not ok:
                chk.fail("uniform crossover child is not assembled position-wise from the parents inside the common region", {**d, "child": sstr(child)}, {"fn": name, "clause": "naming"})
            if mirror:
                if name == "uniform_crossoverGP":
                    pool = [int(x) for x in rs_i.randint(0, k, size=n0)]
                elif name == "uniform_tournament_crossover_GP":
                    pool = []
                    for _ in range(n0):
                        tt = []
                        while len(tt) < 2:
                            v = int(rs_i.randint(0, k))
                            if v not in tt:
                                tt.append(v)
                        pool.append(tt[int(np.argmax(fit[tt]))])
                else:
                    w = fit if name == "uniform_proportional_crossover_GP" else rank
                    cum = np.cumsum(w)
                    pool = []
                    while len(pool) < n0:
                        roll = cum[-1] * rs_u.random_sample()
                        if roll == 0.0:
                            continue
                        pool.append(bsearch_float(roll, cum))
                add({"op": "t_uniform", "ps": pf, "pool": pool}, (name, {**d, "pool": pool}, cf))

    # ------------------------------------------------------------------ mutations
    ms = ["point_mutation", "growing_mutation", "swap_mutation", "shrink_mutation"]
    for s in range(ncases):
        seed = chk.seed * 1_000_000 + 500_000 + s
        name = ms[s % len(ms)]
        src = small if s % 3 else pool_trees
        t = src[rng.randrange(len(src))]
        proba = rng.choice([1.0, 1.0, 1.0, 0.0, 0.5])
        before = flat_names(t)
        numba_seed(seed)
        d = {"operator": name, "tree": str(t), "arities": before[1], "proba": proba, "seed": seed}
        try:
            child = getattr(MU, name)(t, us, proba, L)
        except Exception as e:
            chk.count(name)
            chk.fail("a mutation raises on a well-formed tree (out-of-range index)", {**d, "error": repr(e)[:160]},
                     {"fn": name, "clause": "raises", "max_arity": max(before[1])})
            continue
        chk.count(name)
        chk.case((name, str(t), sstr(child), proba), sample={**d, "child": sstr(child)} if len(chk.samples) < 6 else None)
        if flat_names(t) != before:
            chk.fail("a mutation modified its parent", d, {"fn": name, "clause": "inputs"})
        if not check_child(name, [t], child, max(L, depth_of(before[1])), d):
            continue
        cn, car = flat_names(child)
        tn, ta = before
        nested, _ = TL.parse(tn, ta)
        tf, cf = sy.flat(t), sy.flat(child)
        u = np.random.RandomState(seed).random_sample(40)
        rs_i = np.random.RandomState(seed)
        fired = bool(u[0] < proba)
        if proba == 0.0 and (cn, car) != before:
            chk.fail("a mutation with probability 0 changed the tree", d, {"fn": name, "clause": "rate"})
        if depth_of(car) > depth_of(ta) and name != "growing_mutation":
            chk.fail("a point / swap / shrink mutation made the tree deeper", {**d, "child": sstr(child)}, {"fn": name, "clause": "depth"})
        if name == "growing_mutation" and depth_of(car) > depth_of(ta):
            chk.fail("a grow mutation made the tree deeper", {**d, "child": sstr(child)}, {"fn": name, "clause": "depth"})
        if name == "point_mutation":
            diff = [i for i in range(min(len(cn), len(tn))) if cn[i] != tn[i]]
            if car != ta or len(diff) > 1:
                chk.fail("point mutation is not a single same-arity symbol replacement", {**d, "child": sstr(child)}, {"fn": name, "clause": "naming"})
            elif mirror and fired:
                i = int(np.floor(len(tn) * u[1]))
                if (diff and diff[0] != i):
                    chk.disagree(name, {"input": d, "expected_index": i, "changed_index": diff})
                else:
                    add({"op": "t_point_mut", "l": tf, "i": i, "sym": cf[i][0]}, (name, {**d, "index": i}, cf))
        elif name == "swap_mutation":
            # naming clause: the argument subtrees of one node permuted (a cyclic permutation), nothing else changed
            ok = (cn, car) == before
            for i in range(len(ta)):
                if ok or ta[i] < 2:
                    continue
                node = TL.sub_at(nested, i)
                e = i + TL.size(node)
                if cn[:i + 1] != tn[:i + 1] or cn[e:] != tn[e:] or len(cn) != len(tn):
                    continue
                segs = [(tn[kk[0]:kk[0] + TL.size(kk)], ta[kk[0]:kk[0] + TL.size(kk)]) for kk in node[3]]
                import itertools
                for perm in itertools.permutations(range(len(segs))):
                    nn = sum((segs[p][0] for p in perm), [])
                    aa = sum((segs[p][1] for p in perm), [])
                    if cn[i + 1:e] == nn and car[i + 1:e] == aa:
                        ok = True
                        break
            if not ok:
                chk.fail("swap mutation is not a permutation of the argument subtrees of one node", {**d, "child": sstr(child)}, {"fn": name, "clause": "naming"})
            if mirror and fired:
                idxs = [i for i in range(len(ta)) if ta[i] > 1]
                if idxs:
                    i = idxs[int(rs_i.randint(0, len(idxs)))]
                    n = ta[i]
                    argpos = [kk[0] for kk in TL.sub_at(nested, i)[3]]
                    sh = list(argpos)
                    for m_, ii in enumerate(range(n - 1, 0, -1)):
                        j = int(np.floor(u[1 + m_] * ii))
                        sh[ii], sh[j] = sh[j], sh[ii]
                    perm = [0] * n
                    for tpos, newp in enumerate(sh):
                        perm[argpos.index(newp)] = tpos
                    add({"op": "t_swap", "l": tf, "i": i, "perm": perm}, (name, {**d, "index": i, "perm": perm}, cf))
        elif name == "shrink_mutation":
            ok = (cn, car) == before
            for i in range(len(ta)):
                if ok or ta[i] == 0:
                    continue
                node = TL.sub_at(nested, i)
                e = i + TL.size(node)
                for kk in node[3]:
                    ke = kk[0] + TL.size(kk)
                    if cn == tn[:i] + tn[kk[0]:ke] + tn[e:] and car == ta[:i] + ta[kk[0]:ke] + ta[e:]:
                        ok = True
            if not ok:
                chk.fail("shrink mutation did not replace a subtree by one of its own argument subtrees", {**d, "child": sstr(child)}, {"fn": name, "clause": "naming"})
            if mirror and fired and len(tn) > 2:
                idxs = [i for i in range(len(ta)) if ta[i] > 0]
                if idxs:
                    i = idxs[int(rs_i.randint(0, len(idxs)))]
                    kidx = int(rs_i.randint(0, ta[i])) if ta[i] > 1 else 0
                    add({"op": "t_shrink", "l": tf, "i": i, "k": kidx}, (name, {**d, "index": i, "arg": kidx}, cf))
        elif name == "growing_mutation" and mirror and fired:
            i = int(np.floor(len(tn) * u[1]))
            e = i + TL.size(TL.sub_at(nested, i))
            glen = len(cn) - (len(tn) - (e - i))
            grown_ar = car[i:i + glen]
            sub_depth = depth_of(ta[i:e])
            if glen < 1 or cn[:i] != tn[:i] or cn[i + glen:] != tn[e:] or not TL.wf(grown_ar) or depth_of(grown_ar) > sub_depth:
                chk.fail("grow mutation did not replace one subtree by a grown tree no deeper than it", {**d, "child": sstr(child), "index": i}, {"fn": name, "clause": "naming"})
            else:
                add({"op": "t_grow_mut", "l": tf, "i": i, "grown": cf[i:i + glen]}, (name, {**d, "index": i}, cf))

    # mutations with ephemeral constants in the universal set (closure only)
    for s in range(100):
        numba_seed(chk.seed + 3000 + s)
        t = Tree.random_tree(use, rng.randint(1, 4))
        for name in ms:
            try:
                child = getattr(MU, name)(t, use, 1.0, L)
            except Exception as e:
                chk.fail("a mutation raises on a well-formed tree (out-of-range index)", {"operator": name, "tree": str(t), "error": repr(e)[:160]},
                         {"fn": name, "clause": "raises", "max_arity": max(flat_names(t)[1])})
                continue
            chk.count("ephemeral_" + name)
            check_child(name, [t], child, max(L, depth_of(flat_names(t)[1])), {"operator": name, "tree": str(t), "eph": True})

    # aimed: a wide shallow parent and a narrow deep one of about the same size, max_level = depth of the deeper parent: a transplant that
    # is no larger than what it replaces can still make the tree deeper - the child stays within max_level
    f1, f2, f3 = us._functional_set[1][0], us._functional_set[2][0], us._functional_set[3][0]
    x0_, x1_ = us._terminal_set[0], us._terminal_set[1]
    wide = Tree([f2, f3, f3, x0_, x1_, x0_, x1_, x0_, x1_])                       # (tern(tern(..), x1, x0) + x1): depth 3, 9 nodes
    deep = Tree([f2, f1, f1, f1, x0_, x1_])                                      # (neg(neg(neg(x0))) + x1): depth 4, 6 nodes
    wide3 = Tree([f3, f3, f2, x0_, x1_, x1_, x0_, f2, x0_, x1_, x1_])             # depth 3
    deep3 = Tree([f1, f1, f2, f1, x0_, x1_])                                     # depth 4
    for pa, pb in ((wide, deep), (deep, wide), (wide3, deep3), (wide, deep3)):
        ml_ = max(depth_of(flat_names(pa)[1]), depth_of(flat_names(pb)[1]))
        for s in range(150):
            numba_seed(chk.seed * 1000 + 6000 + s)
            for name in ("standard_crossover", "one_point_crossoverGP", "uniform_crossoverGP"):
                arr = np.array([pa, pb], dtype=object)
                try:
                    child = getattr(X, name)(arr, np.ones(2), np.ones(2), ml_)
                except Exception as e:  # noqa
                    chk.fail("a crossover raises on well-formed parents", {"operator": name, "parents": [str(pa), str(pb)], "max_level": ml_, "error": repr(e)[:160]}, {"fn": name, "clause": "raises"})
                    continue
                chk.count("aimed_depth_" + name)
                chk.case(("aimed_depth", name, str(pa), str(pb), s))
                check_child(name, [pa, pb], child, ml_, {"operator": name, "parents": [str(pa), str(pb)], "max_level": ml_, "seed": chk.seed * 1000 + 6000 + s})

    # ... and with a generator of FLOAT constants that has a small range: every node of a mutant is a node over the universal set - a
    # function symbol or variable of the set, or a constant its generator can produce
    from thefittest.base import EphemeralNode as _EN, UniversalSet as _US
    from thefittest.base._tree import EphemeralConstantNode as _ECN
    FLOATS = (0.5, 2.5, 7.0)

    from thefittest.utils.random import randint as _randint

    def half_steps():
        return FLOATS[int(_randint(0, 3, 1)[0])]
    usf = _US(tuple(use._functional_set[-1]), tuple(t for t in use._terminal_set if not isinstance(t, _EN)) + (_EN(half_steps),))
    own = {id(n) for k, v in usf._functional_set.items() for n in v} | {id(t) for t in usf._terminal_set}
    for s in range(150):
        numba_seed(chk.seed + 4000 + s)
        t = Tree.random_tree(usf, rng.randint(1, 4))
        for name in ms:
            try:
                child = getattr(MU, name)(t, usf, 1.0, L)
            except Exception as e:
                chk.fail("a mutation raises on a well-formed tree (out-of-range index)", {"operator": name, "tree": str(t), "error": repr(e)[:160]},
                         {"fn": name, "clause": "raises", "max_arity": max(flat_names(t)[1])})
                continue
            chk.count("float_constants_" + name)
            if not check_child(name, [t], child, max(L, depth_of(flat_names(t)[1])), {"operator": name, "tree": str(t), "eph": True}):
                continue        # malformed: reported by check_child; it cannot be printed
            chk.case(("float_constants", name, str(t), str(child)))
            alien = [str(nd) for nd in child._nodes if not ((isinstance(nd, _ECN) and any(nd._value == f for f in FLOATS)) or id(nd) in own)]
            if alien:
                chk.fail("a mutation produced a node that is not over the universal set (neither one of its symbols nor a constant its generator produces)",
                         {"operator": name, "tree": str(t), "child": str(child), "alien_nodes": alien[:3], "generator_range": list(FLOATS)}, {"fn": name, "clause": "closure"})

    # ------------------------------------------------------------------ initialisers
    for s in range(300 if tier == "quick" else 3000):
        numba_seed(chk.seed + 9000 + s)
        ml = rng.randint(0, 6)
        kind = s % 3
        u_ = use if s % 2 else us
        t = (Tree.full_growing_method, Tree.growing_method, Tree.random_tree)[kind](u_, ml)
        names, ar = flat_names(t)
        chk.count(("full", "grow", "random")[kind])
        chk.case(("init", kind, ml, tuple(ar)))
        d = {"initialiser": ("full_growing_method", "growing_method", "random_tree")[kind], "max_level": ml, "tree": str(t), "seed": chk.seed + 9000 + s}
        if not well_formed(t) or depth_of(ar) > ml:
            chk.fail("an initialiser produced a malformed tree or one deeper than max_level", {**d, "arities": ar}, {"fn": "init", "clause": "closed"})
        elif kind == 0:
            nested, _ = TL.parse(names, ar)
            lv = TL.ref_levels(nested)
            if any((a == 0) != (l == ml) for a, l in zip(ar, lv)):
                chk.fail("the full method produced a tree whose leaves are not all at max_level", d, {"fn": "init", "clause": "full"})
    for s in range(24):
        numba_seed(chk.seed + 12000 + s)
        mlh = (5, 1, 2, 3, 6, 1)[s % 6]          # every limit from the smallest one on
        psz = (8, 12, 7)[s % 3]
        pop = GeneticProgramming.half_and_half(psz, us, mlh)
        chk.count("half_and_half_level_%d" % mlh)
        if len(pop) != psz or any((not well_formed(t)) or depth_of(flat_names(t)[1]) > mlh for t in pop):
            badt = next((t for t in pop if (not well_formed(t)) or depth_of(flat_names(t)[1]) > mlh), None)
            chk.fail("half_and_half produced a malformed or too deep tree", {"seed": chk.seed + 12000 + s, "max_level": mlh, "pop_size": psz,
                                                                              "tree": None if badt is None else sstr(badt)}, {"fn": "init", "clause": "half_and_half"})
            break

    # ------------------------------------------------------------------ the pool tables of live instances: each name is bound to
    # the operator it names (identity of the function object, parameter, constant-rate flag)
    import thefittest.utils.mutations as MU
    import thefittest.utils.crossovers as CX
    for cls in (GeneticProgramming, SelfCGP, PDPGP):
        kwp = dict(fitness_function=lambda tr: np.zeros(len(tr)), uniset=us, iters=2, pop_size=4, parents_num=3, tour_size=4, mutation_rate=0.3)
        inst = cls(**kwp)
        exp_m = {f"gp_{r}_{k}": (fn, rate, r == "custom_rate") for k, fn in (("point", MU.point_mutation), ("grow", MU.growing_mutation), ("swap", MU.swap_mutation), ("shrink", MU.shrink_mutation))
                 for r, rate in (("weak", 0.25), ("average", 1), ("strong", 4), ("custom_rate", 0.3))}
        exp_x = {"gp_empty": (CX.empty_crossoverGP, 1), "gp_standard": (CX.standard_crossover, 2), "gp_one_point": (CX.one_point_crossoverGP, 2)}
        for fam, fn in (("uniform", CX.uniform_crossoverGP), ("uniform_prop", CX.uniform_proportional_crossover_GP), ("uniform_rank", CX.uniform_rank_crossover_GP), ("uniform_tour", CX.uniform_tournament_crossover_GP)):
            for suffix, n in ((("3", 3) if fam == "uniform_tour" else ("2", 2)), ("7", 7), ("k", 3)):
                exp_x[f"gp_{fam}_{suffix}"] = (fn, n)
        wrong = []
        for name, (fn, rate, const) in exp_m.items():
            got = inst._mutation_pool.get(name)
            if got is None or got[0] is not fn or float(got[1]) != float(rate) or bool(got[2]) != const:
                wrong.append((name, None if got is None else (getattr(got[0], "__name__", "?"), got[1:])))
        for name, (fn, n) in exp_x.items():
            got = inst._crossover_pool.get(name)
            if got is None or got[0] is not fn or int(got[1]) != n:
                wrong.append((name, None if got is None else (getattr(got[0], "__name__", "?"), got[1:])))
        chk.count("pool_table_" + cls.__name__)
        chk.case(("pool_table", cls.__name__))
        chk.obligation(f"operator pool table of {cls.__name__}: every gp_* name bound to the function it names", not wrong, str(wrong[:3]))
        # behaviour through the pool: what each mutation entry does to a tree, judged by what its name promises
        numba_seed(chk.seed + 77)
        probe = [t for t in pool_trees if len(t) >= 4 and max(int(a) for a in t._n_args) >= 2][:6]
        for name, got in inst._mutation_pool.items():
            if not name.startswith("gp_"):
                continue
            kind = name.split("_")[-1]
            for t in probe:
                names0, ar0 = flat_names(t)
                for _ in range(6):
                    child = got[0](t.copy(), us, 1.0, 16)
                    names1, ar1 = flat_names(child)
                    ok = True
                    if kind == "point":
                        ok = ar1 == ar0
                    elif kind == "swap":
                        ok = sorted(names1) == sorted(names0) and sorted(ar1) == sorted(ar0)
                    elif kind == "shrink":
                        ok = len(names1) < len(names0) or names1 == names0
                    if not ok:
                        chk.fail("an operator reached through the pool does not do what its name says",
                                 {"optimizer": cls.__name__, "entry": name, "bound_to": getattr(got[0], "__name__", "?"), "parent": sstr(t), "child": sstr(child)},
                                 {"fn": "pool", "clause": "wiring", "mutation": kind})
                        break
                else:
                    continue
                break
    # ------------------------------------------------------------------ whole runs with every pool entry
    xnames = ["gp_empty", "gp_standard", "gp_one_point", "gp_uniform_2", "gp_uniform_7", "gp_uniform_k", "gp_uniform_prop_2", "gp_uniform_prop_7", "gp_uniform_prop_k",
              "gp_uniform_rank_2", "gp_uniform_rank_7", "gp_uniform_rank_k", "gp_uniform_tour_3", "gp_uniform_tour_7", "gp_uniform_tour_k"]
    mnames = [f"gp_{r}_{k}" for k in ("point", "grow", "swap", "shrink") for r in ("weak", "average", "strong", "custom_rate")]
    combos = [(xnames[i % len(xnames)], mnames[(i * 5) % len(mnames)]) for i in range(len(xnames) + 5)]
    if tier == "thorough":
        combos = [(x, m) for x in xnames for m in mnames][::3]
    for ci, (cx, mut) in enumerate(combos):
        for cls in ((GeneticProgramming,) if ci % 3 else (GeneticProgramming, SelfCGP, PDPGP)):
            bad = []
            ML = 5

            def fit(trees):
                for t in trees:
                    if not well_formed(t) or depth_of(flat_names(t)[1]) > ML:
                        bad.append((str(t), flat_names(t)[1]))
                return np.array([float(-abs(len(t) - 8)) for t in trees])
            kw = dict(fitness_function=fit, uniset=use if ci % 2 else us, iters=5, pop_size=9, max_level=ML, init_level=4, parents_num=3, tour_size=3,
                      mutation_rate=0.6, random_state=chk.seed * 100 + ci)
            if cls is GeneticProgramming:
                kw.update(selection=["tournament_k", "rank", "proportional"][ci % 3], crossover=cx, mutation=mut)
            else:
                kw.update(selections=("rank", "tournament_3"), crossovers=(cx, "gp_standard") if cx != "gp_standard" else (cx,), mutations=(mut,))
            d = {"optimizer": cls.__name__, "crossover": cx, "mutation": mut, "seed": chk.seed * 100 + ci}
            try:
                cls(**kw).fit()
            except Exception as e:
                chk.fail("a GP run raises", {**d, "error": repr(e)[:300]}, {"fn": "run", "clause": "raises", "mutation": mut.split("_")[-1]})
                continue
            chk.count("run_" + cls.__name__)
            chk.case(("run", cls.__name__, cx, mut))
            if bad:
                chk.fail("a GP run evaluated a malformed tree or one deeper than max_level", {**d, "tree": bad[0][0], "arities": bad[0][1], "count": len(bad)},
                         {"fn": "run", "clause": "closed", "mutation": mut.split("_")[-1]})

    try:
        outs = C.lean_driver([json.dumps(o) for o in ops])
    except Exception as e:
        chk.obligation("driver run", False, str(e))
        outs = []
    for o, (kind, inp, impl) in zip(outs, ctx):
        if "error" in o:
            chk.disagree(kind, {"input": inp, "impl": impl, "model_error": o["error"]})
        elif o["ok"] == impl:
            chk.agree(kind)
        else:
            chk.disagree(kind, {"input": inp, "impl_child": impl, "model_child": o["ok"]})
    chk.notes.append(f"{len(shapes)} exhaustive shapes (<= {5 if tier == 'quick' else 6} nodes, arities 0..3) + random trees; {ncases} crossover and {ncases} mutation applications with mirrored random choices, 2..7 parents, fitness with ties/zeros; initialisers; GP/SelfCGP/PDPGP runs over the operator pool")
    return chk.finish()


def replay(path: str) -> int:
    return main("quick")
