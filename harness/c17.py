"""C17 — see ea_props.py (oracles) and ea_trace.py (trace recording + model replay)."""
import ea_props


def main(tier: str) -> int:
    return ea_props.main("C17", tier)


def replay(path: str) -> int:
    return main("quick")
