"""C07 — real-coded DE family: every candidate stays inside the search box.

S3: bounds_control / bounds_control_mean, every donor strategy, binomial against TFV.Model.DE
(exact rationals; dyadic inputs so that double arithmetic is exact; index draws predicted by the
RandomState mirror).  S4: every evaluated candidate and every population member of DE / jDE / SHADE
runs in the box (objectives that reward leaving it; scalar, per-coordinate, degenerate and
asymmetric boxes; F, CR in {0, .5, 1}); trial structure and repair-only-outside observed through
module-level wrappers of a live optimizer; distinct indices; strategy pool table.
"""
from __future__ import annotations

import json
import random as pyrandom
from fractions import Fraction

import numpy as np

import common as C
from c11 import mirror_ok

STRATS = {"best_1": 2, "rand_1": 3, "current_to_best_1": 2, "rand_to_best1": 3, "best_2": 4, "rand_2": 5}


def expected_donor(name, cur, best, pop, F, r):
    x = [pop[i] for i in r]
    if name == "best_1":
        return best + F * (x[0] - x[1])
    if name == "rand_1":
        return x[2] + F * (x[0] - x[1])
    if name == "current_to_best_1":
        return cur + F * (best - cur) + F * (x[0] - x[1])
    if name == "rand_to_best1":
        return x[0] + F * (best - x[0]) + F * (x[1] - x[2])
    if name == "best_2":
        return best + F * (x[0] - x[1]) + F * (x[2] - x[3])
    if name == "rand_2":
        return x[4] + F * (x[0] - x[1]) + F * (x[2] - x[3])
    raise KeyError(name)


def main(tier: str) -> int:
    chk = C.Check("C07", tier)
    chk.lean()
    from thefittest.utils import mutations as MU
    from thefittest.utils.crossovers import binomial
    from thefittest.utils.random import numba_seed
    from thefittest.optimizers import DifferentialEvolution, jDE, SHADE
    import thefittest.optimizers._differentialevolution as DEM
    import thefittest.optimizers._shade as SHM

    rng = pyrandom.Random(chk.seed)
    mirror = mirror_ok()
    chk.obligation("draw oracle: numba streams == RandomState mirror", mirror, "")
    ops, ctx = [], []

    def add(op, c):
        ops.append(op)
        ctx.append(c)

    def R(v):
        return [C.rat(float(x)) for x in v]

    # ---- boundary repair, exact
    for _ in range(300 if tier == "quick" else 3000):
        n = rng.randint(1, 5)
        left = np.array([rng.choice([-2.0, 0.0, 1.0, -0.5]) for _ in range(n)])
        right = left + np.array([rng.choice([0.0, 1.0, 3.5, 0.25]) for _ in range(n)])
        x = np.array([rng.choice([l - 1.5, l, (l + r) / 2, r, r + 2.25, l - 0.125]) for l, r in zip(left, right)])
        parent = np.array([l + (r - l) * rng.choice([0.0, 0.25, 1.0]) for l, r in zip(left, right)])
        x0 = x.copy()
        out = DEM.bounds_control(x, left, right)
        chk.case(("bc", tuple(x), tuple(left), tuple(right)))
        if not all(l <= o <= r for o, l, r in zip(out, left, right)) or any(o != xi for o, xi, l, r in zip(out, x, left, right) if l <= xi <= r):
            chk.fail("bounds_control leaves the box or changes an inside coordinate", {"x": x.tolist(), "left": left.tolist(), "right": right.tolist(), "out": out.tolist()}, {"fn": "bounds_control"})
        add({"op": "de_bounds", "x": R(x), "left": R(left), "right": R(right)}, ("bounds_control", {"x": x.tolist(), "left": left.tolist(), "right": right.tolist()}, out.tolist()))
        try:
            outm = SHM.bounds_control_mean(x, parent, left, right)
            new_sig = True
        except TypeError:
            outm = SHM.bounds_control_mean(x, left, right)
            new_sig = False
        if not all(l <= o <= r for o, l, r in zip(outm, left, right)) or any(o != xi for o, xi, l, r in zip(outm, x, left, right) if l <= xi <= r):
            chk.fail("bounds_control_mean leaves the box or changes an inside coordinate",
                     {"x": x.tolist(), "parent": parent.tolist(), "left": left.tolist(), "right": right.tolist(), "out": outm.tolist()}, {"fn": "bounds_control_mean"})
        if new_sig:
            add({"op": "de_bounds_mean", "x": R(x), "parent": R(parent), "left": R(left), "right": R(right)},
                ("bounds_control_mean", {"x": x.tolist(), "parent": parent.tolist(), "left": left.tolist(), "right": right.tolist()}, outm.tolist()))
        if not np.array_equal(x, x0):
            chk.fail("boundary repair modified its argument", {"x": x0.tolist()}, {"fn": "bounds_control", "clause": "inputs"})

    # ---- donor strategies on an integer population in general position, dyadic F
    nseeds = 150 if tier == "quick" else 1500
    for s in range(nseeds):
        seed = chk.seed * 100000 + s
        size, dim = rng.randint(5, 9), rng.randint(1, 4)
        pop = np.array([[float((i + 1) * 7 ** (d + 1) % 101 + 16 * i) for d in range(dim)] for i in range(size)])
        cur = pop[rng.randrange(size)].copy()
        best = pop[rng.randrange(size)].copy()
        F = rng.choice([0.0, 0.5, 1.0, 0.25, 0.875])
        name = list(STRATS)[s % len(STRATS)]
        fn = getattr(MU, name)
        numba_seed(seed)
        pop0 = pop.copy()
        out = fn(cur, best, pop, np.float64(F))
        chk.count(name)
        chk.case((name, size, dim, F, tuple(out)))
        if not np.array_equal(pop, pop0):
            chk.fail("a donor strategy modified the population", {"strategy": name}, {"fn": name, "clause": "inputs"})
        # S4: some tuple of pairwise distinct indices reproduces the donor exactly
        k = STRATS[name]
        import itertools
        found = None
        for r in itertools.permutations(range(size), k):
            if np.array_equal(expected_donor(name, cur, best, pop, F, r), out):
                found = r
                break
        if found is None and F != 0.0:
            chk.fail("the donor is not the configured strategy's combination of distinct population members scaled by F",
                     {"strategy": name, "F": F, "population": pop.tolist(), "current": cur.tolist(), "best": best.tolist(), "donor": out.tolist()},
                     {"fn": name, "clause": "form"})
        if mirror:
            rs_i = np.random.RandomState(seed)
            r = []
            while len(r) < k:
                v = int(rs_i.randint(0, size))
                if v not in r:
                    r.append(v)
            add({"op": "de_donor", "strategy": name, "cur": R(cur), "best": R(best), "pop": [R(p) for p in pop], "F": C.rat(F), "r": r},
                (name, {"strategy": name, "F": F, "population": pop.tolist(), "current": cur.tolist(), "best": best.tolist(), "indices": r}, out.tolist()))

    # ---- binomial with mirrored draws
    for s in range(nseeds):
        seed = chk.seed * 100000 + 40000 + s
        n = rng.randint(1, 7)
        x = np.array([float(rng.randint(-9, 9)) for _ in range(n)])
        m = np.array([float(rng.randint(10, 30)) for _ in range(n)])
        CR = rng.choice([0.0, 1.0, 0.5, 0.9, 0.1])
        numba_seed(seed)
        out = binomial(x, m, np.float64(CR))
        chk.count("binomial")
        donors = [i for i in range(n) if out[i] == m[i]]
        if len(out) != n or any(out[i] not in (x[i], m[i]) for i in range(n)) or not donors:
            chk.fail("the trial does not take at least one coordinate from the donor and every other from donor or parent",
                     {"parent": x.tolist(), "donor": m.tolist(), "CR": CR, "trial": out.tolist()}, {"fn": "binomial", "clause": "structure"})
        if CR >= 1.0 and len(donors) != n:
            chk.fail("binomial with CR = 1 is not the donor", {"parent": x.tolist(), "donor": m.tolist(), "trial": out.tolist()}, {"fn": "binomial", "clause": "rate"})
        if CR <= 0.0 and len(donors) != 1:
            chk.fail("binomial with CR = 0 takes more than the forced coordinate", {"parent": x.tolist(), "donor": m.tolist(), "trial": out.tolist()}, {"fn": "binomial", "clause": "rate"})
        chk.case(("bin", n, CR, tuple(out)))
        if mirror:
            u = np.random.RandomState(seed).random_sample(n + 1)
            add({"op": "de_binomial", "x": R(x), "m": R(m), "mask": [bool(u[i + 1] < CR) for i in range(n)], "j": int(np.floor(n * u[0]))},
                ("binomial", {"parent": x.tolist(), "donor": m.tolist(), "CR": CR, "seed": seed}, out.tolist()))

    # ---- strategy pool table
    inst = DifferentialEvolution(fitness_function=lambda x: np.zeros(len(x)), iters=2, pop_size=6, left_border=-1.0, right_border=1.0, num_variables=2)
    bad = [k for k in STRATS if k not in inst._mutation_pool or getattr(inst._mutation_pool[k], "__name__", getattr(getattr(inst._mutation_pool[k], "py_func", None), "__name__", "")) != k]
    bad += [k for k in inst._mutation_pool if k not in STRATS]
    chk.obligation("strategy pool of DifferentialEvolution equals the specification table", not bad, str(bad))
    if bad:
        chk.fail("a DE strategy name is bound to the wrong function", {"entries": bad}, {"fn": "pool", "clause": "wiring"})

    # ---- whole runs: every evaluated candidate and every population member in the box
    boxes = [(-1.0, 1.0, 3), (np.array([-2.0, 0.0, 5.0]), np.array([-1.0, 0.5, 5.0]), 3),      # asymmetric + degenerate coordinate
             (np.array([0.0, -10.0]), np.array([1e-3, 10.0]), 2), (2.0, 2.0, 2)]
    objs = {"sum_abs": lambda x: np.sum(np.abs(x), axis=1), "sum": lambda x: np.sum(x, axis=1), "neg_sum": lambda x: -np.sum(x, axis=1)}

    def run(cls, box, oname, F, CR, strategy, seed, elit, g2p=False):
        left, right, nv = box
        L = np.full(nv, left) if np.isscalar(left) else left
        Rr = np.full(nv, right) if np.isscalar(right) else right
        viol = []
        recs = {"trials": []}

        def inbox(x, what):
            x = np.asarray(x)
            if x.shape[1] != nv or np.any(x < L - 0) or np.any(x > Rr + 0):
                viol.append((what, x[np.any((x < L) | (x > Rr), axis=1)][:2].tolist() if x.shape[1] == nv else list(x.shape)))

        def fit(x):
            if not g2p:
                inbox(x, "evaluated")
            return objs[oname](np.asarray(x))

        def to_ph(g):
            # a genotype_to_phenotype that leaves the box (same number of coordinates): the candidates are the genotypes
            inbox(g, "candidate")
            return np.asarray(g, dtype=np.float64) * 50.0 + 100.0
        kw = dict(fitness_function=fit, iters=12, pop_size=10, left_border=left, right_border=right, num_variables=nv, random_state=seed, elitism=elit, keep_history=True)
        if g2p:
            kw["genotype_to_phenotype"] = to_ph
        kw["on_generation"] = lambda oo: inbox(oo._population_g_i, "live population")
        if cls is DifferentialEvolution:
            kw.update(F=F, CR=CR, mutation=strategy)
        elif cls is jDE:
            kw.update(mutation=strategy)
        o = cls(**kw)
        # observe binomial + repair of the live optimizer through the module globals it looks up
        mod = SHM if cls is SHADE else DEM
        saved = (mod.binomial, getattr(mod, "bounds_control_mean", None), DEM.bounds_control)

        def wbin(ind, mut, cr, _o=saved[0]):
            t = _o(ind, mut, cr)
            recs["trials"].append((ind.copy(), mut.copy(), t.copy()))
            return t
        mod.binomial = wbin
        # the vector handed to the strategy as "the best" is the best individual found so far (also with elitism off)
        if cls is not SHADE and getattr(o, "_specified_mutation", None) in getattr(o, "_mutation_pool", {}):
            _sm = o._mutation_pool[o._specified_mutation]

            def wsm(cur, best, popg, F_, _sm=_sm):
                if not np.array_equal(np.asarray(best), np.asarray(o._thefittest._genotype)) and not any(v[0] == "best" for v in viol):
                    viol.append(("best", {"handed_as_best": np.asarray(best).tolist(), "best_so_far": np.asarray(o._thefittest._genotype).tolist()}))
                if cls is DifferentialEvolution and F is not None and float(F_) != float(F) and not any(v[0] == "F" for v in viol):
                    viol.append(("F", {"configured_F": float(F), "F_handed_to_the_strategy": float(F_)}))
                return _sm(cur, best, popg, F_)
            o._mutation_pool = dict(o._mutation_pool)
            o._mutation_pool[o._specified_mutation] = wsm
        try:
            o.fit()
        finally:
            mod.binomial = saved[0]
        st = o.get_stats()
        for g, pg in enumerate(st["population_g"]):
            pg = np.asarray(pg)
            if pg.shape != (10, nv) or np.any(pg < L) or np.any(pg > Rr):
                viol.append(("population", g))
                break
        return viol, recs

    run_id = 0
    for cls in (DifferentialEvolution, jDE, SHADE):
        for bi, box in enumerate(boxes):
            for oname in objs:
                strategies = list(STRATS) if cls is not SHADE else ["-"]
                if tier == "quick":
                    strategies = [strategies[(bi + run_id) % len(strategies)]]
                for strategy in strategies:
                    for F, CR in (((0.5, 0.5), (1.0, 1.0), (0.0, 0.0)) if cls is DifferentialEvolution else ((None, None),)):
                        if tier == "quick" and cls is DifferentialEvolution and (F, CR) != (0.5, 0.5) and oname != "sum_abs" and not ((F, CR) == (0.0, 0.0) and bi == 0):
                            continue
                        run_id += 1
                        viol, recs = run(cls, box, oname, F, CR, strategy, chk.seed * 1000 + run_id, elit=(run_id % 2 == 0))
                        chk.count("run_" + cls.__name__)
                        d = {"optimizer": cls.__name__, "left": np.asarray(box[0]).tolist(), "right": np.asarray(box[1]).tolist(), "num_variables": box[2],
                             "objective": oname, "F": F, "CR": CR, "strategy": strategy, "seed": chk.seed * 1000 + run_id}
                        chk.case(("run", cls.__name__, bi, oname, strategy, F, CR), sample=d if len(chk.samples) < 5 else None)
                        if any(v[0] == "F" for v in viol):
                            vf = next(v for v in viol if v[0] == "F")
                            chk.fail("the donor is not scaled by the configured F", {**d, **vf[1]}, {"fn": "donor", "clause": "F", "optimizer": cls.__name__})
                            viol = [v for v in viol if v[0] != "F"]
                        if any(v[0] == "best" for v in viol):
                            vb = next(v for v in viol if v[0] == "best")
                            chk.fail("the vector handed to the donor strategy as 'the best' is not the best individual found so far",
                                     {**d, "elitism": bool(run_id % 2 == 0), **vb[1]}, {"fn": "donor", "clause": "best", "optimizer": cls.__name__})
                            viol = [v for v in viol if v[0] != "best"]
                        if viol:
                            chk.fail("a candidate handed to the fitness function (or a population member) lies outside the box",
                                     {**d, "first": str(viol[0])[:200], "count": len(viol)}, {"fn": "box", "optimizer": cls.__name__})
                        if bi == 0 and (F, CR) in ((0.5, 0.5), (None, None)):
                            # the same with a genotype_to_phenotype whose images lie outside the box, elitism on
                            run_id += 1
                            viol2, _ = run(cls, box, oname, F, CR, strategy, chk.seed * 1000 + run_id, elit=True, g2p=True)
                            chk.count("run_g2p_" + cls.__name__)
                            chk.case(("run_g2p", cls.__name__, bi, oname, strategy))
                            if viol2:
                                chk.fail("a candidate handed to genotype_to_phenotype (or a population member) lies outside the box",
                                         {**d, "genotype_to_phenotype": "50*g+100", "elitism": True, "first": str(viol2[0])[:200], "count": len(viol2)},
                                         {"fn": "box", "optimizer": cls.__name__, "clause": "g2p"})
                        for ind, mut, t in recs["trials"][:400]:
                            if len(t) != box[2] or any(t[i] not in (ind[i], mut[i]) for i in range(len(t))) or not any(t[i] == mut[i] for i in range(len(t))):
                                chk.fail("a trial of a live run does not have the binomial structure", {**d, "parent": ind.tolist(), "donor": mut.tolist(), "trial": t.tolist()},
                                         {"fn": "binomial", "clause": "structure", "optimizer": cls.__name__})
                                break

    # ---- SHADE: the p-best candidates handed to the donor are among the best ceil(p*pop_size) of the CURRENT population,
    # in every generation, including generations in which the best-so-far did not improve (multimodal objective, pop_size >= 40)
    def rastrigin(x):
        x = np.asarray(x, dtype=np.float64)
        return -(10.0 * x.shape[1] + np.sum(x * x - 10.0 * np.cos(2 * np.pi * x), axis=1))
    for pop, sd in ((60, 0), (40, 1)):
        o = SHADE(fitness_function=rastrigin, iters=12, pop_size=pop, left_border=-5.12, right_border=5.12, num_variables=4, random_state=chk.seed + sd, keep_history=True)
        saved_pb = SHM.current_to_pbest_1_archive_p_min
        stale = []
        pool_bad = []
        roles_bad = []

        def wpb(ind, popg, pbest, F, arch, _o=saved_pb, _oo=o, _pop=pop):
            # the pool "population U archive" handed to the strategy holds only current members and archive members
            if not pool_bad:
                cur = {tuple(r) for r in np.asarray(_oo._population_g_i).tolist()}
                arc = {tuple(r) for r in np.asarray(_oo._population_g_archive_i).tolist()}
                for ri, row in enumerate(np.asarray(arch).tolist()):
                    if tuple(row) not in cur and tuple(row) not in arc:
                        pool_bad.append({"generation": len(_oo.get_stats()["fitness"]) + 1, "row_of_the_pool": ri, "vector": row})
                        break
            # ... and the strategy's roles: its population argument is the CURRENT population (the added vector x_r1 is a population
            # member), its pool argument is population followed by archive (only the subtracted x_r2 may be an archive member)
            if not roles_bad:
                curm = np.asarray(_oo._population_g_i, dtype=np.float64)
                if not np.array_equal(np.asarray(popg, dtype=np.float64), curm) or len(arch) < len(curm) or not np.array_equal(np.asarray(arch, dtype=np.float64)[: len(curm)], curm):
                    roles_bad.append({"generation": len(_oo.get_stats()["fitness"]) + 1, "rows_of_the_population_argument": int(len(popg)), "rows_of_the_pool_argument": int(len(arch)),
                                      "current_population_rows": int(len(curm))})
            k = max(1, int(0.05 * _pop))
            fitn = np.asarray(_oo._fitness_i, dtype=np.float64)
            kth = np.sort(fitn)[-k]
            if len(stale) == 0 and (len(pbest) != k or any(fitn[int(j)] < kth for j in pbest)):
                stale.append({"generation": len(_oo.get_stats()["fitness"]) + 1, "p_best_candidates": [int(j) for j in pbest],
                              "their_fitness": [float(fitn[int(j)]) for j in pbest], "kth_best_fitness": float(kth),
                              "generations_without_improvement": int(_oo._thefittest._no_update_counter)})
            return _o(ind, popg, pbest, F, arch)
        SHM.current_to_pbest_1_archive_p_min = wpb
        try:
            o.fit()
        finally:
            SHM.current_to_pbest_1_archive_p_min = saved_pb
        chk.count("shade_pbest")
        chk.case(("shade_pbest", pop, sd))
        if pool_bad:
            chk.fail("the pool handed to SHADE's strategy contains a vector that is neither a member of the current population nor of the archive",
                     {"optimizer": "SHADE", "pop_size": pop, "objective": "rastrigin", "elitism": True, **pool_bad[0]}, {"fn": "SHADE", "clause": "pool"})
        if roles_bad:
            chk.fail("a SHADE donor is not the strategy's combination: the added vector must be a population member, only the subtracted one may come from the archive",
                     {"optimizer": "SHADE", "pop_size": pop, "objective": "rastrigin", **roles_bad[0]}, {"fn": "SHADE", "clause": "roles"})
        if stale:
            chk.fail("a SHADE donor is built from a member that is not among the p-best of the current population",
                     {"optimizer": "SHADE", "pop_size": pop, "objective": "rastrigin", **stale[0]}, {"fn": "SHADE", "clause": "pbest_current"})

    # ---- jDE: the F / CR that scale each donor are THIS generation's self-adapted values, and an
    # accepted individual carries exactly the parameters that produced its trial
    for strategy in ("rand_1", "best_2", "current_to_best_1"):
        gens = []
        o = jDE(fitness_function=lambda x: np.sum(np.asarray(x) ** 2, axis=1), iters=10, pop_size=9, left_border=-3.0, right_border=3.0, num_variables=2,
                mutation=strategy, t_F=0.5, t_CR=0.5, minimization=True, random_state=chk.seed + 3)
        oF, oCR, oInd, oNew = o._get_mutate_F, o._get_mutate_CR, o._get_new_individ_g, o._get_new_population

        def wF():
            v = oF()
            gens.append({"F": v.copy(), "CR": None, "used": [], "before": (o._F.copy(), o._CR.copy(), o._fitness_i.copy())})
            return v

        def wCR():
            v = oCR()
            gens[-1]["CR"] = v.copy()
            return v

        def wInd(individ_g, F, CR):
            gens[-1]["used"].append((float(F), float(CR)))
            return oInd(individ_g=individ_g, F=F, CR=CR)

        def wNew():
            oNew()
            gens[-1]["after"] = (o._F.copy(), o._CR.copy(), o._fitness_i.copy())
        o._get_mutate_F, o._get_mutate_CR, o._get_new_individ_g, o._get_new_population = wF, wCR, wInd, wNew
        o.fit()
        chk.count("jde_parameters")
        for gi, g in enumerate(gens):
            dd = {"optimizer": "jDE", "strategy": strategy, "generation": gi + 1}
            chk.case(("jde", strategy, gi))
            usedF = [u[0] for u in g["used"]]
            usedCR = [u[1] for u in g["used"]]
            if usedF != [float(v) for v in g["F"]] or usedCR != [float(v) for v in g["CR"]]:
                chk.fail("the F / CR handed to the donor strategy are not this generation's self-adapted values (donor not scaled by the current F)",
                         {**dd, "used_F": usedF[:4], "self_adapted_F": [float(v) for v in g["F"][:4]]}, {"fn": "jDE", "clause": "current_F"})
                break
            if "after" in g:
                changed = g["after"][2] != g["before"][2]
                if any(changed[i] and (g["after"][0][i] != usedF[i] or g["after"][1][i] != usedCR[i]) for i in range(len(usedF))):
                    chk.fail("an individual replaced by its trial does not carry the F / CR that produced the trial", dd, {"fn": "jDE", "clause": "carried_F"})
                    break

    try:
        outs = C.lean_driver([json.dumps(o) for o in ops])
    except Exception as e:
        chk.obligation("driver run", False, str(e))
        outs = []
    for o, (kind, inp, impl) in zip(outs, ctx):
        if "error" in o:
            chk.disagree(kind, {"input": inp, "impl": impl, "model_error": o["error"]})
            continue
        m = [C.frac(v) for v in o["ok"]]
        if len(m) == len(impl) and all(C.close(a, b, 1e-12, 1e-12) for a, b in zip(impl, m)):
            chk.agree(kind)
        else:
            chk.disagree(kind, {"input": inp, "impl": impl, "model": [float(v) for v in m]})
    chk.notes.append("repair functions on boxes incl. degenerate ones; 6 strategies x dyadic F on integer populations in general position (index tuple recovered by search AND predicted by the mirror); binomial with mirrored draws; DE/jDE/SHADE runs on 4 boxes x 3 objectives that reward leaving the box")
    chk.assumptions.append("donor forms are compared on inputs where double arithmetic is exact; elsewhere the linear forms hold up to rounding")
    return chk.finish()


def replay(path: str) -> int:
    return main("quick")
