"""C19 — built-in metrics equal their textbook definitions.

S3: the numba metric kernels against TFV.Model.Metrics (exact rationals vs doubles at 1e-12),
exhaustive over all admissible label-vector pairs of small length.
S4: against an independent reference implementation (scikit-learn / plain formulas), batch
variants against row-wise application.
"""
from __future__ import annotations

import itertools
import json
import math
import random as pyrandom

import numpy as np

import common as C


def ref_macro(yt, yp, kind):
    classes = sorted(set(yt))
    vals = []
    for c in classes:
        tp = sum(1 for a, b in zip(yt, yp) if a == c and b == c)
        fn = sum(1 for a, b in zip(yt, yp) if a == c and b != c)
        fp = sum(1 for a, b in zip(yt, yp) if a != c and b == c)
        if tp == 0:
            vals.append(0.0)
        elif kind == "recall":
            vals.append(tp / (tp + fn))
        elif kind == "precision":
            vals.append(tp / (tp + fp))
        else:
            vals.append(2 * tp / (2 * tp + fn + fp))
    return sum(vals) / len(vals)


def main(tier: str) -> int:
    chk = C.Check("C19", tier)
    chk.lean()
    from thefittest.utils import _metrics as M
    try:
        from sklearn import metrics as SK
    except Exception:  # pragma: no cover
        SK = None
    rng = pyrandom.Random(chk.seed)
    ops, ctx = [], []

    def add(op, c):
        ops.append(op)
        ctx.append(c)

    nmax = 5 if tier == "quick" else 6
    fns = {"recall": M.recall_score, "precision": M.precision_score, "f1": M.f1_score, "accuracy": M.accuracy_score}
    fns2d = {"recall": M.recall_score2d, "precision": M.precision_score2d, "f1": M.f1_score2d, "accuracy": M.accuracy_score2d}

    def one(yt, yp, send=True):
        a, b = np.array(yt, dtype=np.int64), np.array(yp, dtype=np.int64)
        a0, b0 = a.copy(), b.copy()
        got = {k: float(f(a, b)) for k, f in fns.items()}
        conf = M.confusion_matrix(a, b)
        chk.case((tuple(yt), tuple(yp)), sample={"y_true": list(yt), "y_pred": list(yp), **got} if len(chk.samples) < 3 else None)
        if not (np.array_equal(a, a0) and np.array_equal(b, b0)):
            chk.fail("a metric modified its arguments", {"y_true": yt, "y_pred": yp}, {"fn": "metrics", "clause": "inputs"})
        ref = {"recall": ref_macro(yt, yp, "recall"), "precision": ref_macro(yt, yp, "precision"), "f1": ref_macro(yt, yp, "f1"),
               "accuracy": sum(1 for x, y in zip(yt, yp) if x == y) / len(yt)}
        for k in fns:
            if not C.close(got[k], ref[k], 1e-12, 1e-12):
                chk.fail(f"{k}_score differs from its textbook definition", {"y_true": list(yt), "y_pred": list(yp), "got": got[k], "reference": ref[k]}, {"fn": k})
        n = len(set(yt))
        refc = [[sum(1 for x, y in zip(yt, yp) if x == i and y == j) for j in range(n)] for i in range(n)]
        if conf.tolist() != refc:
            chk.fail("confusion_matrix differs from its definition", {"y_true": list(yt), "y_pred": list(yp), "got": conf.tolist(), "reference": refc}, {"fn": "confusion"})
        if SK is not None and len(chk.distinct) % 37 == 0:
            sk = {"recall": SK.recall_score(yt, yp, average="macro", zero_division=0),
                  "precision": SK.precision_score(yt, yp, average="macro", zero_division=0),
                  "f1": SK.f1_score(yt, yp, average="macro", zero_division=0)}
            for k, v in sk.items():
                if not C.close(got[k], float(v), 1e-12, 1e-12):
                    chk.fail(f"{k}_score differs from scikit-learn's macro average", {"y_true": list(yt), "y_pred": list(yp), "got": got[k], "sklearn": float(v)}, {"fn": k})
        if send:
            for k in fns:
                add({"op": k, "yt": list(yt), "yp": list(yp)}, (k, {"y_true": list(yt), "y_pred": list(yp)}, got[k]))
            add({"op": "confusion", "yt": list(yt), "yp": list(yp)}, ("confusion", {"y_true": list(yt), "y_pred": list(yp)}, conf.tolist()))

    for n in range(1, nmax + 1):
        for c in (1, 2, 3):
            for yt in itertools.product(range(c), repeat=n):
                if len(set(yt)) != c:
                    continue
                for yp in itertools.product(range(c), repeat=n):
                    one(list(yt), list(yp), send=(n <= 4 or tier == "thorough" or rng.random() < 0.15))
    for _ in range(100 if tier == "quick" else 1000):
        c = rng.randint(2, 6)
        n = rng.randint(c, 40)
        yt = list(range(c)) + [rng.randrange(c) for _ in range(n - c)]
        rng.shuffle(yt)
        yp = [rng.randrange(c) for _ in range(n)]
        one(yt, yp)
    # batch variants = rows
    for _ in range(30):
        c = rng.randint(2, 4)
        n = rng.randint(c, 12)
        yt = list(range(c)) + [rng.randrange(c) for _ in range(n - c)]
        rows = [[rng.randrange(c) for _ in range(n)] for _ in range(rng.randint(1, 5))]
        a = np.array(yt, dtype=np.int64)
        R = np.array(rows, dtype=np.int64)
        for k in fns:
            b = fns2d[k](a, R)
            s = [float(fns[k](a, np.array(r, dtype=np.int64))) for r in rows]
            chk.count("batch_" + k)
            if [float(x) for x in b] != s:
                chk.fail(f"{k}_score2d is not the row-wise application of {k}_score", {"y_true": yt, "rows": rows, "batch": [float(x) for x in b], "rowwise": s}, {"fn": k + "2d"})

    # regression metrics
    def reg_case(yt, yp):
        a, b = np.array(yt, dtype=np.float64), np.array(yp, dtype=np.float64)
        rm = float(M.root_mean_square_error(a, b))
        r2 = float(M.coefficient_determination(a, b))
        chk.case(("reg", tuple(yt), tuple(yp)))
        ref_rm = math.sqrt(sum((x - y) ** 2 for x, y in zip(yt, yp)) / len(yt))
        mean = sum(yt) / len(yt)
        tot = sum((x - mean) ** 2 for x in yt)
        res = sum((x - y) ** 2 for x, y in zip(yt, yp))
        ref_r2 = 1 - res / (tot if tot != 0 else 1e-10)
        if not C.close(rm, ref_rm, 1e-12, 1e-12):
            chk.fail("root_mean_square_error differs from its definition", {"y_true": yt, "y_pred": yp, "got": rm, "reference": ref_rm}, {"fn": "rmse"})
        if not C.close(r2, ref_r2, 1e-9, 1e-9):
            chk.fail("coefficient_determination differs from its definition", {"y_true": yt, "y_pred": yp, "got": r2, "reference": ref_r2}, {"fn": "r2"})
        add({"op": "mse", "yt": [C.rat(v) for v in yt], "yp": [C.rat(v) for v in yp]}, ("mse", {"y_true": yt, "y_pred": yp}, rm * rm))
        if tot > 1e-6 or tot == 0:
            add({"op": "r2", "yt": [C.rat(v) for v in yt], "yp": [C.rat(v) for v in yp]}, ("r2", {"y_true": yt, "y_pred": yp}, r2))

    for _ in range(150 if tier == "quick" else 1500):
        n = rng.randint(1, 12)
        kind = rng.randrange(4)
        yt = [float(rng.randint(-8, 8)) / 4 for _ in range(n)]
        if kind == 0:
            yt = [yt[0]] * n          # constant targets
        yp = list(yt) if kind == 1 else [float(rng.randint(-8, 8)) / 4 for _ in range(n)]   # perfect predictions
        reg_case(yt, yp)
    # constant targets whose value is not exactly representable (the float mean may be 1 ulp off),
    # and targets with a large mean relative to their spread
    for c in (0.1, 0.2, 0.7, 3.3, 123.456, 1e-3):
        for n in (3, 6, 7, 10):
            yt = [c] * n
            yp = [c + 0.5 * ((-1) ** i) for i in range(n)]
            a, b = np.array(yt), np.array(yp)
            r2 = float(M.coefficient_determination(a, b))
            ref = 1 - sum((x - y) ** 2 for x, y in zip(yt, yp)) / 1e-10
            chk.case(("r2const", c, n))
            if not C.close(r2, ref, 1e-6, 1e-6):
                chk.fail("coefficient_determination on constant targets is not the documented value (1e-10 substitute for a zero total sum of squares)",
                         {"y_true": yt, "y_pred": yp, "got": r2, "reference": ref}, {"fn": "r2", "constant_target": True})
            # the batch variant on the same degenerate targets: row-wise application of the scalar version
            R2 = np.array([yp, [c] * n, [c + 1.0] * n])
            chk.count("batch_r2_2d_constant")
            got2 = [float(x) for x in M.coefficient_determination2d(a, R2)]
            want2 = [float(M.coefficient_determination(a, np.array(r))) for r in R2]
            if not all(C.close(g_, w_, 1e-9, 1e-9) for g_, w_ in zip(got2, want2)):
                chk.fail("r2_2d is not the row-wise application of its scalar version", {"y_true": yt, "rows": R2.tolist(), "batch": got2, "rowwise": want2},
                         {"fn": "r2_2d", "constant_target": True})
    for off in (1e3, 1e6, 1e8):
        yt = [off + v for v in (0.0, 1.0, 2.5, -1.5, 0.25, 3.0)]
        yp = [v + 0.25 for v in yt]
        r2 = float(M.coefficient_determination(np.array(yt), np.array(yp)))
        m_ = sum(yt) / len(yt)
        ref = 1 - sum((x - y) ** 2 for x, y in zip(yt, yp)) / sum((x - m_) ** 2 for x in yt)
        chk.case(("r2offset", off))
        if not C.close(r2, ref, 1e-9, 1e-9):
            chk.fail("coefficient_determination differs from its definition on targets with a large mean", {"y_true": yt, "got": r2, "reference": ref}, {"fn": "r2", "large_mean": True})
    for _ in range(20):
        n = rng.randint(2, 8)
        yt = [rng.uniform(-3, 3) for _ in range(n)]
        rows = [[rng.uniform(-3, 3) for _ in range(n)] for _ in range(3)]
        a, R = np.array(yt), np.array(rows)
        for f2, f1, nm in ((M.root_mean_square_error2d, M.root_mean_square_error, "rmse2d"), (M.coefficient_determination2d, M.coefficient_determination, "r2_2d")):
            chk.count("batch_" + nm)
            if [float(x) for x in f2(a, R)] != [float(f1(a, np.array(r))) for r in rows]:
                chk.fail(f"{nm} is not the row-wise application of its scalar version", {"y_true": yt, "rows": rows}, {"fn": nm})

    # categorical cross-entropy: exact 0 and 1 entries; reference with output clipping only,
    # tolerance = the documented gap from clipping the targets as well
    gap_max = 0.0
    for _ in range(60 if tier == "quick" else 600):
        n, c = rng.randint(1, 6), rng.randint(2, 4)
        T = np.zeros((n, c))
        for i in range(n):
            T[i, rng.randrange(c)] = 1.0
        O = np.array([[rng.choice([0.0, 1.0, rng.random()]) for _ in range(c)] for _ in range(n)])
        O = O / np.maximum(O.sum(axis=1, keepdims=True), 1e-300)
        got = float(M.categorical_crossentropy(T, O))
        eps = 1e-7
        ref_code = float(np.mean(np.sum(-np.clip(T, eps, 1 - eps) * np.log(np.clip(O, eps, 1 - eps)), axis=1)))
        ref_text = float(np.mean(np.sum(-T * np.log(np.clip(O, eps, 1 - eps)), axis=1)))
        chk.case(("cce", n, c, round(got, 9)))
        gap_max = max(gap_max, abs(got - ref_text))
        bound = c * eps * abs(math.log(eps)) * 1.0001 + 1e-12
        if not C.close(got, ref_code, 1e-12, 1e-12):
            chk.fail("categorical_crossentropy differs from the clipped definition it documents", {"target": T.tolist(), "output": O.tolist(), "got": got, "reference": ref_code}, {"fn": "cce"})
        if abs(got - ref_text) > bound:
            chk.fail("categorical_crossentropy is further from the textbook (output-clipped) value than target clipping explains",
                     {"target": T.tolist(), "output": O.tolist(), "got": got, "textbook": ref_text, "bound": bound}, {"fn": "cce"})
        O3 = np.array([O, O[::-1].copy()]) if n > 0 else None
        b = M.categorical_crossentropy3d(T, O3)
        if [float(x) for x in b] != [float(M.categorical_crossentropy(T, O3[0])), float(M.categorical_crossentropy(T, O3[1]))]:
            chk.fail("categorical_crossentropy3d is not the row-wise application", {"target": T.tolist()}, {"fn": "cce3d"})
    chk.distribution["cce_max_gap_to_textbook"] = gap_max

    # ---- the TRANSLATED accuracy_score (TFV/Generated/Src/Metrics_accuracy_score.lean, read through TFV.Model.Np) evaluated by Lean
    #      against the real function on the same label vectors
    import subprocess
    acases = []
    for _ in range(30 if tier == "quick" else 200):
        n_ = rng.randint(1, 9)
        acases.append(([rng.randint(0, 3) for _ in range(n_)], [rng.randint(0, 3) for _ in range(n_)]))
    alines = ["import TFV.Generated.Src.Metrics_accuracy_score", "open TFV TFV.Generated.Src",
              "def showR : Option Rat → String | none => \"none\" | some q => toString q.num ++ \"/\" ++ toString q.den"]
    for a_, b_ in acases:
        alines.append("#eval IO.println (showR (Metrics_accuracy_score %s %s))" % (a_, b_))
    mcases = []
    for _ in range(20 if tier == "quick" else 150):
        n_ = rng.randint(1, 7)
        mcases.append(([rng.randint(-8, 8) / 4 for _ in range(n_)], [rng.randint(-8, 8) / 4 for _ in range(n_)]))
    alines.insert(0, "import TFV.Generated.Src.Metrics_mse")
    qlist = lambda v: "[" + ", ".join("(%d : Rat) / 4" % int(round(x * 4)) for x in v) + "]"   # noqa: E731
    for a_, b_ in mcases:
        alines.append("#eval IO.println (showR (Metrics_mse %s %s))" % (qlist(a_), qlist(b_)))
    rcases_ = []
    for _ in range(20 if tier == "quick" else 150):
        n_ = rng.randint(1, 7)
        yt_ = [rng.randint(-8, 8) / 4 for _ in range(n_)] if rng.random() < 0.8 else [rng.randint(-8, 8) / 4] * n_     # every fifth: a constant target
        rcases_.append((yt_, [rng.randint(-8, 8) / 4 for _ in range(n_)]))
    alines.insert(0, "import TFV.Generated.Src.Metrics_r2")
    for a_, b_ in rcases_:
        alines.append("#eval IO.println (showR (Metrics_r2 %s %s))" % (qlist(a_), qlist(b_)))
    aaudit = C.LEAN / "TFV" / "Audit" / "C19_np.lean"
    aaudit.parent.mkdir(parents=True, exist_ok=True)
    aaudit.write_text("\n".join(alines) + "\n")
    with C.LeanLock():
        apr = subprocess.run(["lake", "env", "lean", str(aaudit.relative_to(C.LEAN))], cwd=C.LEAN, capture_output=True, text=True, timeout=900)
    agot = [l.strip() for l in apr.stdout.splitlines() if l.strip()]
    chk.obligation("the translated accuracy_score, mean squared error and coefficient_determination evaluate (lake env lean TFV/Audit/C19_np.lean)", apr.returncode == 0 and len(agot) == len(acases) + len(mcases) + len(rcases_),
                   (apr.stdout + apr.stderr)[-600:])
    if apr.returncode == 0 and len(agot) == len(acases) + len(mcases) + len(rcases_):
        for (a_, b_), g in zip(rcases_, agot[len(acases) + len(mcases):]):
            real = float(M.coefficient_determination(np.array(a_, dtype=np.float64), np.array(b_, dtype=np.float64)))
            val = None if g == "none" else int(g.split("/")[0]) / int(g.split("/")[1])
            chk.count("np_kernel_r2" + ("_constant_target" if len(set(a_)) == 1 else ""))
            (chk.agree("np_kernel:r2") if val is not None and C.close(real, val, 1e-6, 1e-9) else
             chk.disagree("np_kernel:r2", {"input": {"y_true": a_, "y_predict": b_}, "impl": real, "model": g}))
        for (a_, b_), g in zip(mcases, agot[len(acases):]):
            real = float(M.root_mean_square_error(np.array(a_, dtype=np.float64), np.array(b_, dtype=np.float64))) ** 2
            val = None if g == "none" else int(g.split("/")[0]) / int(g.split("/")[1])
            chk.count("np_kernel_mse")
            (chk.agree("np_kernel:mse") if val is not None and C.close(real, val, 1e-9, 1e-12) else
             chk.disagree("np_kernel:mse", {"input": {"y_true": a_, "y_predict": b_}, "impl_rmse_squared": real, "model": g}))
        for (a_, b_), g in zip(acases, agot):
            real = float(M.accuracy_score(np.array(a_, dtype=np.int64), np.array(b_, dtype=np.int64)))
            val = None if g == "none" else int(g.split("/")[0]) / int(g.split("/")[1])
            chk.count("np_kernel_accuracy")
            (chk.agree("np_kernel:accuracy") if val is not None and C.close(real, val, 1e-12, 1e-12) else
             chk.disagree("np_kernel:accuracy", {"input": {"y_true": a_, "y_predict": b_}, "impl": real, "model": g}))

    try:
        outs = C.lean_driver([json.dumps(o) for o in ops])
    except Exception as e:
        chk.obligation("driver run", False, str(e))
        outs = []
    for o, (kind, inp, impl) in zip(outs, ctx):
        if "error" in o:
            chk.disagree(kind, {"input": inp, "impl": impl, "model_error": o["error"]})
            continue
        m = o["ok"]
        if kind == "confusion":
            ok = m == impl
        else:
            ok = C.close(impl, C.frac(m), 1e-9 if kind in ("r2", "mse") else 1e-12, 1e-12)
        (chk.agree(kind) if ok else chk.disagree(kind, {"input": inp, "impl": impl, "model": m}))
    chk.notes.append(f"all admissible label-vector pairs up to length {nmax} over 1-3 classes; random longer ones; regression vectors incl. constant targets and perfect predictions; probability matrices with exact 0/1 entries")
    chk.assumptions.append("admissible inputs only: classes 0..c-1 all present in y_true, predictions among them (others index out of the kernels' arrays)")
    return chk.finish()


def replay(path: str) -> int:
    return main("quick")
