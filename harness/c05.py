"""C05 — minimising f is exactly maximising -f.

Paired runs (minimization=True, f, optimal v) / (minimization=False, -f, optimal -v) with the same
seed for all ten optimizers, compared generation by generation (populations, normalised fitness,
record, counters, adaptation state, stop generation); both traces are also replayed through the
model, whose theorem C05_dual says the two normalised trajectories coincide for every oracle.
"""
from __future__ import annotations

import json

import numpy as np

import common as C
import ea_trace as T


class Neg:
    """-f as a separate objective"""
    def __init__(self, f):
        self.f = f

    def __call__(self, x):
        return -np.asarray(self.f(x), dtype=np.float64)


def paired_cfgs(tier, seed):
    out = []
    for cn in T.ALL:
        base = {"pop_size": 8 if cn not in T.GP else 7, "iters": 8 if cn not in T.GP else 5}
        objs = ["asym", "plateau", "negative"] + (["huge", "ties", "onemax" if cn not in T.FLOAT else "sphere"] if tier == "thorough" else [])
        for j, o in enumerate(objs):
            out.append((cn, dict(base, objective=o, elitism=(j % 2 == 0), seed=seed * 50 + j, g2p=(j == 2))))
        # failed evaluations (infinite objective values) with operators that read the scaled fitness
        if cn == "GeneticAlgorithm":
            out.append((cn, dict(base, objective="fail_hi", selection="proportional", crossover="uniform_prop_2", elitism=False, seed=seed * 50 + 31)))
            out.append((cn, dict(base, objective="fail_hi", selection="tournament_3", crossover="uniform_tour_3", elitism=True, seed=seed * 50 + 32)))
            out.append((cn, dict(base, objective="inf", selection="proportional", crossover="one_point", elitism=False, seed=seed * 50 + 34)))
        if cn in ("SelfCGA", "PDPGA", "GeneticProgramming"):
            out.append((cn, dict(base, objective="fail_hi", elitism=False, seed=seed * 50 + 33)))
        if cn not in T.GP:
            # an objective that hands back a view of the array it was given
            out.append((cn, dict(base, objective="view", elitism=True, seed=seed * 50 + 30)))
        # stopping: optimal_value v / -v with an error margin, and stagnation
        if cn in T.BINARY:
            out.append((cn, dict(base, objective="onemax", optimal_value=2.0, termination_error_value=2.0, iters=15, seed=seed * 50 + 20)))
        elif cn in T.FLOAT:
            out.append((cn, dict(base, objective="sphere", optimal_value=0.0, termination_error_value=1.5, iters=25, seed=seed * 50 + 20)))
        else:
            out.append((cn, dict(base, objective="plateau", optimal_value=1.0, termination_error_value=1.0, iters=10, seed=seed * 50 + 20)))
        out.append((cn, dict(base, objective="plateau", no_increase_num=2, iters=12, seed=seed * 50 + 21)))
        # "otherwise identical arguments": every entry of the operator pools of the plain (not self-configuring) optimizers
        if cn in ("DifferentialEvolution", "jDE"):
            for j, m in enumerate(("best_1", "rand_1", "current_to_best_1", "rand_to_best1", "best_2", "rand_2")):
                out.append((cn, dict(base, objective="asym", mutation=m, elitism=(j % 2 == 0), iters=5, seed=seed * 50 + 40 + j)))
        if cn in ("GeneticAlgorithm", "GeneticProgramming"):
            pools = pool_names(cn)
            for j in range(max(len(v) for v in pools.values())):
                out.append((cn, dict(base, objective="asym", iters=4, elitism=(j % 2 == 0), seed=seed * 50 + 60 + j,
                                     **{k: v[j % len(v)] for k, v in pools.items()})))
    return out


_POOLS = {}


def pool_names(cn):
    """the names in the selection / crossover / mutation pools of an optimizer class (read from a throw-away instance)"""
    if cn not in _POOLS:
        rec = T.Recorder(cn, {"pop_size": 8, "iters": 2, "objective": "asym"})
        opt = T.build(cn, rec.cfg, rec)[0]
        pop = 8
        mine = (lambda k: k.startswith("gp_")) if cn in T.GP else (lambda k: not k.startswith("gp_"))   # the pools are shared tables
        _POOLS[cn] = {"selection": [k for k, v in opt._selection_pool.items() if not (k.startswith("tournament") and int(v[1]) > pop - 1)],
                      "crossover": [k for k, v in opt._crossover_pool.items() if mine(k) and int(v[1]) <= pop - 1],
                      "mutation": [k for k in opt._mutation_pool.keys() if mine(k)]}
    return _POOLS[cn]


def adaptation_state(rec):
    st = rec.final["stats"]
    out = {}
    for k in ("H_F", "H_CR", "H_MR", "F", "CR", "s_proba", "c_proba", "m_proba"):
        if k in st:
            out[k] = [T.key_of(np.asarray(list(v.values())) if isinstance(v, dict) else v) for v in st[k]]
    return out


def main(tier: str) -> int:
    chk = C.Check("C05", tier)
    chk.lean()
    import ea_trace
    pairs = []
    for cn, cfg in paired_cfgs(tier, chk.seed):
        a_cfg = dict(cfg, minimization=True)
        b_cfg = dict(cfg, minimization=False)
        if "optimal_value" in cfg:
            b_cfg["optimal_value"] = -cfg["optimal_value"]
        # run B maximises -f: patch the objective factories for the duration of the build
        ra = T.record(cn, a_cfg)
        saved = (ea_trace.obj_binary, ea_trace.obj_float, ea_trace.obj_tree)
        try:
            ea_trace.obj_binary = lambda n, _f=saved[0]: Neg(_f(n))
            ea_trace.obj_float = lambda n, _f=saved[1]: Neg(_f(n))
            ea_trace.obj_tree = lambda n, _f=saved[2]: Neg(_f(n))
            rb = T.record(cn, b_cfg)
        finally:
            ea_trace.obj_binary, ea_trace.obj_float, ea_trace.obj_tree = saved
        pairs.append((cn, cfg, ra, rb))
    # model replay of both traces
    lines = []
    for _, _, ra, rb in pairs:
        lines += [json.dumps(T.driver_op(ra)), json.dumps(T.driver_op(rb))]
    try:
        outs = C.lean_driver(lines)
    except C.DriverError as e:
        chk.obligation("driver run", False, str(e))
        outs = [{"error": "driver"}] * len(lines)
    for i, (cn, cfg, ra, rb) in enumerate(pairs):
        d = {"optimizer": cn, **{k: v for k, v in cfg.items()}}
        chk.case((cn, tuple(sorted((k, str(v)) for k, v in cfg.items()))), sample=d if len(chk.samples) < 4 else None)
        chk.count(cn)
        oa, ob = outs[2 * i], outs[2 * i + 1]
        for r, o, tag in ((ra, oa, "min"), (rb, ob, "max")):
            if "error" in o:
                chk.disagree("trace:" + cn, {"run": d, "side": tag, "error": o["error"]})
            else:
                df = T.compare(r, o["ok"])
                (chk.disagree("trace:" + cn, {"run": d, "side": tag, "diffs": df[:2]}) if df else chk.agree("trace:" + cn))
        if "ok" in oa and "ok" in ob:
            # the model's normalised trajectories of the two runs must coincide (ids are per-run,
            # so compare the id-free parts)
            ma = [(s["best_fit"], s["no_upd"], s["calls"], s["stop"], [p[2] for p in s["pop"]]) for s in oa["ok"]]
            mb = [(s["best_fit"], s["no_upd"], s["calls"], s["stop"], [p[2] for p in s["pop"]]) for s in ob["ok"]]
            (chk.agree("model-dual") if ma == mb else chk.disagree("model-dual", {"run": d}))
        # S4: the implementation's own observations
        feats = {"optimizer": cn, "clause": "dual"}
        if len(ra.snaps) != len(rb.snaps):
            chk.fail("minimising f and maximising -f stop at different generations", {"run": d, "generations": [len(ra.snaps), len(rb.snaps)]},
                     {"optimizer": cn, "clause": "stop"})
            continue
        bad = None
        for k, (sa, sb) in enumerate(zip(ra.snaps, rb.snaps)):
            ka = [T.key_of(x) for x in sa["raw_pop_g"]]
            kb = [T.key_of(x) for x in sb["raw_pop_g"]]
            if ka != kb:
                bad = ("populations differ", k)
            elif [float(v) for v in sa["raw_fit"]] != [float(v) for v in sb["raw_fit"]]:
                bad = ("normalised fitness differs", k)
            elif T.key_of(sa["raw_best"][0]) != T.key_of(sb["raw_best"][0]) or T.key_of(sa["raw_best"][1]) != T.key_of(sb["raw_best"][1]) or sa["raw_best"][2] != sb["raw_best"][2]:
                bad = ("best-so-far differs", k)
            elif sa["no_upd"] != sb["no_upd"] or sa["calls"] != sb["calls"]:
                bad = ("counters differ", k)
            if bad:
                break
        if bad is None and adaptation_state(ra) != adaptation_state(rb):
            bad = ("adaptation state (probabilities / memories / F / CR) differs", -1)
        if bad:
            chk.fail("minimising f and maximising -f visit different trajectories: " + bad[0], {"run": d, "generation": bad[1]}, feats)
    # ---- the parallel evaluation path applies the sign too: pairs with n_jobs = 2
    import c16_workers as W
    from thefittest.optimizers import DifferentialEvolution, GeneticAlgorithm, SHAGA
    W.DELAYS = 0
    for cls, kw, f, nf in ((DifferentialEvolution, dict(iters=5, pop_size=8, left_border=-2.0, right_border=2.0, num_variables=3), W.sphere_delayed, W.neg_sphere_delayed),
                           (GeneticAlgorithm, dict(iters=5, pop_size=9, str_len=12), W.onemax_delayed, W.neg_onemax_delayed),
                           (SHAGA, dict(iters=4, pop_size=7, str_len=10), W.onemax_delayed, W.neg_onemax_delayed)):
        res = []
        for mn, fn in ((True, f), (False, nf)):
            o = cls(fitness_function=fn, minimization=mn, n_jobs=2, keep_history=True, random_state=chk.seed + 9, **kw)
            o.fit()
            st = o.get_stats()
            res.append(([np.asarray(p, dtype=np.float64).tolist() for p in st["population_g"]], [list(map(float, x)) for x in st["fitness"]], float(o.get_fittest()["fitness"])))
        chk.count("parallel_pair_" + cls.__name__)
        chk.case(("parallel_pair", cls.__name__))
        if res[0] != res[1]:
            chk.fail("minimising f and maximising -f visit different trajectories when evaluated with n_jobs = 2",
                     {"optimizer": cls.__name__, "n_jobs": 2, "best": [res[0][2], res[1][2]]}, {"optimizer": cls.__name__, "clause": "dual_parallel"})
    chk.notes.append("pairs (min f, v) / (max -f, -v), same seed, 10 optimizers x objectives with asymmetric ranges / plateaus / negative values (+ huge, ties in thorough) x elitism x g2p + optimal_value/error and stagnation stops; compared at every generation incl. adaptation state")
    return chk.finish()


def replay(path: str) -> int:
    return main("quick")
