"""C13 — every network genotype decodes to a valid feed-forward network.

S3: genotype_to_phenotype_tree and BaseMLPEA._defitne_net against TFV.Model.Net (canonicalised
edge multisets, layers, activations), exhaustively over all trees up to a size bound over the
network universal set; the implementation's evaluation schedule against the model's `getOrder` and
the decidable certificates `validNet` / `validSchedule`.
S4: an independent validity oracle on the decoded net (unique acyclic connections, layer order,
coverage, reachability, weights, activations, finite forward output of the right shape);
trained weights have one entry per connection within [-10, 10].
"""
from __future__ import annotations

import itertools
import json
import random as pyrandom

import numpy as np

import common as C
import netlib as NL


def bin_shapes(n_internal):
    """all binary tree shapes with n internal nodes as prefix arity lists"""
    if n_internal == 0:
        return [[0]]
    out = []
    for left in range(n_internal):
        for a in bin_shapes(left):
            for b in bin_shapes(n_internal - 1 - left):
                out.append([2] + a + b)
    return out


def validity_oracle(net, n_vars):
    """independent check of the C13 clauses; returns a list of violated clause names"""
    bad = []
    conns = [(int(a), int(b)) for a, b in net._connects]
    inputs = {int(i) for i in net._inputs}
    layers = [{int(i) for i in l} for l in net._hidden_layers]
    hidden = set().union(*layers) if layers else set()
    outputs = {int(i) for i in net._outputs}
    if len(set(conns)) != len(conns):
        bad.append("unique")
    layer = {i: 0 for i in inputs}
    for j, l in enumerate(layers):
        for h in l:
            layer[h] = j + 1
    for o in outputs:
        layer[o] = len(layers) + 1
    if any(s not in inputs | hidden or t not in hidden | outputs for s, t in conns):
        bad.append("endpoints")
    elif any(layer[s] >= layer[t] for s, t in conns):
        bad.append("layer_order")
    if any(not any(t == x for _, t in conns) for x in hidden | outputs):
        bad.append("incoming")
    # every hidden node reaches an output
    succ = {}
    for s, t in conns:
        succ.setdefault(s, set()).add(t)
    for h in hidden:
        seen, todo = set(), [h]
        while todo:
            x = todo.pop()
            for y in succ.get(x, ()):
                if y not in seen:
                    seen.add(y)
                    todo.append(y)
        if not (seen & outputs):
            bad.append("reaches_output")
            break
    if len(net._weights) != len(conns):
        bad.append("one_weight_per_connection")
    if any(x not in net._activs for x in hidden | outputs):
        bad.append("activation")
    if inputs & (hidden | outputs) or hidden & outputs or not inputs <= set(range(n_vars)):
        bad.append("disjoint")
    # outputs share one source set (so the softmax is joint)
    srcs = [frozenset(s for s, t in conns if t == o) for o in outputs]
    if len(set(srcs)) > 1:
        bad.append("outputs_share_sources")
    return bad


def main(tier: str) -> int:
    chk = C.Check("C13", tier)
    chk.lean()
    from thefittest.base import Tree
    from thefittest.base._tree import init_net_uniset
    from thefittest.base._gpnn import genotype_to_phenotype_tree
    from thefittest.utils.random import numba_seed
    from thefittest.regressors import MLPEARegressor
    from thefittest.classifiers import MLPEAClassifier
    from thefittest.base._mlp import train_net_weights, fitness_function_weights
    import thefittest.optimizers as O
    rng = pyrandom.Random(chk.seed)
    numba_seed(chk.seed + 1)
    ops, ctx = [], []

    def add(op, c):
        ops.append(op)
        ctx.append(c)

    # ---- exhaustive trees over the net universal set
    settings = [(3, 1, 3, True, 1), (4, 2, 5, False, 3), (5, 3, 9, True, 3), (2, 1, 2, False, 1)]
    max_internal = 3 if tier == "quick" else 4
    n_trees = 0
    for nv, ibs, mh, off, nout in settings:
        us = init_net_uniset(nv, ibs, mh, off)
        fplus = [f for f in us._functional_set[2] if f._name == "add"][0]
        fgt = [f for f in us._functional_set[2] if f._name == "gt"][0]
        in_terms = [t for t in us._terminal_set if type(t).__name__ == "TerminalNode"]
        eph = [t for t in us._terminal_set if type(t).__name__ == "EphemeralNode"][0]
        out_act = "softmax" if nout > 1 else "ln"
        X = np.array([[0.3 * (i + 1) * ((-1) ** j) for j in range(nv)] for i in range(3)])
        if off:
            X[:, -1] = 1.0
        for ni in range(0, max_internal + 1):
            for shape in bin_shapes(ni):
                n_leaves = sum(1 for a in shape if a == 0)
                term_choices = list(range(len(in_terms) + 1))   # last = hidden block
                leaf_assigns = list(itertools.product(term_choices, repeat=n_leaves))
                op_assigns = list(itertools.product((0, 1), repeat=ni))
                combos = [(o, l) for o in op_assigns for l in leaf_assigns]
                cap = 120 if tier == "quick" else 1500
                if len(combos) > cap:
                    combos = rng.sample(combos, cap)
                for oa, la in combos:
                    nodes, oi, li = [], 0, 0
                    for a in shape:
                        if a == 2:
                            nodes.append(fgt if oa[oi] else fplus)
                            oi += 1
                        else:
                            c = la[li]
                            li += 1
                            nodes.append(in_terms[c] if c < len(in_terms) else eph())
                    tree = Tree(nodes)
                    n_trees += 1
                    d = {"tree": str(tree), "n_variables": nv, "input_block_size": ibs, "max_hidden_block_size": mh, "offset": off, "n_outputs": nout}
                    try:
                        net = genotype_to_phenotype_tree(tree, nv, nout, out_act, off)
                    except Exception as e:
                        chk.fail("decoding a tree over the network universal set raises", {**d, "error": repr(e)[:200]}, {"fn": "decode", "clause": "raises"})
                        continue
                    chk.case(("decode", nv, str(tree), nout), sample={**d, "connections": len(net._connects)} if n_trees in (3, 50, 400) else None)
                    chk.count("trees_%d_internal" % ni)
                    bad = validity_oracle(net, nv)
                    if bad:
                        chk.fail("a decoded net violates a validity clause: " + ", ".join(bad), {**d, "net": NL.net_json(net)}, {"fn": "decode", "clause": bad[0]})
                    try:
                        out = net.forward(X)
                        if out.shape != (1, len(X), nout) or not np.all(np.isfinite(out)):
                            chk.fail("forward of a decoded net is not finite of shape (1, samples, n_outputs)", {**d, "shape": list(out.shape)}, {"fn": "decode", "clause": "forward"})
                        # legal extremes: un-scaled features and every weight at the optimisers' border
                        if n_trees % 3 == 0 and len(net._connects):
                            ext = net.copy()
                            ext._weights = np.full(len(net._connects), 10.0 if n_trees % 2 else -10.0)
                            oe = ext.forward(np.abs(X) * 60.0)
                            chk.count("forward_extreme")
                            if oe.shape != (1, len(X), nout) or not np.all(np.isfinite(oe)):
                                chk.fail("forward of a decoded net is not finite for un-scaled features and weights on the border of [-10, 10]",
                                         {**d, "weights": float(ext._weights[0]), "x_scale": 60.0}, {"fn": "decode", "clause": "forward"})
                        sched = NL.sched_json(net)
                        fa = NL.sched_activation_faults(net)
                        if fa:
                            chk.fail("a decoded net violates a validity clause: the program its forward pass runs applies to a node another activation than the net carries for it",
                                     {**d, **fa[0], "net": NL.net_json(net)}, {"fn": "decode", "clause": "activation_applied"})
                    except Exception as e:
                        chk.fail("forward of a decoded net raises / does not terminate", {**d, "error": repr(e)[:200]}, {"fn": "decode", "clause": "forward"})
                        sched = None
                    add({"op": "net_decode", "tree": NL.tree_syms(tree), "n_vars": nv, "n_out": nout, "out_act": 5 if nout > 1 else 4},
                        ("decode", d, (NL.canon_net(NL.net_json(net)), sched)))

    # ---- random deeper trees
    for nv, ibs, mh, off, nout in settings:
        us = init_net_uniset(nv, ibs, mh, off)
        for _ in range(40 if tier == "quick" else 400):
            tree = Tree.random_tree(us, rng.randint(2, 6))
            d = {"tree": str(tree), "n_variables": nv, "input_block_size": ibs, "max_hidden_block_size": mh, "offset": off, "n_outputs": nout}
            net = genotype_to_phenotype_tree(tree, nv, nout, "softmax" if nout > 1 else "ln", off)
            chk.count("random_trees")
            chk.case(("decode", nv, str(tree), nout))
            bad = validity_oracle(net, nv)
            if bad:
                chk.fail("a decoded net violates a validity clause: " + ", ".join(bad), {**d, "net": NL.net_json(net)}, {"fn": "decode", "clause": bad[0]})
            X = np.ones((2, nv))
            net.forward(X)
            fa = NL.sched_activation_faults(net)
            if fa:
                chk.fail("a decoded net violates a validity clause: the program its forward pass runs applies to a node another activation than the net carries for it",
                         {**d, **fa[0], "net": NL.net_json(net)}, {"fn": "decode", "clause": "activation_applied"})
            add({"op": "net_decode", "tree": NL.tree_syms(tree), "n_vars": nv, "n_out": nout, "out_act": 5 if nout > 1 else 4},
                ("decode", d, (NL.canon_net(NL.net_json(net)), NL.sched_json(net))))

    # ---- MLP builder: all hidden tuples up to 3 layers x up to 4 units (incl. none)
    tuples = [()] + [t for n in (1, 2, 3) for t in itertools.product(range(1, 5 if tier == "thorough" else 4), repeat=n)]
    # "all hidden_layers tuples": entries of 0 (the classifiers' default is (0,)) are layers without nodes - the others are wired in order
    tuples += [(0,), (0, 3), (3, 0), (3, 0, 2), (0, 0, 2), (2, 0, 0), (0, 2, 0, 1)]
    for hl in tuples:
        for off in (True, False):
            # the output activation follows the KIND of estimator, whatever the number of outputs (1 class, several targets)
            for cls, nout, oact in ((MLPEARegressor, 1, 4), (MLPEAClassifier, 3, 5)) + (((MLPEAClassifier, 1, 5), (MLPEARegressor, 2, 4), (MLPEAClassifier, 2, 5)) if len(hl) <= 1 else ()):
                est = cls(n_iter=2, pop_size=4, hidden_layers=hl, offset=off, activation="tanh")
                nin = 3 + (1 if off else 0)
                net = est._defitne_net(nin, nout)
                d = {"estimator": cls.__name__, "hidden_layers": list(hl), "offset": off, "n_inputs": nin, "n_outputs": nout}
                chk.count("mlp_builder")
                chk.case(("mlp", cls.__name__, hl, off, nout))
                # S4: the layered architecture as an edge SET
                conns = {(int(a), int(b)) for a, b in net._connects}
                layers = [list(range(nin))]
                e = nin
                for s_ in hl:
                    if s_ > 0:
                        layers.append(list(range(e, e + s_)))
                    e += s_
                layers.append(list(range(e, e + nout)))
                exp = {(a, b) for l1, l2 in zip(layers, layers[1:]) for a in l1 for b in l2}
                if off:
                    exp |= {(nin - 1, b) for l in layers[1:] for b in l}
                if conns != exp:
                    chk.fail("the MLP builder does not yield the requested layered architecture",
                             {**d, "missing": sorted(exp - conns)[:6], "extra": sorted(conns - exp)[:6]}, {"fn": "mlp_builder", "no_hidden_offset": (hl == () and off)})
                acts_out = {int(net._activs.get(o, -1)) for o in layers[-1]}        # -1: the node does not exist in the net
                acts_hid = {int(net._activs.get(h, -1)) for l in layers[1:-1] for h in l}
                if acts_out != {oact} or (acts_hid and acts_hid != {3}):
                    chk.fail("the MLP builder assigns the wrong activations (softmax outputs for classifiers, linear for regressors)", {**d, "out": sorted(acts_out), "hidden": sorted(acts_hid)},
                             {"fn": "mlp_builder", "clause": "activations"})
                if len(net._weights) != len(net._connects):
                    chk.fail("the MLP builder does not carry one weight per connection", d, {"fn": "mlp_builder", "clause": "weights"})
                add({"op": "net_define", "offset": off, "act": 3, "out_act": oact, "n_in": nin, "n_out": nout, "hidden_layers": list(hl)},
                    ("define", d, (NL.canon_net(NL.net_json(net)), None)))

    # ---- trained weights: one entry per connection within [-10, 10], every weight optimizer
    Xtr = np.array([[0.1, 0.9, 1.0], [0.8, 0.2, 1.0], [0.5, 0.5, 1.0], [0.3, 0.7, 1.0]])
    ytr = np.array([0.2, 0.9, 0.5, 0.4])
    est = MLPEARegressor(n_iter=3, pop_size=6, hidden_layers=(2,), offset=True)
    base_net = est._defitne_net(3, 1)
    for wo in (O.SHADE, O.DifferentialEvolution, O.jDE, O.SHAGA, O.GeneticAlgorithm, O.SelfCGA):
        for seed in range(2 if tier == "quick" else 6):
            numba_seed(chk.seed * 10 + seed)
            w, stats = train_net_weights(base_net, Xtr, ytr, {"iters": 6, "pop_size": 8}, wo, fitness_function_weights, "regression")
            chk.count("train_" + wo.__name__)
            chk.case(("train", wo.__name__, seed))
            w = np.asarray(w, dtype=np.float64)
            if w.shape != (len(base_net._connects),) or np.any(w < -10 - 1e-9) or np.any(w > 10 + 1e-9) or not np.all(np.isfinite(w)):
                chk.fail("trained weights are not one finite entry per connection within [-10, 10]",
                         {"weights_optimizer": wo.__name__, "seed": chk.seed * 10 + seed, "shape": list(w.shape), "min": float(np.min(w)), "max": float(np.max(w))},
                         {"fn": "train_net_weights", "optimizer": wo.__name__})

    # the GP network ESTIMATORS, "all offset settings": every net decoded during a fit (recorded history of the structure
    # optimizer) and the fitted net are valid nets over the columns of the training matrix
    import estim as E0_
    from thefittest.regressors import GeneticProgrammingNeuralNetRegressor as _GPNNR
    from thefittest.classifiers import GeneticProgrammingNeuralNetClassifier as _GPNNC
    E0_.install_validate_data()
    Xg0, yg0 = E0_.data_regression(n=10, d=3, seed=chk.seed + 4)
    Xg1, yg1 = E0_.data_classification(n=12, d=3, labels=("a", "b", "c"), seed=chk.seed + 4)
    for cls0, (Xd0, yd0) in ((_GPNNR, (Xg0, yg0)), (_GPNNC, (Xg1, yg1))):
        for off0 in (True, False):
            try:
                est0 = cls0(n_iter=3, pop_size=8, offset=off0, input_block_size=1, optimizer_args={"keep_history": True, "selections": ("rank", "tournament_3")},
                            weights_optimizer_args={"iters": 2, "pop_size": 4}, random_state=chk.seed + 9)
                est0.fit(Xd0, yd0)
            except Exception as e:  # noqa
                chk.fail("fitting a GP network estimator raises", {"estimator": cls0.__name__, "offset": off0, "error": repr(e)[:200]}, {"fn": "gpnn_fit", "clause": "raises"})
                continue
            ncols = Xd0.shape[1] + (1 if off0 else 0)
            nets0 = [est0.get_net()] + [n_ for gen in est0.optimizer_stats_.get("population_ph", []) for n_ in gen]
            chk.count("gpnn_estimator_nets", len(nets0))
            chk.case(("gpnn_estimator", cls0.__name__, off0))
            for n_ in nets0:
                bad0 = validity_oracle(n_, ncols)
                if bad0 or any(int(i) >= ncols for i in n_._inputs):
                    chk.fail("a decoded net violates a validity clause: " + ", ".join(bad0 or ["inputs are columns of X"]),
                             {"estimator": cls0.__name__, "offset": off0, "columns_of_the_training_matrix": ncols, "net": NL.net_json(n_)}, {"fn": "gpnn_fit", "clause": (bad0 or ["inputs"])[0]})
                    break
    # the SAME estimator instance re-fitted after set_params: the fitted net is the architecture requested NOW
    import estim as E_
    E_.install_validate_data()
    Xf, yf = E_.data_regression(n=10, d=3, seed=chk.seed)
    Xc_, yc_ = E_.data_classification(n=12, d=3, labels=("a", "b", "c"), seed=chk.seed)
    for cls_, (Xd, yd), nout_ in ((MLPEARegressor, (Xf, yf), 1), (MLPEAClassifier, (Xc_, yc_), 3)):
        est_ = cls_(n_iter=2, pop_size=4, hidden_layers=(3,), activation="sigma", offset=True, random_state=chk.seed + 2)
        for step, (hl_, act_) in enumerate((((3,), "sigma"), ((2, 2), "sigma"), ((2, 2), "relu"), ((), "relu"), ((4,), "tanh"))):
            est_.set_params(hidden_layers=hl_, activation=act_)
            est_.fit(Xd, yd)
            net_ = est_.get_net()
            ref_ = cls_(n_iter=2, pop_size=4, hidden_layers=hl_, activation=act_, offset=True)._defitne_net(4, nout_)
            chk.count("mlp_refit")
            chk.case(("mlp_refit", cls_.__name__, step))
            ca, cb = NL.canon_net(NL.net_json(net_)), NL.canon_net(NL.net_json(ref_))
            same_arch = ca["conns"] == cb["conns"] and ca["hidden"] == cb["hidden"] and ca["outputs"] == cb["outputs"]
            same_act = ca["activs"] == cb["activs"]
            if not (same_arch and same_act):
                chk.fail("after a re-fit the fitted net is not the layered architecture / activation requested by the current parameters",
                         {"estimator": cls_.__name__, "fit_number": step + 1, "hidden_layers": list(hl_), "activation": act_,
                          "connections_fitted": len(net_._connects), "connections_requested": len(ref_._connects)}, {"fn": "mlp_builder", "clause": "refit"})
                break
    # non-default settings of the real-coded weight optimizers (two-difference strategies, large F): the repaired trial
    # vectors, hence the trained weights, still lie in [-10, 10]; a net with a relu block rewards large weights of either sign
    est_r = MLPEARegressor(n_iter=3, pop_size=6, hidden_layers=(3,), offset=True, activation="relu")
    net_r = est_r._defitne_net(3, 1)
    Xr2 = np.array([[0.1, 0.9, 1.0], [0.8, 0.2, 1.0], [0.5, 0.5, 1.0], [0.3, 0.7, 1.0], [0.9, 0.9, 1.0]])
    yr2 = np.array([5.0, -40.0, 30.0, -7.0, 60.0])
    for wo, extra in ((O.DifferentialEvolution, {"mutation": "rand_2", "F": 0.9, "CR": 0.3}), (O.DifferentialEvolution, {"mutation": "rand_1", "F": 1.5, "CR": 0.9}),
                      (O.DifferentialEvolution, {"mutation": "best_2", "F": 1.2, "CR": 0.5}), (O.jDE, {"mutation": "rand_2"}), (O.SHADE, {})):
        for seed in range(2 if tier == "quick" else 6):
            numba_seed(chk.seed * 10 + 40 + seed)
            w, _ = train_net_weights(net_r, Xr2, yr2, {"iters": 25, "pop_size": 12, **extra}, wo, fitness_function_weights, "regression")
            w = np.asarray(w, dtype=np.float64)
            chk.count("train_nondefault_" + wo.__name__)
            chk.case(("train_nd", wo.__name__, json.dumps(extra, sort_keys=True), seed))
            if w.shape != (len(net_r._connects),) or np.any(w < -10 - 1e-9) or np.any(w > 10 + 1e-9) or not np.all(np.isfinite(w)):
                chk.fail("trained weights are not one finite entry per connection within [-10, 10]",
                         {"weights_optimizer": wo.__name__, "weights_optimizer_args": extra, "seed": chk.seed * 10 + 40 + seed, "shape": list(w.shape),
                          "min": float(np.min(w)), "max": float(np.max(w))}, {"fn": "train_net_weights", "optimizer": wo.__name__, "clause": "nondefault"})
                break
    # the structure optimizer's own genotype_to_phenotype (decode AND train), called several times in one process with different
    # settings on trees that print the same: every returned net carries one weight per connection and evaluates
    from thefittest.base._gpnn import genotype_to_phenotype as g2p_train
    for call, (nv_, ibs_, nout_, off_, task_) in enumerate(((3, 1, 1, True, "regression"), (3, 1, 3, True, "classification"), (4, 2, 2, False, "classification"),
                                                             (3, 1, 1, False, "regression"))):
        us_ = init_net_uniset(nv_, ibs_, 3, off_)
        numba_seed(chk.seed + 60)        # the same random trees (same strings) in every call
        trees_ = [Tree.random_tree(us_, d_) for d_ in (1, 1, 2, 2, 3)]
        Xg = np.random.RandomState(call).uniform(-1, 1, size=(6, nv_))
        yg = np.random.RandomState(call).uniform(0, 1, size=6) if task_ == "regression" else np.eye(nout_)[np.arange(6) % nout_]
        try:
            nets_ = g2p_train(np.array(trees_, dtype=object), nout_, Xg, yg, {"iters": 2, "pop_size": 4}, O.SHADE,
                              "softmax" if task_ == "classification" else "ln", off_, task_)
        except Exception as e:  # noqa
            chk.fail("decoding and training a population of net trees raises", {"call": call, "n_variables": nv_, "n_outputs": nout_, "offset": off_, "error": repr(e)[:200]},
                     {"fn": "g2p_train", "clause": "raises"})
            continue
        for tr_, nt_ in zip(trees_, nets_):
            chk.count("g2p_train")
            chk.case(("g2p_train", call, str(tr_)))
            okw = len(nt_._weights) == len(nt_._connects) and np.all(np.abs(np.asarray(nt_._weights, dtype=np.float64)) <= 10 + 1e-9)
            try:
                outg = nt_.forward(Xg)
                okf = outg.shape == (1, len(Xg), nout_) and np.all(np.isfinite(outg))
            except Exception as e:  # noqa
                okf = False
            if not (okw and okf):
                chk.fail("a trained net does not carry exactly one weight per connection within [-10, 10] (or cannot be evaluated)",
                         {"call_in_this_process": call + 1, "tree": str(tr_), "n_variables": nv_, "n_outputs": nout_, "offset": off_,
                          "connections": len(nt_._connects), "weights": len(nt_._weights)}, {"fn": "g2p_train", "clause": "weights"})
                break
    try:
        outs = C.lean_driver([json.dumps(o) for o in ops])
    except Exception as e:
        chk.obligation("driver run", False, str(e))
        outs = []
    for o, (kind, inp, (impl_net, sched)) in zip(outs, ctx):
        if "error" in o or o.get("ok") is None:
            chk.disagree(kind, {"input": inp, "model_error": o.get("error", "model returned none")})
            continue
        m = o["ok"]
        mnet = NL.canon_net(m["net"])
        ok = (mnet == impl_net)
        if kind == "decode":
            ok = ok and m["valid"]
        if ok and sched is not None:
            # the implementation's schedule as a set of (sources, targets) groups equals the model's
            mo = m.get("order")
            a = sorted((tuple(g["srcs"]), tuple(sorted(g["dsts"]))) for g in sched)
            b = sorted((tuple(g["srcs"]), tuple(sorted(g["dsts"]))) for g in (mo or []))
            ok = mo is not None and a == b
        if ok:
            chk.agree(kind)
        else:
            chk.disagree(kind, {"input": inp, "impl": {k: (v if k != "conns" else [list(x) for x in v]) for k, v in impl_net.items()},
                                "model": {k: (v if k != "conns" else [list(x) for x in v]) for k, v in mnet.items()}, "model_valid": m.get("valid")})
    chk.notes.append(f"all trees with <= {max_internal} operators over the net universal set (leaf/operator assignments exhaustive up to a per-shape cap, sampled beyond) for 4 parameter settings; random deeper trees; MLP builder for all hidden tuples <= 3 layers; 6 weight optimizers")
    return chk.finish()


def replay(path: str) -> int:
    return main("quick")
