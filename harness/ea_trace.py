"""Trace recording and model replay for whole optimizer runs (C01, C02, C03, C05, C17; reused by
C04, C14, C15).  Everything is observed from outside: a wrapper around the user's fitness function
and genotype_to_phenotype, an instance-level wrapper around `_from_population_g_to_fitness` (the
end-of-generation state of EVERY generation, including the first), `on_generation`, get_stats().
"""
from __future__ import annotations

import copy
import json
import math

import numpy as np

import common as C

GREEDY = {"DifferentialEvolution", "jDE", "SHADE", "SHAGA"}
GP = {"GeneticProgramming", "SelfCGP", "PDPGP"}
BINARY = {"GeneticAlgorithm", "SelfCGA", "PDPGA", "SHAGA"}
FLOAT = {"DifferentialEvolution", "jDE", "SHADE"}
ALL = ["GeneticAlgorithm", "SelfCGA", "PDPGA", "SHAGA", "DifferentialEvolution", "jDE", "SHADE",
       "GeneticProgramming", "SelfCGP", "PDPGP"]


def key_of(x):
    """canonical content key of a genotype / phenotype"""
    from thefittest.base import Tree
    if isinstance(x, Tree):
        return ("T", tuple(n._name for n in x._nodes), tuple(int(a) for a in x._n_args))
    a = np.asarray(x)
    if a.dtype == object:
        return ("O", tuple(key_of(e) for e in a.ravel()))
    return ("A", tuple(("nan" if v != v else float(v)) for v in a.ravel()))


class Ids:
    def __init__(self):
        self.m = {}
        self.items = []

    def id(self, x):
        k = key_of(x)
        if k not in self.m:
            self.m[k] = len(self.items)
            self.items.append(x.copy() if hasattr(x, "copy") else x)
        return self.m[k]


# ----------------------------------------------------------------------------- objectives
def obj_binary(name):
    def onemax(x):
        return np.sum(np.asarray(x, dtype=np.float64), axis=1)
    if name == "onemax":
        return onemax
    if name == "plateau":
        return lambda x: np.floor(onemax(x) / 3.0)
    if name == "ties":
        return lambda x: np.full(len(x), 2.5)
    if name == "negative":
        return lambda x: onemax(x) - 100.0
    if name == "huge":
        return lambda x: onemax(x) * 1e300
    if name == "asym":   # asymmetric range: raw-value uses would show under the min/max duality
        return lambda x: onemax(x) ** 2 - 3.0 * onemax(x) + 7.0
    if name == "offset":  # improvements that are tiny RELATIVE to the values (1 in 1e12)
        return lambda x: onemax(x) + 1e12
    if name == "offset6":  # integer-valued, differences of 1 in 1e6 (within numpy.isclose's default tolerance)
        return lambda x: onemax(x) + 1e6
    if name == "int":     # an INTEGER array, as numpy's sum over a bit string gives by default
        return lambda x: np.sum(np.asarray(x).astype(np.int64), axis=1)
    if name == "view":    # returns a VIEW of its argument (the first locus): the caller's array must not be written to
        return lambda x: x[:, 0] if isinstance(x, np.ndarray) else np.asarray(x)[:, 0]
    if name == "zero":    # the best value is exactly 0 (an error count that reaches 0), reached early and easily lost again
        return lambda x: -np.abs(onemax(x) - 3.0)
    if name == "fail_hi":  # failed evaluations reported as +inf (the worst value when minimising)
        return lambda x: np.where(onemax(x) >= 6, np.inf, onemax(x))
    if name == "fail_lo":  # failed evaluations reported as -inf (the worst value when maximising): many of them at the start
        return lambda x: np.where(np.asarray(x, dtype=np.float64)[:, 0] + np.asarray(x, dtype=np.float64)[:, 1] >= 2, -np.inf, onemax(x))
    if name == "inf":     # the best values are infinite (1/error with error 0, log(0)): +inf above, -inf below
        return lambda x: np.where(onemax(x) >= 7, np.inf, np.where(onemax(x) <= 2, -np.inf, onemax(x)))
    raise KeyError(name)


def obj_float(name):
    def sphere(x):
        return np.sum(np.asarray(x, dtype=np.float64) ** 2, axis=1)
    if name == "sphere":
        return sphere
    if name == "plateau":
        return lambda x: np.floor(sphere(x))
    if name == "ties":
        return lambda x: np.full(len(x), -1.0)
    if name == "negative":
        return lambda x: -sphere(x) - 5.0
    if name == "huge":
        return lambda x: sphere(x) * 1e300
    if name == "asym":
        return lambda x: np.sum(np.asarray(x, dtype=np.float64), axis=1) * 3.0 + 11.0
    if name == "offset":
        return lambda x: np.round(sphere(x) * 8.0) / 8.0 + 1e12
    if name == "zero":
        return lambda x: -np.floor(sphere(x) / 4.0)
    if name == "fail_hi":
        return lambda x: np.where(sphere(x) >= 6.0, np.inf, sphere(x))
    if name == "fail_lo":
        return lambda x: np.where(np.asarray(x, dtype=np.float64)[:, 0] > 1.5, -np.inf, -sphere(x))
    if name == "fail_nan":  # failed evaluations reported as NaN (a trial rated NaN is never accepted); the first batch - the initial
        calls = [0]         # population - is rated throughout (a record cannot be started from NaN ratings)
        def fail_nan(x):
            calls[0] += 1
            return -sphere(x) if calls[0] == 1 else np.where(np.asarray(x, dtype=np.float64)[:, 0] > 1.0, np.nan, -sphere(x))
        return fail_nan
    if name == "inf":
        return lambda x: np.where(sphere(x) >= 9.0, np.inf, np.where(sphere(x) <= 1.5, -np.inf, sphere(x)))
    if name == "view":    # returns a VIEW of its argument (the first coordinate)
        return lambda x: x[:, 0] if isinstance(x, np.ndarray) else np.asarray(x)[:, 0]
    if name == "tiny":    # an objective in very small units: every improvement is far below 1e-8
        return lambda x: sphere(x) * 1e-12
    raise KeyError(name)


def obj_tree(name):
    def size(trees):
        return np.array([float(len(t)) for t in trees])
    def own_depth(t):
        # computed here from the recorded arities, not through the library (the objective must not
        # depend on library state)
        depth, stack = 0, [(1, 0)]
        for a in t._n_args:
            c, lv = stack.pop()
            depth = max(depth, lv)
            if c > 1:
                stack.append((c - 1, lv))
            if a > 0:
                stack.append((int(a), lv + 1))
        return float(depth)
    if name in ("onemax", "sphere"):
        return lambda trees: -np.abs(size(trees) - 9.0) + 0.125 * np.array([own_depth(t) for t in trees])
    if name == "plateau":
        return lambda trees: np.floor(size(trees) / 4.0)
    if name == "ties":
        return lambda trees: np.full(len(trees), 1.0)
    if name == "negative":
        return lambda trees: -size(trees) - 50.0
    if name == "huge":
        return lambda trees: size(trees) * 1e300
    if name == "asym":
        return lambda trees: size(trees) ** 2 - 5.0 * size(trees)
    if name == "offset":
        return lambda trees: size(trees) + 1e12
    if name == "offset6":
        return lambda trees: size(trees) + 1e6
    if name == "int":     # an INTEGER array (a count)
        return lambda trees: np.array([len(t) for t in trees], dtype=np.int64)
    if name == "zero":
        return lambda trees: -np.abs(size(trees) - 5.0)
    if name == "fail_hi":
        return lambda trees: np.where(size(trees) >= 9, np.inf, size(trees))
    if name == "inf":
        return lambda trees: np.where(size(trees) >= 11, np.inf, np.where(size(trees) <= 2, -np.inf, size(trees)))
    raise KeyError(name)


def g2p_half(x):
    """many-to-one genotype_to_phenotype on binary strings / float vectors: keep the first half"""
    a = np.asarray(x, dtype=np.float64)
    return a[:, : max(1, a.shape[1] // 2)].copy()


def g2p_same(x):
    """a non-identity genotype_to_phenotype that keeps the row shape (binary: complement; float: affine)"""
    a = np.asarray(x, dtype=np.float64)
    if np.isin(a, (0.0, 1.0)).all():
        return 1.0 - a
    return a * 0.5 - 0.25


def g2p_scalar(x):
    """a genotype_to_phenotype with ONE number per individual (a 1-D phenotype population)"""
    return np.sum(np.asarray(x, dtype=np.float64), axis=1)


_UNISET = None


def uniset():
    global _UNISET
    if _UNISET is None:
        from thefittest.base._tree import init_symbolic_regression_uniset
        X = np.array([[0.5, 1.0], [1.5, -1.0], [2.0, 0.25]])
        _UNISET = init_symbolic_regression_uniset(X, ("add", "mul", "cos"))
    return _UNISET


# ----------------------------------------------------------------------------- one recorded run
class Recorder:
    def __init__(self, cls_name, cfg):
        self.cls_name, self.cfg = cls_name, cfg
        self.calls = []        # (ph_batch_keys, values) per fitness call; raw objects kept for re-evaluation
        self.g_batches = []    # genotype batches handed to g2p (or to the fitness function when no g2p)
        self.snaps = []        # end-of-generation snapshots
        self.callbacks = []    # generation index at each on_generation call
        self.gids, self.pids = Ids(), Ids()
        self.g2p_table = {}
        self.obj_table = {}
        self.inconsistent = []
        self.batch_sizes = []

    # wrappers -----------------------------------------------------------
    def wrap_fitness(self, f):
        def wrapped(ph, **kw):
            vals = np.asarray(f(ph), dtype=np.int64 if self.cfg.get("objective") == "int" else np.float64)   # "int": the library gets an integer array
            self.batch_sizes.append(len(ph))
            pk = [self.pids.id(p) for p in ph]
            for p, v in zip(pk, vals):
                v = float(v)
                if p in self.obj_table and self.obj_table[p] != v:
                    self.inconsistent.append(("obj", p))
                self.obj_table[p] = v
            self.calls.append((pk, [float(v) for v in vals]))
            if self.cfg.get("buffered"):
                # an objective that reuses its output buffer between calls (legitimate user behaviour)
                if getattr(self, "_buf", None) is None or len(self._buf) != len(vals):
                    self._buf = np.empty(len(vals), dtype=np.float64)
                self._buf[:] = vals
                vals = self._buf
            if self.g2p_user is None:
                gk = [self.gids.id(p) for p in ph]
                self.g_batches.append(gk)
                for g, p in zip(gk, pk):
                    self.g2p_table[g] = p
            return vals
        return wrapped

    def wrap_g2p(self, g2p):
        def wrapped(g, **kw):
            ph = g2p(g)
            gk = [self.gids.id(x) for x in g]
            pk = [self.pids.id(x) for x in ph]
            self.g_batches.append(gk)
            for a, b in zip(gk, pk):
                if a in self.g2p_table and self.g2p_table[a] != b:
                    self.inconsistent.append(("g2p", a))
                self.g2p_table[a] = b
            return ph
        return wrapped

    def snapshot(self, opt):
        tf = opt._thefittest
        st = opt.get_stats()
        n_stats = len(st["fitness"]) if "fitness" in st else 0
        last = None
        if n_stats:
            last = {k: copy.deepcopy(st[k][-1]) for k in st.keys()}
        self.snaps.append({
            "pop_g": [self.gids.id(x) for x in opt._population_g_i],
            "pop_ph": [self.pids.id(x) for x in opt._population_ph_i],
            "fit": [float(v) for v in opt._fitness_i],
            "best_g": self.gids.id(tf._genotype), "best_ph": self.pids.id(tf._phenotype),
            "best_fit": float(tf._fitness), "no_upd": int(tf._no_update_counter),
            "calls": int(opt._calls), "remains": int(opt.get_remains_calls()),
            "n_stats": n_stats, "last_stat": last,
            "evaluated_so_far": sum(self.batch_sizes),
            "shares": bool(_shares(tf._genotype, opt._population_g_i) or _shares(tf._phenotype, opt._population_ph_i)),
            "n_callbacks": len(self.callbacks),
            "raw_pop_g": copy.deepcopy(opt._population_g_i), "raw_fit": opt._fitness_i.copy(),
            "raw_best": (copy.deepcopy(tf._genotype), copy.deepcopy(tf._phenotype), float(tf._fitness)),
        })


def _shares(a, b):
    try:
        if isinstance(a, np.ndarray) and isinstance(b, np.ndarray) and a.dtype != object and b.dtype != object:
            return np.shares_memory(a, b)
    except Exception:
        pass
    return False


def build(cls_name, cfg, rec: Recorder):
    """construct the optimizer with the recording wrappers; returns (optimizer, kwargs used)"""
    import thefittest.optimizers as O
    cls = getattr(O, cls_name)
    pop, iters = cfg["pop_size"], cfg["iters"]
    objname = cfg["objective"]
    if cls_name in GP:
        f = obj_tree(objname)
    elif cls_name in FLOAT:
        f = obj_float(objname)
    else:
        f = obj_binary(objname)
    g2p = None
    if cfg.get("g2p"):
        if cls_name in GP:
            g2p = lambda trees: np.array([t.copy() for t in trees], dtype=object)  # noqa: E731
        else:
            g2p = g2p_same if cfg.get("g2p") == "same" else g2p_scalar if cfg.get("g2p") == "scalar" else g2p_half
            if cfg.get("g2p") == "scalar":
                f0 = f
                f = lambda ph: f0(np.asarray(ph, dtype=np.float64).reshape(len(ph), -1))  # noqa: E731
    rec.g2p_user = g2p
    flag = (lambda b: np.bool_(b)) if cfg.get("np_flags") else (lambda b: b)
    kw = dict(fitness_function=rec.wrap_fitness(f), iters=iters, pop_size=pop,
              elitism=flag(cfg.get("elitism", True)), minimization=flag(cfg.get("minimization", False)),
              keep_history=cfg.get("keep_history", True), random_state=cfg.get("seed", 0),
              optimal_value=cfg.get("optimal_value"),
              no_increase_num=cfg.get("no_increase_num"), n_jobs=1)
    if "termination_error_value" in cfg:      # otherwise the class's own default applies (documented: 0)
        kw["termination_error_value"] = cfg["termination_error_value"]
    if g2p is not None:
        kw["genotype_to_phenotype"] = rec.wrap_g2p(g2p)
    rec.cb_obs = []        # what a user's callback sees: (individuals evaluated so far, reported best fitness)

    def _on_generation(o):
        rec.callbacks.append(len(rec.snaps))
        got = o.get_fittest()
        rec.cb_obs.append((sum(rec.batch_sizes), float(got["fitness"])))
        if cfg.get("scribble"):
            # a callback that post-processes the record it was handed (legitimate: the record is the caller's copy)
            got["fitness"] = -1234.5
            for key in ("genotype", "phenotype"):
                v = got[key]
                if isinstance(v, np.ndarray) and v.dtype != object:
                    v[...] = v.dtype.type(1) if v.dtype.kind in "iub" else -777.25
                elif hasattr(v, "_nodes"):
                    v._nodes.reverse()
    kw["on_generation"] = _on_generation
    if cls_name in BINARY:
        kw["str_len"] = cfg.get("str_len", 10)
    if cls_name in FLOAT:
        kw.update(left_border=cfg.get("left", -2.0), right_border=cfg.get("right", 3.0), num_variables=cfg.get("num_variables", 3))
    if cls_name in GP:
        kw.update(uniset=uniset(), max_level=cfg.get("max_level", 5), init_level=4)
    for k in ("selection", "crossover", "mutation", "selections", "crossovers", "mutations", "F", "CR", "K",
              "tour_size", "parents_num", "mutation_rate", "selection_threshold_proba", "crossover_threshold_proba",
              "mutation_threshold_proba", "F_min", "F_max", "t_F", "t_CR"):
        if k in cfg:
            kw[k] = cfg[k]
    if cfg.get("init_population") is not None:
        kw["init_population"] = cfg["init_population"]
    opt = cls(**kw)
    orig = opt._from_population_g_to_fitness

    def wrapped():
        orig()
        rec.snapshot(opt)
    opt._from_population_g_to_fitness = wrapped
    orig_stats = opt._update_stats
    rec.stat_updates = []      # deep copies taken at the moment a value is handed to the statistics

    def wrapped_stats(**kwargs):
        snap = copy.deepcopy(kwargs)
        orig_stats(**kwargs)
        if cfg.get("keep_history", True):
            rec.stat_updates.append(snap)
    opt._update_stats = wrapped_stats
    return opt, kw


def make_init_outside(cls_name, cfg, seed):
    """a float init_population with some coordinates outside the box (DE family)"""
    pop = make_init(cls_name, cfg, seed)
    pop = np.array(pop, dtype=np.float64)
    pop[::2, 0] = cfg.get("right", 3.0) + 1.25
    pop[1::3, -1] = cfg.get("left", -2.0) - 0.75
    return pop


def make_init(cls_name, cfg, seed):
    """a caller-owned initial population (distinct from what the optimizer would draw)"""
    from thefittest.utils.random import numba_seed
    import thefittest.optimizers as O
    numba_seed(10_000 + seed)
    pop = cfg["pop_size"]
    if cls_name in BINARY:
        return O.GeneticAlgorithm.binary_string_population(pop, cfg.get("str_len", 10))
    if cls_name in FLOAT:
        return O.DifferentialEvolution.float_population(pop, cfg.get("left", -2.0), cfg.get("right", 3.0), cfg.get("num_variables", 3))
    return O.GeneticProgramming.half_and_half(pop, uniset(), 4)


def record(cls_name, cfg, between=None):
    rec = Recorder(cls_name, cfg)
    opt, kw = build(cls_name, cfg, rec)
    if between is not None:
        between()       # whatever happens between constructing an optimizer and starting its run
    opt.fit()
    rec.opt, rec.kw = opt, kw
    rec.final = {
        "fittest": opt.get_fittest(), "remains": int(opt.get_remains_calls()), "calls": int(opt._calls),
        "stats": opt.get_stats(), "aim": float(opt._aim), "sign": int(opt._sign),
    }
    return rec


def driver_op(rec: Recorder) -> dict:
    """the ea_run line for this recorded run"""
    cfg = rec.cfg
    ng, np_ = len(rec.gids.items), len(rec.pids.items)
    g2p = [rec.g2p_table.get(g, 0) for g in range(ng)]
    obj = [C.float_key(rec.obj_table.get(p, 0.0)) for p in range(np_)]
    aim = rec.final["aim"]
    return {
        "op": "ea_run", "iters": cfg["iters"], "pop_size": cfg["pop_size"], "elitism": bool(cfg.get("elitism", True)),
        "minimization": bool(cfg.get("minimization", False)), "keep_history": bool(cfg.get("keep_history", True)),
        "floor": C.float_key(-math.inf), "aim": C.float_key(aim),   # no optimal_value: aim = +inf, reached only by an infinite fitness
        "no_inc": cfg.get("no_increase_num"), "g2p": g2p, "obj": obj,
        "flavour": "greedy" if rec.cls_name in GREEDY else "gen",
        "init": rec.g_batches[0], "batches": rec.g_batches[1:],
    }


def compare(rec: Recorder, model: list) -> list:
    """differences between the model trajectory and the recorded snapshots (empty = agreement)"""
    diffs = []
    if len(model) != len(rec.snaps):
        diffs.append({"what": "number of generations", "impl": len(rec.snaps), "model": len(model)})
    if model and model[-1]["callbacks"] != len(rec.callbacks):
        diffs.append({"what": "total number of on_generation calls", "impl": len(rec.callbacks), "model": model[-1]["callbacks"]})
    for k, (m, s) in enumerate(zip(model, rec.snaps)):
        d = {}
        mpop = m["pop"]
        if [p[0] for p in mpop] != s["pop_g"]:
            d["pop_g"] = ([p[0] for p in mpop], s["pop_g"])
        if [p[1] for p in mpop] != s["pop_ph"]:
            d["pop_ph"] = ([p[1] for p in mpop], s["pop_ph"])
        if [p[2] for p in mpop] != [C.float_key(v) for v in s["fit"]]:
            d["fit"] = ([p[2] for p in mpop], [C.float_key(v) for v in s["fit"]])
        if m["best"] is None or m["best"][0] != s["best_g"] or m["best"][1] != s["best_ph"] or m["best_fit"] != C.float_key(s["best_fit"]):
            d["best"] = (m["best"], [s["best_g"], s["best_ph"], C.float_key(s["best_fit"])])
        if m["no_upd"] != s["no_upd"]:
            d["no_upd"] = (m["no_upd"], s["no_upd"])
        if m["calls"] != s["calls"] or m["calls"] != s["evaluated_so_far"]:
            d["calls"] = (m["calls"], s["calls"], s["evaluated_so_far"])
        if m["remains"] != s["remains"]:
            d["remains"] = (m["remains"], s["remains"])
        if m["stats_len"] != s["n_stats"]:
            d["stats_len"] = (m["stats_len"], s["n_stats"])
        # the snapshot of generation k is taken before on_generation runs for it
        if m["callbacks"] != k or s["n_callbacks"] != max(k - 1, 0):
            d["callbacks"] = (m["callbacks"], s["n_callbacks"])
        last = k == len(rec.snaps) - 1
        # the implementation went on after generation k  <=>  the model's stop flag is false
        if not last and m["stop"]:
            d["stop"] = "model stops here, implementation went on"
        if last and not m["stop"] and len(rec.snaps) < max(rec.cfg["iters"], 1):
            d["stop"] = "implementation stopped here, model would go on"
        if d:
            diffs.append({"generation": k, **{kk: str(v)[:300] for kk, v in d.items()}})
    return diffs


# ----------------------------------------------------------------------------- configurations
def configs(tier: str, seed: int, classes=None, extra_stop=True):
    import random
    rng = random.Random(seed)
    out = []
    classes = classes or ALL
    for cn in classes:
        base = {"pop_size": 8 if cn not in GP else 7, "iters": 7 if cn not in GP else 5}
        objs = ["onemax" if cn not in FLOAT else "sphere", "plateau", "ties", "negative", "huge", "asym", "offset"]
        combos = []
        for i, o in enumerate(objs):
            combos.append(dict(objective=o, elitism=(i % 2 == 0), minimization=(i % 3 == 1), g2p=(i % 4 == 3), init=(i % 3 == 2)))
        # shape-preserving non-identity g2p; an objective that reuses its output buffer (max and min)
        combos.append(dict(objective=objs[0], elitism=True, minimization=False, g2p="same", init=False))
        combos.append(dict(objective="asym", elitism=False, minimization=True, g2p="same", init=True))
        combos.append(dict(objective="plateau", elitism=True, minimization=False, g2p=False, init=False, buffered=True))
        combos.append(dict(objective=objs[0], elitism=False, minimization=True, g2p=False, init=False, buffered=True))
        # exact fitness ties together with a non-identity g2p (a tying trial replaces genotype AND phenotype); infinite best values
        combos.append(dict(objective="plateau", elitism=True, minimization=False, g2p="same", init=False))
        combos.append(dict(objective="ties", elitism=False, minimization=True, g2p="same", init=False))
        combos.append(dict(objective="inf", elitism=True, minimization=False, g2p=False, init=False))
        combos.append(dict(objective="inf", elitism=False, minimization=True, g2p=False, init=False))
        # one number per individual as the phenotype (a 1-D phenotype population)
        if cn not in GP:
            combos.append(dict(objective=objs[0], elitism=True, minimization=False, g2p="scalar", init=False))
            combos.append(dict(objective="asym", elitism=False, minimization=True, g2p="scalar", init=False))
        # an objective that hands back a VIEW of the array it was given (a column of the population / of the phenotypes), minimised
        if cn not in GP:
            combos.append(dict(objective="view", elitism=False, minimization=True, g2p=False, init=True))
            combos.append(dict(objective="view", elitism=True, minimization=True, g2p="same", init=False))
        # a best value of exactly 0 (falsy), with and without elitism
        combos.append(dict(objective="zero", elitism=False, minimization=False, g2p=False, init=False))
        combos.append(dict(objective="zero", elitism=True, minimization=False, g2p=False, init=False))
        if tier == "thorough":
            for o in objs:
                for el in (True, False):
                    for mn in (True, False):
                        combos.append(dict(objective=o, elitism=el, minimization=mn, g2p=rng.random() < 0.3, init=rng.random() < 0.3))
        for j, c in enumerate(combos):
            cfg = dict(base)
            cfg.update(objective=c["objective"], elitism=c["elitism"], minimization=c["minimization"], g2p=c["g2p"],
                       seed=seed * 100 + j, keep_history=True, buffered=bool(c.get("buffered")))
            if c["init"]:
                cfg["init_population"] = "make"
            out.append((cn, cfg))
        if cn in FLOAT:
            out.append((cn, dict(base, objective="sphere", iters=3, seed=seed * 100 + 60, init_population="outside", keep_history=True)))
        # operator / strategy choices other than the defaults
        o0 = "onemax" if cn not in FLOAT else "sphere"
        if cn == "GeneticAlgorithm":
            picks = [("proportional", "one_point", "strong"), ("rank", "two_point", "custom_rate"), ("tournament_k", "uniform_tour_3", "average"),
                     ("tournament_3", "uniform_prop_7", "weak"), ("rank", "empty", "strong"), ("proportional", "uniform_rank_2", "average")]
            for j, (sl, cx, mu) in enumerate(picks if tier == "thorough" else picks[(seed % 2)::2]):
                out.append((cn, dict(base, objective=o0, selection=sl, crossover=cx, mutation=mu, tour_size=3, parents_num=3, mutation_rate=0.2,
                                     elitism=(j % 2 == 0), minimization=(j % 2 == 1), seed=seed * 100 + 70 + j)))
        if cn in ("DifferentialEvolution", "jDE"):
            strs = ["best_1", "rand_1", "current_to_best_1", "rand_to_best1", "best_2", "rand_2"]
            for j, st_ in enumerate(strs if tier == "thorough" else strs[(seed % 2)::2]):
                out.append((cn, dict(base, objective=o0, mutation=st_, elitism=(j % 2 == 1), minimization=(j % 2 == 0), seed=seed * 100 + 80 + j)))
        if cn in ("DifferentialEvolution", "jDE"):
            # the strategies that receive the best-so-far, with the elite slot in use
            for j, st_ in enumerate(("best_2", "rand_to_best1") if seed % 2 == 0 else ("best_1", "current_to_best_1")):
                out.append((cn, dict(base, objective=o0, mutation=st_, elitism=True, minimization=(j % 2 == 1), seed=seed * 100 + 86 + j)))
        # the two flags given as numpy booleans (a value of a boolean configuration array), not the literals True / False
        out.append((cn, dict(base, objective=o0, elitism=True, minimization=True, np_flags=True, seed=seed * 100 + 88)))
        out.append((cn, dict(base, objective="plateau", elitism=True, minimization=False, np_flags=True, seed=seed * 100 + 89)))
        if cn == "GeneticProgramming":
            picks = [("rank", "gp_standard", "gp_weak_grow"), ("tournament_k", "gp_one_point", "gp_strong_shrink"), ("proportional", "gp_uniform_prop_2", "gp_average_swap"),
                     ("tournament_3", "gp_uniform_tour_3", "gp_custom_rate_point"), ("rank", "gp_uniform_rank_7", "gp_weak_point"), ("rank", "gp_empty", "gp_strong_grow")]
            for j, (sl, cx, mu) in enumerate(picks if tier == "thorough" else picks[(seed % 2)::2]):
                out.append((cn, dict(base, objective=o0, selection=sl, crossover=cx, mutation=mu, tour_size=3, parents_num=3, mutation_rate=0.3,
                                     elitism=(j % 2 == 0), seed=seed * 100 + 90 + j)))
        if cn in ("SelfCGA", "PDPGA"):
            out.append((cn, dict(base, objective=o0, selections=("rank", "tournament_3"), crossovers=("empty", "two_point", "uniform_tour_3"), mutations=("weak", "custom_rate"),
                                 mutation_rate=0.15, elitism=False, seed=seed * 100 + 95)))
        if cn in ("SelfCGP", "PDPGP"):
            out.append((cn, dict(base, objective=o0, selections=("rank", "tournament_3"), crossovers=("gp_empty", "gp_one_point", "gp_uniform_2"), mutations=("gp_weak_shrink", "gp_average_swap"),
                                 elitism=False, seed=seed * 100 + 96)))
        if extra_stop:
            # stopping scenarios: target at the first / a middle generation / never; error sides; stagnation; iters = 1
            o = "onemax" if cn not in FLOAT else "sphere"
            out.append((cn, dict(base, objective=o, iters=1, seed=seed * 100 + 50)))
            out.append((cn, dict(base, objective="plateau", no_increase_num=2, iters=12, seed=seed * 100 + 51)))
            out.append((cn, dict(base, objective="ties", no_increase_num=1, iters=6, seed=seed * 100 + 52, elitism=False)))
            out.append((cn, dict(base, objective="ties", no_increase_num=5, iters=4, seed=seed * 100 + 57)))
            # BOTH rules configured: the target is out of reach, stagnation must stop the run
            out.append((cn, dict(base, objective="ties", no_increase_num=2, optimal_value=1e9, termination_error_value=1.0, iters=9, seed=seed * 100 + 58)))
            out.append((cn, dict(base, objective="plateau", no_increase_num=3, optimal_value=-1e9, termination_error_value=0.5, minimization=True, iters=14, seed=seed * 100 + 59)))
            if cn in BINARY:
                out.append((cn, dict(base, objective="onemax", optimal_value=10, termination_error_value=3.0, iters=15, seed=seed * 100 + 53)))
                out.append((cn, dict(base, objective="onemax", optimal_value=0, termination_error_value=4.5, minimization=True, iters=15, seed=seed * 100 + 54)))
                out.append((cn, dict(base, objective="onemax", optimal_value=10, termination_error_value=10.0, iters=9, seed=seed * 100 + 55)))
                out.append((cn, dict(base, objective="onemax", optimal_value=11, iters=5, seed=seed * 100 + 56)))
            elif cn in FLOAT:
                out.append((cn, dict(base, objective="sphere", optimal_value=0.0, termination_error_value=2.0, minimization=True, iters=25, seed=seed * 100 + 53)))
                out.append((cn, dict(base, objective="sphere", optimal_value=27.0, termination_error_value=20.0, iters=15, seed=seed * 100 + 54)))
                out.append((cn, dict(base, objective="sphere", optimal_value=0.0, termination_error_value=100.0, minimization=True, iters=9, seed=seed * 100 + 55)))
                out.append((cn, dict(base, objective="sphere", optimal_value=-1.0, minimization=True, iters=5, seed=seed * 100 + 56)))
                # the tolerance is NOT given (its documented default is 0): a best value within 1e-8 of the target has not reached it
                out.append((cn, dict(base, objective="tiny", optimal_value=0.0, minimization=True, iters=8, seed=seed * 100 + 61)))
            else:
                out.append((cn, dict(base, objective="plateau", optimal_value=2.0, termination_error_value=1.0, iters=10, seed=seed * 100 + 53)))
                out.append((cn, dict(base, objective="negative", optimal_value=-51.0, termination_error_value=6.0, minimization=False, iters=10, seed=seed * 100 + 54)))
                out.append((cn, dict(base, objective="plateau", optimal_value=0.0, termination_error_value=1.5, minimization=True, iters=10, seed=seed * 100 + 55)))
    return out


FAILED_RUNS = []


def run_all(tier: str, seed: int, classes=None, extra_stop=True):
    """record every configured run and replay it through the model; returns [(rec, diffs)]"""
    recs = []
    for cn, cfg in configs(tier, seed, classes, extra_stop):
        cfg = dict(cfg)
        if cfg.get("init_population") in ("make", "outside"):
            cfg["init_population"] = (make_init_outside if cfg["init_population"] == "outside" else make_init)(cn, cfg, cfg["seed"])
            cfg["_init_copy"] = copy.deepcopy(cfg["init_population"])
        try:
            recs.append(record(cn, cfg))
        except Exception as e:   # reported by the caller as a failing input ("the run raises")
            FAILED_RUNS.append((cn, {k: v for k, v in cfg.items() if k not in ("init_population", "_init_copy")}, repr(e)[:300]))
    lines = [json.dumps(driver_op(r)) for r in recs]
    outs = C.lean_driver(lines)
    res = []
    for r, o in zip(recs, outs):
        if "error" in o:
            res.append((r, [{"what": "model error", "error": o["error"]}]))
        else:
            r.model = o["ok"]
            res.append((r, compare(r, o["ok"])))
    return res


def describe(rec: Recorder) -> dict:
    cfg = {k: v for k, v in rec.cfg.items() if k not in ("init_population", "_init_copy")}
    cfg["init_population"] = rec.cfg.get("init_population") is not None
    return {"optimizer": rec.cls_name, **cfg, "generations": len(rec.snaps)}
