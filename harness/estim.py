"""Estimator helpers for C04 / C18: the stand-in for the scikit-learn validation method this
scikit-learn version no longer provides, tiny data sets and estimator factories."""
from __future__ import annotations

import numpy as np


def install_validate_data():
    """`BaseEstimator._validate_data` was removed from scikit-learn; the estimators still call it.
    Harness-side stand-in delegating to `sklearn.utils.validation.validate_data` (not a repo change)."""
    from sklearn.base import BaseEstimator
    if hasattr(BaseEstimator, "_validate_data"):
        return
    from sklearn.utils.validation import validate_data

    def _validate_data(self, X="no_validation", y="no_validation", reset=True, **kw):
        return validate_data(self, X=X, y=y, reset=reset, **kw)
    BaseEstimator._validate_data = _validate_data


def data_regression(n=18, d=2, seed=0):
    rs = np.random.RandomState(seed)
    X = rs.uniform(-1, 1, size=(n, d))
    y = X[:, 0] * 2.0 - X[:, 1] + 0.5
    return X, y


def data_classification(n=24, d=2, labels=("b", "a"), seed=0):
    rs = np.random.RandomState(seed)
    X = rs.uniform(-1, 1, size=(n, d))
    k = len(labels)
    score = X[:, 0] + 0.5 * X[:, 1]
    idx = np.digitize(score, np.quantile(score, [i / k for i in range(1, k)]))
    y = np.array([labels[i] for i in idx])
    # make sure every class occurs
    for i in range(k):
        y[i] = labels[i]
    return X, y


def estimators(seed=0, n_iter=3, pop_size=6):
    """(name, factory, kind) for the six estimators with tiny budgets"""
    from thefittest.classifiers import GeneticProgrammingClassifier, MLPEAClassifier, GeneticProgrammingNeuralNetClassifier
    from thefittest.regressors import GeneticProgrammingRegressor, MLPEARegressor, GeneticProgrammingNeuralNetRegressor
    from thefittest.optimizers import SHADE, SHAGA, GeneticProgramming, SelfCGP, jDE, DifferentialEvolution, SelfCGA, GeneticAlgorithm
    wo = {"iters": 3, "pop_size": 6}
    return [
        ("GPRegressor", lambda **k: GeneticProgrammingRegressor(n_iter=n_iter, pop_size=max(pop_size, 8), random_state=seed, **k), "gp-reg"),
        ("GPClassifier", lambda **k: GeneticProgrammingClassifier(n_iter=n_iter, pop_size=max(pop_size, 8), random_state=seed, **k), "gp-clf"),
        ("MLPEARegressor", lambda **k: MLPEARegressor(n_iter=n_iter, pop_size=pop_size, hidden_layers=(2,), random_state=seed, **k), "mlp-reg"),
        ("MLPEAClassifier", lambda **k: MLPEAClassifier(n_iter=n_iter, pop_size=pop_size, hidden_layers=(2,), random_state=seed, **k), "mlp-clf"),
        ("GPNNRegressor", lambda **k: GeneticProgrammingNeuralNetRegressor(n_iter=2, pop_size=4, random_state=seed, optimizer_args={"selections": ("rank", "tournament_3")}, weights_optimizer_args=dict(wo), **k), "gpnn-reg"),
        ("GPNNClassifier", lambda **k: GeneticProgrammingNeuralNetClassifier(n_iter=2, pop_size=4, random_state=seed, optimizer_args={"selections": ("rank", "tournament_3")}, weights_optimizer_args=dict(wo), **k), "gpnn-clf"),
    ]
