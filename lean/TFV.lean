-- Root of the `TFV` library: models, lemmas, property theorems.
import TFV.Model.EA
