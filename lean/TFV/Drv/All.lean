import TFV.Drv.Core
import TFV.Drv.Net
import TFV.Drv.Ops2
import TFV.Drv.Tree
import TFV.Drv.Bench
import TFV.Drv.Estim
open Lean
namespace Drv
def dispatch (op : String) (j : Json) : R Json := do
  if let some r ← dispatchCore op j then return r
  if let some r ← dispatchNet op j then return r
  if let some r ← dispatchOps2 op j then return r
  if let some r ← dispatchTree op j then return r
  if let some r ← dispatchBench op j then return r
  if let some r ← dispatchEstim op j then return r
  throw s!"unknown op {op}"
end Drv
