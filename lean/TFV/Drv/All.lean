import TFV.Drv.Core
open Lean
namespace Drv
def dispatch (op : String) (j : Json) : R Json := do
  if let some r ← dispatchCore op j then return r
  throw s!"unknown op {op}"
end Drv
