/- Driver operations: BinOps (C06), DE (C07), SelfConf (C14), Adapt (C15). -/
import TFV.Drv.Base
import TFV.Model.BinOps
import TFV.Model.DE
import TFV.Model.SelfConf
import TFV.Model.Adapt
open Lean

namespace Drv

def pairsNat (j : Json) (k : String) : R (List (Nat × Nat)) := do
  listOf (fun p => do
    let a ← p.getArr?
    if a.size ≠ 2 then throw "pair expected"
    return ((← a[0]!.getNat?), (← a[1]!.getNat?))) (← arg j k)

open TFV in
def dispatchOps2 (op : String) (j : Json) : R (Option Json) := do
  match op with
  -- BinOps
  | "x_one_point" => return some (jInts (BinOps.onePoint (← intss j "ps") (← nat j "cut") (← bool j "coin")))
  | "x_two_point" => return some (jInts (BinOps.twoPoint (← intss j "ps") (← nat j "c0") (← nat j "c1") (← bool j "coin")))
  | "x_uniform" => return some (jInts (BinOps.uniformX (← intss j "ps") (← nats j "choice")))
  | "x_uniform_tour" => return some (jInts (BinOps.uniformTour (← intss j "ps") (← ints j "fitness") (← pairsNat j "pairs")))
  | "x_empty" => return some (jInts (BinOps.emptyX (← intss j "ps")))
  | "x_binomial" => return some (jInts (BinOps.binomial (← ints j "x") (← ints j "m") (← bools j "mask") (← nat j "j")))
  | "flip" => return some (jInts (BinOps.flip (← ints j "x") (← bools j "mask")))
  | "flip_mask" => return some (jList Json.bool (BinOps.flipMask (← rats j "us") (← rat j "rate")))
  -- DE
  | "de_donor" => do
      let s ← str j "strategy"
      let st : DE.Strategy ← match s with
        | "best_1" => pure .best1 | "rand_1" => pure .rand1 | "current_to_best_1" => pure .currentToBest1
        | "rand_to_best1" => pure .randToBest1 | "best_2" => pure .best2 | "rand_2" => pure .rand2
        | _ => throw s!"unknown strategy {s}"
      return some (jList jRat (DE.donor st (← rats j "cur") (← rats j "best") (← ratss j "pop") (← rat j "F") (← nats j "r")))
  | "de_pbest_donor" =>
      return some (jList jRat (DE.currentToPbest1 (← rats j "cur") (← ratss j "pop") (← ratss j "arch")
        (← rat j "F") (← nat j "pb") (← nat j "r1") (← nat j "r2")))
  | "de_binomial" => return some (jList jRat (DE.binomial (← rats j "x") (← rats j "m") (← bools j "mask") (← nat j "j")))
  | "de_bounds" => return some (jList jRat (DE.boundsControl (← rats j "x") (← rats j "left") (← rats j "right")))
  | "de_bounds_mean" => return some (jList jRat (DE.boundsControlMean (← rats j "x") (← rats j "parent") (← rats j "left") (← rats j "right")))
  -- SelfConf
  | "sc_new_proba" => return some (jList jRat (SelfConf.newProba (← rats j "p") (← nat j "winner") (← rat j "K") (← nat j "iters") (← rat j "thr")))
  | "sc_fittest" => return some (jNat (SelfConf.fittestOperator (← nat j "n_ops") (← nats j "ops") (← rats j "fit")))
  | "sc_pdp" => return some (jList jRat (SelfConf.pdpProba (← nat j "n") (← nats j "ops") (← bools j "succ") (← rat j "thr")))
  | "sc_draw" => return some (jNats (SelfConf.chooseOperators (← rats j "p") (← rats j "us")))
  -- Adapt
  | "ad_lehmer" => return some (jRat (Adapt.lehmer (← rats j "x") (← rats j "w")))
  | "ad_update_f" => return some (jRat (Adapt.updateF (← rat j "u") (← rats j "S")))
  | "ad_update_cr" => return some (jRat (Adapt.updateCR (← rat j "u") (← rats j "S") (← rats j "df")))
  | "ad_update_u" => return some (jRat (Adapt.updateU (← rat j "u") (← rats j "S") (← rats j "df")))
  | "ad_randc01" => return some (jOpt jRat (Adapt.randc01 (← rats j "draws")))
  | "ad_randc_mr" => return some (jOpt jRat (Adapt.randcMR (← nat j "str_len") (← rats j "draws")))
  | "ad_clamp01" => return some (jRat (Adapt.randn01 (← rat j "v")))
  | _ => return none

end Drv
