/- Driver operations: Net (C12, C13). -/
import TFV.Drv.Base
import TFV.Model.Net
open Lean

namespace Drv
open TFV.Net

def jPairs (l : List (Nat × Nat)) : Json := jList (fun (p : Nat × Nat) => Json.arr #[jNat p.1, jNat p.2]) l

def jNet (n : Net) : Json :=
  Json.mkObj [("inputs", jNats n.inputs), ("hidden", jList jNats n.hidden), ("outputs", jNats n.outputs),
    ("conns", jPairs n.conns),
    ("activs", jPairs (n.nonInputs.map fun t => (t, n.activ t)))]

def pairsOf (j : Json) : R (List (Nat × Nat)) :=
  listOf (fun p => do
    let a ← p.getArr?
    if a.size ≠ 2 then throw "pair expected"
    return ((← a[0]!.getNat?), (← a[1]!.getNat?))) j

def netOf (j : Json) : R Net := do
  return { inputs := ← nats j "inputs", hidden := ← natss j "hidden", outputs := ← nats j "outputs",
           conns := ← pairsOf (← arg j "conns"), activs := ← pairsOf (← arg j "activs") }

def symOf (j : Json) : R NSym := do
  let k ← str j "k"
  match k with
  | "in" => return .inp (← nats j "vars")
  | "h" => return .hid (← nat j "size") (← nat j "activ")
  | "+" => return .plus
  | ">" => return .gtr
  | _ => throw s!"unknown net symbol {k}"

def groupOf (j : Json) : R Group := do
  return { srcs := ← nats j "srcs", dsts := ← nats j "dsts", wids := ← natss j "wids" }

def jGroup (g : Group) : Json :=
  Json.mkObj [("srcs", jNats g.srcs), ("dsts", jNats g.dsts), ("wids", jList jNats g.wids)]

instance : Zero Float := ⟨0.0⟩

def fAct (code : Nat) (x : Float) : Float :=
  match code with
  | 0 => 1.0 / (1.0 + Float.exp (-x))
  | 1 => if x > 0.0 then x else 0.0
  | 2 => Float.exp (-(x * x))
  | 3 => Float.tanh x
  | _ => x

def fSoftmax (l : List Float) : List Float :=
  match l with
  | [] => []
  | x :: xs =>
    let m := xs.foldl (fun a b => if b > a then b else a) x
    let e := l.map fun v => Float.exp (v - m)
    let s := e.foldl (· + ·) 0.0
    let s := if s == 0.0 then 1.0 else s
    e.map (· / s)

def floatOfJson (j : Json) : R Float := do
  -- doubles cross as bit patterns (exact)
  let b ← j.getNat?
  return Float.ofBits b.toUInt64

def jFloat (f : Float) : Json := jNat f.toBits.toNat

def dispatchNet (op : String) (j : Json) : R (Option Json) := do
  match op with
  | "net_decode" => do
      let tree ← listOf symOf (← arg j "tree")
      match decode tree (← nat j "n_vars") (← nat j "n_out") (← nat j "out_act") with
      | some n => return some (Json.mkObj [("net", jNet n), ("valid", Json.bool (validNet n)),
                    ("order", jOpt (jList jGroup) (getOrder n))])
      | none => return some Json.null
  | "net_define" => do
      let n := defineNet (← bool j "offset") (← nat j "act") (← nat j "out_act") (← nat j "n_in")
                 (← nat j "n_out") (← nats j "hidden_layers")
      return some (Json.mkObj [("net", jNet n), ("order", jOpt (jList jGroup) (getOrder n))])
  | "net_check" => do
      let n ← netOf (← arg j "net")
      let sch ← listOf groupOf (← arg j "sched")
      return some (Json.mkObj [("valid_net", Json.bool (validNet n)),
        ("valid_schedule", Json.bool (validSchedule n sch)),
        ("softmax_together", Json.bool (softmaxTogether n sch)),
        ("order", jOpt (jList jGroup) (getOrder n))])
  | "net_forward" => do
      -- Float reference evaluation of the SAME schedule the implementation uses
      let n ← netOf (← arg j "net")
      let sch ← listOf groupOf (← arg j "sched")
      let ws ← listOf (listOf floatOfJson) (← arg j "weights")
      let xs ← listOf (listOf floatOfJson) (← arg j "x")      -- rows of X (one value per input id order)
      let inIds := n.inputs
      -- the node buffer is materialised as an array after every group (the model threads a
      -- function `Nat → α`; evaluating nested closures directly would recompute earlier groups)
      let nNodes := (n.nodes.foldl max 0) + 1
      let runArr (w : List Float) (buf : Array Float) : Array Float :=
        sch.foldl (fun (b : Array Float) g =>
          ((List.range nNodes).map (runGroup n fAct fSoftmax w (fun i => b.getD i 0.0) g)).toArray) buf
      let res := xs.map fun row =>
        let x : Nat → Float := fun i => match inIds.idxOf? i with
          | some k => row.getD k 0.0
          | none => 12345.678
        let buf0 : Array Float := ((List.range nNodes).map x).toArray
        -- the buffer is reused across the batch of weight vectors, as in forward2d
        (ws.foldl (fun (acc : Array Float × List (List Float)) w =>
            let b := runArr w acc.1
            (b, acc.2 ++ [n.outputs.map fun o => b.getD o 0.0])) (buf0, [])).2
      -- res[sample][weightrow][output]
      return some (jList (jList (jList jFloat)) res)
  | _ => return none

end Drv
