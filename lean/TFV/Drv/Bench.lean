/- Driver operations: Bench (C20). -/
import TFV.Drv.Base
import TFV.Model.Bench
open Lean

namespace Drv
open TFV.Bench

def dispatchBench (op : String) (j : Json) : R (Option Json) := do
  match op with
  | "bench_shift" => do
      let which ← str j "problem"
      let write : Vec → Nat → Vec ← match which with
        | "f5" => pure f5Write | "f8" => pure f8Write | "f20" => pure f20Write
        | _ => throw s!"unknown problem {which}"
      let t ← rats j "table"
      let D ← nat j "D"
      let hist ← nats j "history"
      if ← bool j "inplace" then return some (jList jRat (effInPlace write t hist D))
      else return some (jList jRat (effCopy write t D))
  | "bench_fn" => do
      let f ← str j "fn"
      let x ← rats j "x"
      match f with
      | "sphere" => return some (jRat (sphere x))
      | "schwefel12" => return some (jRat (schwefel12 x))
      | "rosenbrock" => return some (jRat (rosenbrock x))
      | _ => throw s!"unknown fn {f}"
  | _ => return none

end Drv
