/- Driver operations: Estim (C18). -/
import TFV.Drv.Base
import TFV.Model.Estim
open Lean

namespace Drv
open TFV.Estim

def dispatchEstim (op : String) (j : Json) : R (Option Json) := do
  match op with
  | "est_predict" => do
      let y ← nats j "y"
      let rows ← intss j "rows"
      let cs := classes y
      return some (jList (fun r => jOpt jNat (predictLabel cs r)) rows)
  | "est_check_args" => do
      let reserved ← listOf Json.getStr? (← arg j "reserved")
      let args ← listOf Json.getStr? (← arg j "args")
      return some (Json.bool (checkArgs reserved args))
  | _ => return none

end Drv
