/- Driver operations: EA, Select, Gray, Split, Metrics. -/
import TFV.Drv.Base
import TFV.Model.EA
import TFV.Model.Select
import TFV.Model.Gray
import TFV.Model.Split
import TFV.Model.Metrics
open Lean

namespace Drv

/-! ### EA trace replay -/
open TFV.EA in
def jInd (i : Ind Nat Nat) : Json := Json.arr #[jNat i.g, jNat i.ph, jInt i.fit]

open TFV.EA in
def eaRun (j : Json) : R Json := do
  let iters ← nat j "iters"
  let popSize ← nat j "pop_size"
  let elit ← bool j "elitism"
  let minim ← bool j "minimization"
  let keep ← bool j "keep_history"
  let floor ← int j "floor"
  let aim ← (do let a ← arg j "aim"; if a.isNull then pure none else pure (some (← a.getInt?)) : R (Option Int))
  let noInc ← (do let a ← arg j "no_inc"; if a.isNull then pure none else pure (some (← a.getNat?)) : R (Option Nat))
  let g2pT ← nats j "g2p"          -- table: genotype id -> phenotype id
  let objT ← ints j "obj"          -- table: phenotype id -> objective key
  let fl ← (do let s ← str j "flavour"; if s == "greedy" then pure Flavour.greedy else pure Flavour.gen : R Flavour)
  let init ← nats j "init"
  let batches ← natss j "batches"  -- what the variation step produced in generation 2, 3, …
  let c : Cfg Nat Nat :=
    { iters := iters, popSize := popSize, elitism := elit, minimization := minim,
      g2p := fun g => g2pT.getD g 0, obj := fun p => objT.getD p 0, aim := aim, noInc := noInc,
      keepHistory := keep, floor := floor }
  -- the oracle replays the observed batches: generation k (gens = k so far) gets batches[k-1]
  let oracle : St Nat Nat → List Nat := fun s => batches.getD (s.gens - 1) []
  let tr := c.traj fl init oracle
  let out := tr.map fun s =>
    Json.mkObj [
      ("gens", jNat s.gens), ("calls", jNat s.calls), ("callbacks", jNat s.callbacks),
      ("best", jOpt jInd s.rk.best), ("best_fit", jInt s.rk.fit), ("no_upd", jNat s.rk.noUpd),
      ("pop", jList jInd s.pop), ("stop", Json.bool (c.stop s)),
      ("remains", jInt (c.remains s)), ("log_len", jNat s.log.length),
      ("stats_len", jNat s.stats.length),
      ("last_stat", jOpt (fun (e : StatEntry Nat Nat) => Json.mkObj [("pop", jList jInd e.pop), ("max", jOpt jInd e.maxInd)]) s.stats.getLast?)]
  return Json.arr out.toArray

/-! ### dispatch -/
open TFV in
def dispatchCore (op : String) (j : Json) : R (Option Json) := do
  match op with
  -- EA
  | "ea_run" => return some (← eaRun j)
  -- Select
  | "bsearch" => return some (jNat (Select.bsearch (← int j "v") (← ints j "cum")))
  | "first_ge" => return some (jNat (Select.firstGe (← int j "v") (← ints j "cum")))
  | "argsort_k" => return some (jNats (Select.argsortK (← ints j "vals") (← nat j "k")))
  | "pbest" => return some (jNats (Select.pbest (← ints j "vals") (← nat j "pn") (← nat j "pd")))
  | "minmax" => return some (jList jRat (Select.minmax (← rats j "d")))
  | "tournament" => return some (jNat (Select.tournament (← ints j "fitness") (← nats j "sample")))
  | "sample_norepl" => return some (jOpt jNats (Select.sampleNoRepl (← nats j "draws") (← nat j "k") []))
  | "sattolo" => return some (jNats (Select.sattolo (← nats j "l") (← nats j "js")))
  | "randint" => return some (jInt (Select.randint (← int j "low") (← int j "high") (← rat j "u")))
  | "uniform" => return some (jRat (Select.uniform (← rat j "low") (← rat j "high") (← rat j "u")))
  | "weighted_index" => return some (jNat (Select.weightedIndex (← ints j "w") (← nat j "num") (← nat j "den")))
  -- Gray
  | "gray_transform" => do
      let vars ← listOf (fun v => do
        return ({ left := ← rat v "l", right := ← rat v "r", bits := ← nat v "bits" } : Gray.Var)) (← arg j "vars")
      return some (jList jRat (Gray.transform vars (← bool j "gray") (← bools j "row")))
  | "gray_inverse" => do
      let vars ← listOf (fun v => do
        return ({ left := ← rat v "l", right := ← rat v "r", bits := ← nat v "bits" } : Gray.Var)) (← arg j "vars")
      return some (jList Json.bool (Gray.inverse vars (← bool j "gray") (← rats j "xs")))
  | "bits_from_h" => return some (jNat (Gray.bitsFromH (← rat j "l") (← rat j "r") (← rat j "h")))
  | "gray_codes" => do
      let w ← nat j "w"
      return some (jList (jList Json.bool) ((List.range (2 ^ w)).map fun n => Gray.binToGray (Gray.natToBits w n)))
  -- Split
  | "norm_jobs" => return some (jOpt jNat (Split.normJobs (← int j "n") (← nat j "cpu") (← nat j "pop")))
  | "split" => return some (jList jNats (Split.split (List.range (← nat j "len")) (← nats j "cuts")))
  | "ideal_cuts" => do
      let p ← nat j "p"; let n ← nat j "n"
      return some (jNats (Split.cuts (Split.ideal p n) n))
  | "assemble" => do
      let done ← listOf (fun e => do return ((← nat e "i"), (← nats e "v"))) (← arg j "done")
      return some (jNats (Split.assemble done (← nat j "n")))
  -- Metrics
  | "recall" => return some (jRat (Metrics.recall (← nats j "yt") (← nats j "yp")))
  | "precision" => return some (jRat (Metrics.precision (← nats j "yt") (← nats j "yp")))
  | "f1" => return some (jRat (Metrics.f1 (← nats j "yt") (← nats j "yp")))
  | "accuracy" => return some (jRat (Metrics.accuracy (← nats j "yt") (← nats j "yp")))
  | "confusion" => return some (jList jNats (Metrics.confusion (← nats j "yt") (← nats j "yp")))
  | "spec_metrics" => do
      let yt ← nats j "yt"; let yp ← nats j "yp"
      return some (Json.arr #[jRat (Metrics.specRecall yt yp), jRat (Metrics.specPrecision yt yp),
                        jRat (Metrics.specF1 yt yp), jRat (Metrics.specAccuracy yt yp)])
  | "mse" => return some (jRat (Metrics.mse (← rats j "yt") (← rats j "yp")))
  | "r2" => return some (jRat (Metrics.r2 (← rats j "yt") (← rats j "yp")))
  | _ => return none

end Drv

