/- Driver operations: Tree (C08, C09). Trees cross as lists of [symbol, arity] pairs. -/
import TFV.Drv.Base
import TFV.Model.Tree
open Lean

namespace Drv
open TFV.Tree

def flatOf (j : Json) : R Flat :=
  listOf (fun p => do
    let a ← p.getArr?
    if a.size ≠ 2 then throw "node = [symbol, arity] expected"
    return ((← a[0]!.getNat?), (← a[1]!.getNat?))) j

def flatArg (j : Json) (k : String) : R Flat := do flatOf (← arg j k)
def jFlat (l : Flat) : Json := jList (fun (n : Node) => Json.arr #[jNat n.1, jNat n.2]) l

/-- integer interpretation of symbols, given as a table: per symbol id an object
    {"k": "const", "v": n} | {"k": "add" | "sub" | "mul" | "neg" | "tern"} -/
def interpInt (tab : Array Json) (s : Nat) (args : List Int) : Int :=
  match tab[s]? with
  | none => 0
  | some e =>
    match (e.getObjVal? "k").toOption.bind (·.getStr?.toOption) with
    | some "const" => ((e.getObjVal? "v").toOption.bind (·.getInt?.toOption)).getD 0
    | some "add" => args.getD 0 0 + args.getD 1 0
    | some "sub" => args.getD 0 0 - args.getD 1 0
    | some "mul" => args.getD 0 0 * args.getD 1 0
    | some "neg" => - args.getD 0 0
    | some "tern" => args.getD 0 0 - args.getD 1 0 * args.getD 2 0
    | _ => 0

/-- printing: per symbol a format string with `{}` placeholders (terminals: their name) -/
def fmt (pat : String) (args : List String) : String :=
  let parts := pat.splitOn "{}"
  match parts with
  | [] => ""
  | p :: ps => (ps.zip (args ++ List.replicate ps.length "")).foldl (fun acc (q, a) => acc ++ a ++ q) p

def interpStr (tab : Array Json) (s : Nat) (args : List String) : String :=
  match tab[s]? with
  | some e => fmt ((e.getStr?).toOption.getD "?") args
  | none => "?"

def dispatchTree (op : String) (j : Json) : R (Option Json) := do
  match op with
  | "t_end_sub" => return some (jNat (endSub (← nat j "i") (← nats j "ar")))
  | "t_args_ids" => return some (jNats (argsIds (← nat j "i") (← nats j "ar")))
  | "t_levels" => return some (jNats (levels (← nat j "i") (← nats j "ar")))
  | "t_depth" => return some (jNat (depth (← flatArg j "l")))
  | "t_wf" => do
      let ar ← nats j "arity"
      return some (Json.bool (wfb (fun s => ar.getD s 0) (← flatArg j "l")))
  | "t_subtree" => return some (jFlat (subtree (← flatArg j "l") (← nat j "i")))
  | "t_concat" => return some (jFlat (concat (← flatArg j "l") (← nat j "i") (← flatArg j "other")))
  | "t_common" => do
      let r := commonRegion (← natss j "ars")
      return some (Json.arr #[jList jNats r.1, jList jNats r.2])
  | "t_eval" => do
      let tab ← arr j "table"
      return some (jOpt jInt (evalStack (interpInt tab) (← flatArg j "l")))
  | "t_print" => do
      let tab ← arr j "table"
      return some (jOpt Json.str (evalStack (interpStr tab) (← flatArg j "l")))
  | "t_rebind" => do
      let m ← listOf (fun p => do
        let a ← p.getArr?
        return ((← a[0]!.getNat?), (← a[1]!.getNat?))) (← arg j "map")
      return some (jFlat (rebind (fun s => (m.find? (fun p => p.1 == s)).map (·.2)) (← flatArg j "l")))
  | "t_eq" => return some (Json.bool (eqTree (← flatArg j "a") (← flatArg j "b")))
  | "t_standard" => return some (jFlat (standardX (← flatArg j "a") (← flatArg j "b") (← nat j "p") (← nat j "q") (← bool j "coin") (← nat j "L")))
  | "t_one_point" => return some (jFlat (onePointX (← flatArg j "a") (← flatArg j "b") (← nat j "k") (← bool j "coin")))
  | "t_uniform" => do
      let ps ← listOf flatOf (← arg j "ps")
      return some (jFlat (uniformX ps (← nats j "pool")))
  | "t_point_mut" => return some (jFlat (pointMut (← flatArg j "l") (← nat j "i") (← nat j "sym")))
  | "t_grow_mut" => return some (jFlat (growMut (← flatArg j "l") (← nat j "i") (← flatArg j "grown")))
  | "t_swap" => return some (jFlat (swapMut (← flatArg j "l") (← nat j "i") (← nats j "perm")))
  | "t_shrink" => return some (jFlat (shrinkMut (← flatArg j "l") (← nat j "i") (← nat j "k")))
  | _ => return none

end Drv
