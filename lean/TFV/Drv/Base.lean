/- JSON helpers of the driver line protocol. -/
import Lean.Data.Json
open Lean

namespace Drv

abbrev R := Except String

def arg (j : Json) (k : String) : R Json := j.getObjVal? k
def nat (j : Json) (k : String) : R Nat := do (← arg j k).getNat?
def int (j : Json) (k : String) : R Int := do (← arg j k).getInt?
def bool (j : Json) (k : String) : R Bool := do (← arg j k).getBool?
def str (j : Json) (k : String) : R String := do (← arg j k).getStr?
def arr (j : Json) (k : String) : R (Array Json) := do (← arg j k).getArr?
def listOf {α} (f : Json → R α) (j : Json) : R (List α) := do
  let a ← j.getArr?
  a.toList.mapM f
def nats (j : Json) (k : String) : R (List Nat) := do listOf Json.getNat? (← arg j k)
def ints (j : Json) (k : String) : R (List Int) := do listOf Json.getInt? (← arg j k)
def bools (j : Json) (k : String) : R (List Bool) := do listOf Json.getBool? (← arg j k)
def natss (j : Json) (k : String) : R (List (List Nat)) := do listOf (listOf Json.getNat?) (← arg j k)
def intss (j : Json) (k : String) : R (List (List Int)) := do listOf (listOf Json.getInt?) (← arg j k)

def ratOf (j : Json) : R Rat := do
  let a ← j.getArr?
  if a.size ≠ 2 then throw "rat: expected [num, den]"
  let n ← a[0]!.getInt?
  let d ← a[1]!.getNat?
  if d = 0 then throw "rat: zero denominator"
  return mkRat n d
def rat (j : Json) (k : String) : R Rat := do ratOf (← arg j k)
def rats (j : Json) (k : String) : R (List Rat) := do listOf ratOf (← arg j k)
def ratss (j : Json) (k : String) : R (List (List Rat)) := do listOf (listOf ratOf) (← arg j k)

def jInt (i : Int) : Json := Json.num (JsonNumber.fromInt i)
def jNat (n : Nat) : Json := Json.num (JsonNumber.fromNat n)
def jRat (q : Rat) : Json := Json.arr #[jInt q.num, jNat q.den]
def jList {α} (f : α → Json) (l : List α) : Json := Json.arr (l.map f).toArray
def jNats (l : List Nat) : Json := jList jNat l
def jInts (l : List Int) : Json := jList jInt l
def jOpt {α} (f : α → Json) : Option α → Json
  | none => Json.null
  | some a => f a

end Drv
