/-
  TFV.Lemmas.DE — proofs for the C07 differential-evolution contracts.
-/
import TFV.Model.DE

namespace TFV.DE

/-! ### generic helpers -/

theorem getD_eq_getElem {α : Type} (l : List α) (i : Nat) (d : α) (h : i < l.length) :
    l.getD i d = l[i] := by
  simp [List.getD, h]

/-! ### scalar repairs -/

theorem clamp_spec (l r x : Rat) (hlr : l ≤ r) :
    l ≤ clamp l r x ∧ clamp l r x ≤ r ∧ (l ≤ x → x ≤ r → clamp l r x = x) := by
  unfold clamp
  split
  · grind
  · split <;> grind

theorem clampMean_spec (l r p x : Rat) (hlr : l ≤ r) (hp : l ≤ p ∧ p ≤ r) :
    l ≤ clampMean l r p x ∧ clampMean l r p x ≤ r ∧ (l ≤ x → x ≤ r → clampMean l r p x = x) := by
  unfold clampMean
  split
  · grind
  · split <;> grind

/-! ### vector repairs -/

theorem boundsControl_length (x left right : Vec) (hlen : left.length = right.length)
    (hx : x.length = left.length) : (boundsControl x left right).length = left.length := by
  simp [boundsControl]; omega

theorem boundsControl_getElem (x left right : Vec) (i : Nat)
    (h : i < (boundsControl x left right).length) (hx : i < x.length) (hl : i < left.length)
    (hr : i < right.length) :
    (boundsControl x left right)[i] = clamp left[i] right[i] x[i] := by
  simp [boundsControl]

theorem repair_only_outside (x left right : Vec) (hlen : left.length = right.length)
    (hle : ∀ i (hl : i < left.length) (hr : i < right.length), left[i] ≤ right[i])
    (hx : x.length = left.length) :
    InBox left right (boundsControl x left right) ∧
    ∀ i (h : i < x.length) (hl : i < left.length) (hr : i < right.length),
      left[i] ≤ x[i] → x[i] ≤ right[i] → (boundsControl x left right)[i]? = some x[i] := by
  have hL := boundsControl_length x left right hlen hx
  refine ⟨⟨hL, ?_⟩, ?_⟩
  · intro i h hl hr
    rw [boundsControl_getElem x left right i h (by omega) hl hr]
    have := clamp_spec left[i] right[i] (x[i]'(by omega)) (hle i hl hr)
    exact ⟨this.1, this.2.1⟩
  · intro i h hl hr h1 h2
    have hi : i < (boundsControl x left right).length := by omega
    rw [List.getElem?_eq_getElem hi, boundsControl_getElem x left right i hi h hl hr]
    exact congrArg some ((clamp_spec left[i] right[i] x[i] (hle i hl hr)).2.2 h1 h2)

theorem boundsControlMean_length (x parent left right : Vec) (hlen : left.length = right.length)
    (hx : x.length = left.length) (hp : parent.length = left.length) :
    (boundsControlMean x parent left right).length = left.length := by
  simp [boundsControlMean]; omega

theorem boundsControlMean_getElem (x parent left right : Vec) (i : Nat)
    (h : i < (boundsControlMean x parent left right).length) (hx : i < x.length)
    (hp : i < parent.length) (hl : i < left.length) (hr : i < right.length) :
    (boundsControlMean x parent left right)[i] = clampMean left[i] right[i] parent[i] x[i] := by
  simp [boundsControlMean]

theorem repairMean_only_outside (x parent left right : Vec) (hlen : left.length = right.length)
    (hle : ∀ i (hl : i < left.length) (hr : i < right.length), left[i] ≤ right[i])
    (hx : x.length = left.length) (hp : InBox left right parent) :
    InBox left right (boundsControlMean x parent left right) ∧
    ∀ i (h : i < x.length) (hl : i < left.length) (hr : i < right.length),
      left[i] ≤ x[i] → x[i] ≤ right[i] → (boundsControlMean x parent left right)[i]? = some x[i] := by
  obtain ⟨hpl, hpb⟩ := hp
  have hL := boundsControlMean_length x parent left right hlen hx hpl
  refine ⟨⟨hL, ?_⟩, ?_⟩
  · intro i h hl hr
    rw [boundsControlMean_getElem x parent left right i h (by omega) (by omega) hl hr]
    have := clampMean_spec left[i] right[i] (parent[i]'(by omega)) (x[i]'(by omega)) (hle i hl hr)
      (hpb i (by omega) hl hr)
    exact ⟨this.1, this.2.1⟩
  · intro i h hl hr h1 h2
    have hi : i < (boundsControlMean x parent left right).length := by omega
    rw [List.getElem?_eq_getElem hi,
      boundsControlMean_getElem x parent left right i hi h (by omega) hl hr]
    exact congrArg some ((clampMean_spec left[i] right[i] (parent[i]'(by omega)) x[i] (hle i hl hr)
      (hpb i (by omega) hl hr)).2.2 h1 h2)

/-! ### binomial crossover -/

theorem binomial_spec (x m : Vec) (mask : List Bool) (j : Nat) (hl : x.length = m.length) :
    (binomial x m mask j).length = x.length ∧
    ∀ i (hi : i < x.length), (binomial x m mask j)[i]? =
      some (if mask.getD i false || i == j then m[i]'(hl ▸ hi) else x[i]) := by
  constructor
  · simp [binomial, hl]
  · intro i hi
    have hm : i < m.length := hl ▸ hi
    simp only [binomial, List.getElem?_mapIdx]
    rw [List.getElem?_eq_getElem (by simp; omega)]
    simp only [List.getElem_zip, Option.map_some]

/-! ### linear algebra on lists -/

@[simp] theorem vadd_length (a b : Vec) : (vadd a b).length = min a.length b.length := by
  simp [vadd]

@[simp] theorem vsub_length (a b : Vec) : (vsub a b).length = min a.length b.length := by
  simp [vsub]

@[simp] theorem smul_length (f : Rat) (a : Vec) : (smul f a).length = a.length := by
  simp [smul]

theorem vadd_getD (a b : Vec) (k : Nat) (ha : k < a.length) (hb : k < b.length) :
    (vadd a b).getD k 0 = a.getD k 0 + b.getD k 0 := by
  rw [getD_eq_getElem _ _ _ (by simp; omega), getD_eq_getElem _ _ _ ha, getD_eq_getElem _ _ _ hb]
  simp [vadd]

theorem vsub_getD (a b : Vec) (k : Nat) (ha : k < a.length) (hb : k < b.length) :
    (vsub a b).getD k 0 = a.getD k 0 - b.getD k 0 := by
  rw [getD_eq_getElem _ _ _ (by simp; omega), getD_eq_getElem _ _ _ ha, getD_eq_getElem _ _ _ hb]
  simp [vsub]

theorem smul_getD (f : Rat) (a : Vec) (k : Nat) (ha : k < a.length) :
    (smul f a).getD k 0 = f * a.getD k 0 := by
  rw [getD_eq_getElem _ _ _ (by simpa using ha), getD_eq_getElem _ _ _ ha]
  simp [smul]

/-- lengths of linear combinations, then linear arithmetic -/
macro "len_omega" : tactic =>
  `(tactic| (simp only [vadd_length, vsub_length, smul_length]; omega))

/-- adding a zero-scaled vector of at least the same length changes nothing -/
theorem vadd_smul_zero (a v : Vec) (h : a.length ≤ v.length) : vadd a (smul 0 v) = a := by
  apply List.ext_getElem
  · simp; omega
  · intro i h1 h2
    simp [vadd, smul, Rat.zero_mul, Rat.add_zero]

theorem row_length (pop : List Vec) (n : Nat) (hpop : ∀ v ∈ pop, v.length = n) (i : Nat)
    (hi : i < pop.length) : (row pop i).length = n := by
  unfold row
  rw [getD_eq_getElem _ _ _ hi]
  exact hpop _ (List.getElem_mem _)

theorem row_r_length (pop : List Vec) (n : Nat) (hpop : ∀ v ∈ pop, v.length = n) (r : List Nat)
    (hri : ∀ i ∈ r, i < pop.length) (j : Nat) (hj : j < r.length) :
    (row pop (r.getD j 0)).length = n := by
  apply row_length pop n hpop
  rw [getD_eq_getElem _ _ _ hj]
  exact hri _ (List.getElem_mem _)

/-! ### donors -/

theorem donor_length (s : Strategy) (cur best : Vec) (pop : List Vec) (F : Rat) (r : List Nat)
    (n : Nat) (hcur : cur.length = n) (hbest : best.length = n) (hpop : ∀ v ∈ pop, v.length = n)
    (hr : r.length = s.arity) (hri : ∀ i ∈ r, i < pop.length) :
    (donor s cur best pop F r).length = n := by
  have hrow := row_r_length pop n hpop r hri
  cases s <;> simp only [Strategy.arity] at hr
  · have h0 := hrow 0 (by omega); have h1 := hrow 1 (by omega)
    simp only [donor, best1]; len_omega
  · have h0 := hrow 0 (by omega); have h1 := hrow 1 (by omega); have h2 := hrow 2 (by omega)
    simp only [donor, rand1]; len_omega
  · have h0 := hrow 0 (by omega); have h1 := hrow 1 (by omega)
    simp only [donor, currentToBest1]; len_omega
  · have h0 := hrow 0 (by omega); have h1 := hrow 1 (by omega); have h2 := hrow 2 (by omega)
    simp only [donor, randToBest1]; len_omega
  · have h0 := hrow 0 (by omega); have h1 := hrow 1 (by omega); have h2 := hrow 2 (by omega)
    have h3 := hrow 3 (by omega)
    simp only [donor, best2]; len_omega
  · have h0 := hrow 0 (by omega); have h1 := hrow 1 (by omega); have h2 := hrow 2 (by omega)
    have h3 := hrow 3 (by omega); have h4 := hrow 4 (by omega)
    simp only [donor, rand2]; len_omega

theorem donor_F0 (s : Strategy) (cur best : Vec) (pop : List Vec) (r : List Nat) (n : Nat)
    (hcur : cur.length = n) (hbest : best.length = n) (hpop : ∀ v ∈ pop, v.length = n)
    (hr : r.length = s.arity) (hri : ∀ i ∈ r, i < pop.length) :
    donor s cur best pop 0 r =
      (match s with
       | .best1 | .best2 => best
       | .rand1 => row pop (r.getD 2 0)
       | .currentToBest1 => cur
       | .randToBest1 => row pop (r.getD 0 0)
       | .rand2 => row pop (r.getD 4 0)) := by
  have hrow := row_r_length pop n hpop r hri
  cases s <;> simp only [Strategy.arity] at hr
  · have h0 := hrow 0 (by omega); have h1 := hrow 1 (by omega)
    simp only [donor, best1]
    rw [vadd_smul_zero _ _ (by len_omega)]
  · have h0 := hrow 0 (by omega); have h1 := hrow 1 (by omega); have h2 := hrow 2 (by omega)
    simp only [donor, rand1]
    rw [vadd_smul_zero _ _ (by len_omega)]
  · have h0 := hrow 0 (by omega); have h1 := hrow 1 (by omega)
    simp only [donor, currentToBest1]
    rw [vadd_smul_zero cur _ (by len_omega), vadd_smul_zero _ _ (by len_omega)]
  · have h0 := hrow 0 (by omega); have h1 := hrow 1 (by omega); have h2 := hrow 2 (by omega)
    simp only [donor, randToBest1]
    rw [vadd_smul_zero (row pop (r.getD 0 0)) _ (by len_omega),
      vadd_smul_zero _ _ (by len_omega)]
  · have h0 := hrow 0 (by omega); have h1 := hrow 1 (by omega); have h2 := hrow 2 (by omega)
    have h3 := hrow 3 (by omega)
    simp only [donor, best2]
    rw [vadd_smul_zero best _ (by len_omega), vadd_smul_zero _ _ (by len_omega)]
  · have h0 := hrow 0 (by omega); have h1 := hrow 1 (by omega); have h2 := hrow 2 (by omega)
    have h3 := hrow 3 (by omega); have h4 := hrow 4 (by omega)
    simp only [donor, rand2]
    rw [vadd_smul_zero (row pop (r.getD 4 0)) _ (by len_omega),
      vadd_smul_zero _ _ (by len_omega)]

theorem donor_coord (s : Strategy) (cur best : Vec) (pop : List Vec) (F : Rat) (r : List Nat)
    (n : Nat) (hcur : cur.length = n) (hbest : best.length = n) (hpop : ∀ v ∈ pop, v.length = n)
    (hr : r.length = s.arity) (hri : ∀ i ∈ r, i < pop.length) (k : Nat) (hk : k < n) :
    let x := fun (j : Nat) => (row pop (r.getD j 0)).getD k 0
    let c := cur.getD k 0
    let b := best.getD k 0
    (donor s cur best pop F r).getD k 0 =
      (match s with
       | .best1 => b + F * (x 0 - x 1)
       | .rand1 => x 2 + F * (x 0 - x 1)
       | .currentToBest1 => c + F * (b - c) + F * (x 0 - x 1)
       | .randToBest1 => x 0 + F * (b - x 0) + F * (x 1 - x 2)
       | .best2 => b + F * (x 0 - x 1) + F * (x 2 - x 3)
       | .rand2 => x 4 + F * (x 0 - x 1) + F * (x 2 - x 3)) := by
  intro x c b
  have hrow := row_r_length pop n hpop r hri
  cases s <;> simp only [Strategy.arity] at hr
  · have h0 := hrow 0 (by omega); have h1 := hrow 1 (by omega)
    simp only [donor, best1, x, b]
    rw [vadd_getD _ _ k (by omega) (by len_omega), smul_getD _ _ k (by len_omega),
      vsub_getD _ _ k (by omega) (by omega)]
  · have h0 := hrow 0 (by omega); have h1 := hrow 1 (by omega); have h2 := hrow 2 (by omega)
    simp only [donor, rand1, x]
    rw [vadd_getD _ _ k (by omega) (by len_omega), smul_getD _ _ k (by len_omega),
      vsub_getD _ _ k (by omega) (by omega)]
  · have h0 := hrow 0 (by omega); have h1 := hrow 1 (by omega)
    simp only [donor, currentToBest1, x, b, c]
    rw [vadd_getD _ _ k (by len_omega) (by len_omega),
      vadd_getD _ _ k (by omega) (by len_omega),
      smul_getD _ _ k (by len_omega), smul_getD _ _ k (by len_omega),
      vsub_getD _ _ k (by omega) (by omega), vsub_getD _ _ k (by omega) (by omega)]
  · have h0 := hrow 0 (by omega); have h1 := hrow 1 (by omega); have h2 := hrow 2 (by omega)
    simp only [donor, randToBest1, x, b]
    rw [vadd_getD _ _ k (by len_omega) (by len_omega),
      vadd_getD _ _ k (by omega) (by len_omega),
      smul_getD _ _ k (by len_omega), smul_getD _ _ k (by len_omega),
      vsub_getD _ _ k (by omega) (by omega), vsub_getD _ _ k (by omega) (by omega)]
  · have h0 := hrow 0 (by omega); have h1 := hrow 1 (by omega); have h2 := hrow 2 (by omega)
    have h3 := hrow 3 (by omega)
    simp only [donor, best2, x, b]
    rw [vadd_getD _ _ k (by len_omega) (by len_omega),
      vadd_getD _ _ k (by omega) (by len_omega),
      smul_getD _ _ k (by len_omega), smul_getD _ _ k (by len_omega),
      vsub_getD _ _ k (by omega) (by omega), vsub_getD _ _ k (by omega) (by omega)]
  · have h0 := hrow 0 (by omega); have h1 := hrow 1 (by omega); have h2 := hrow 2 (by omega)
    have h3 := hrow 3 (by omega); have h4 := hrow 4 (by omega)
    simp only [donor, rand2, x]
    rw [vadd_getD _ _ k (by len_omega) (by len_omega),
      vadd_getD _ _ k (by omega) (by len_omega),
      smul_getD _ _ k (by len_omega), smul_getD _ _ k (by len_omega),
      vsub_getD _ _ k (by omega) (by omega), vsub_getD _ _ k (by omega) (by omega)]

/-! ### trials stay in the box -/

theorem trialDE_in_box (s : Strategy) (cur best : Vec) (pop : List Vec) (F : Rat) (r : List Nat)
    (mask : List Bool) (j : Nat) (left right : Vec) (hlen : left.length = right.length)
    (hle : ∀ i (hl : i < left.length) (hr : i < right.length), left[i] ≤ right[i])
    (hcur : cur.length = left.length) (hbest : best.length = left.length)
    (hpop : ∀ v ∈ pop, v.length = left.length) (hr : r.length = s.arity)
    (hri : ∀ i ∈ r, i < pop.length) :
    InBox left right (trialDE s cur best pop F r mask j left right) := by
  have hd := donor_length s cur best pop F r left.length hcur hbest hpop hr hri
  have hb := (binomial_spec cur (donor s cur best pop F r) mask j (by omega)).1
  exact (repair_only_outside _ left right hlen hle (by omega)).1

theorem currentToPbest1_length (cur : Vec) (pop popArchive : List Vec) (F : Rat) (pb r1 r2 : Nat)
    (n : Nat) (hcur : cur.length = n) (hpop : ∀ v ∈ pop, v.length = n)
    (harch : ∀ v ∈ popArchive, v.length = n)
    (hpb : pb < pop.length) (hr1 : r1 < pop.length) (hr2 : r2 < popArchive.length) :
    (currentToPbest1 cur pop popArchive F pb r1 r2).length = n := by
  simp [currentToPbest1, hcur, row_length pop n hpop pb hpb, row_length pop n hpop r1 hr1,
    row_length popArchive n harch r2 hr2]

theorem trialSHADE_in_box (cur : Vec) (pop popArchive : List Vec) (F : Rat) (pb r1 r2 : Nat)
    (mask : List Bool) (j : Nat) (left right : Vec) (hlen : left.length = right.length)
    (hle : ∀ i (hl : i < left.length) (hr : i < right.length), left[i] ≤ right[i])
    (hcur : InBox left right cur) (hpop : ∀ v ∈ pop, v.length = left.length)
    (harch : ∀ v ∈ popArchive, v.length = left.length)
    (hpb : pb < pop.length) (hr1 : r1 < pop.length) (hr2 : r2 < popArchive.length) :
    InBox left right (trialSHADE cur pop popArchive F pb r1 r2 mask j left right) := by
  have hd := currentToPbest1_length cur pop popArchive F pb r1 r2 left.length hcur.1 hpop harch
    hpb hr1 hr2
  have hb := (binomial_spec cur (currentToPbest1 cur pop popArchive F pb r1 r2) mask j
    (by have := hcur.1; omega)).1
  exact (repairMean_only_outside _ cur left right hlen hle (by have := hcur.1; omega) hcur).1

/-! ### greedy replacement and the generation invariant -/

theorem greedy_in_box (pop trials : List Vec) (accept : List Bool) (left right : Vec)
    (hl : trials.length = pop.length)
    (hpop : ∀ v ∈ pop, InBox left right v) (htr : ∀ v ∈ trials, InBox left right v) :
    (greedy pop trials accept).length = pop.length ∧
    ∀ v ∈ greedy pop trials accept, InBox left right v := by
  have hL : (greedy pop trials accept).length = pop.length := by simp [greedy, hl]
  refine ⟨hL, ?_⟩
  intro v hv
  obtain ⟨i, hi, rfl⟩ := List.getElem_of_mem hv
  have hip : i < pop.length := by omega
  have hit : i < trials.length := by omega
  have : (greedy pop trials accept)[i] = if accept.getD i false then trials[i] else pop[i] := by
    simp [greedy]
  rw [this]
  split
  · exact htr _ (List.getElem_mem _)
  · exact hpop _ (List.getElem_mem _)

theorem box_invariant (pop0 : List Vec) (left right : Vec) (h0 : ∀ v ∈ pop0, InBox left right v)
    (gens : List (List Vec × List Bool))
    (hg : ∀ g ∈ gens, g.1.length = pop0.length ∧ ∀ v ∈ g.1, InBox left right v) :
    ∀ v ∈ gens.foldl (fun pop g => greedy pop g.1 g.2) pop0, InBox left right v := by
  induction gens generalizing pop0 with
  | nil => simpa using h0
  | cons g gs ih =>
    have hg0 := hg g (by simp)
    have hstep := greedy_in_box pop0 g.1 g.2 left right hg0.1 h0 hg0.2
    simp only [List.foldl_cons]
    apply ih (greedy pop0 g.1 g.2) hstep.2
    intro g' hg'
    have := hg g' (by simp [hg'])
    exact ⟨by rw [hstep.1]; exact this.1, this.2⟩

end TFV.DE
