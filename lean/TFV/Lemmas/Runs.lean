/-
  Lemmas behind `TFV.Properties.Runs`: the genotype invariant of the EA state machine
  (population, evaluation log and record all satisfy a predicate preserved by the variation
  step) and its instantiations for the binary, real-valued and tree operators.
-/
import TFV.Model.EA
import TFV.Lemmas.EA
import TFV.Model.BinOps
import TFV.Lemmas.BinOps
import TFV.Model.DE
import TFV.Lemmas.DE
import TFV.Model.Tree
import TFV.Lemmas.TreeOps

namespace TFV.Runs
open TFV.EA

variable {G P : Type}

/-- the genotype invariant: population, log and record satisfy `Q`.  The record has to be part
    of it because elitism writes the record into the last slot of the population. -/
def GInv (Q : G → Prop) (s : St G P) : Prop :=
  (∀ x ∈ s.pop, Q x.g) ∧ (∀ x ∈ s.log, Q x.g) ∧ (∀ b, s.rk.best = some b → Q b.g)

theorem eval_mem_g (c : Cfg G P) (gs : List G) : ∀ x ∈ c.eval gs, x.g ∈ gs := by
  intro x hx
  simp only [Cfg.eval, List.mem_map] at hx
  obtain ⟨g, hg, rfl⟩ := hx
  exact hg

theorem update_best_Q (Q : G → Prop) (r : Rec G P) (pop : List (Ind G P))
    (hr : ∀ b, r.best = some b → Q b.g) (hpop : ∀ x ∈ pop, Q x.g) :
    ∀ b, (r.update pop).best = some b → Q b.g := by
  intro b hb
  rcases update_best r pop with ⟨h1, _⟩ | ⟨m, hm, h1, _, _⟩
  · exact hr b (h1 ▸ hb)
  · rw [h1] at hb
    cases hb
    exact hpop _ hm

/-- `record` on a population satisfying `Q` re-establishes the invariant -/
theorem record_ginv (Q : G → Prop) (c : Cfg G P) (s : St G P) (pop : List (Ind G P))
    (hlog : ∀ x ∈ s.log, Q x.g) (hrk : ∀ b, s.rk.best = some b → Q b.g)
    (hpop : ∀ x ∈ pop, Q x.g) : GInv Q (c.record s pop) := by
  have hbest := update_best_Q Q s.rk pop hrk hpop
  refine ⟨?_, ?_, ?_⟩
  · intro x hx
    rw [record_pop] at hx
    rcases recPop_mem c _ pop x hx with h | h
    · exact hpop x h
    · exact hbest x h
  · intro x hx
    rw [record_log] at hx
    exact hlog x hx
  · intro b hb
    rw [record_rk] at hb
    exact hbest b hb

theorem stepGen_ginv (Q : G → Prop) (c : Cfg G P) (s : St G P) (gs : List G)
    (hlog : ∀ x ∈ s.log, Q x.g) (hrk : ∀ b, s.rk.best = some b → Q b.g)
    (hgs : ∀ g ∈ gs, Q g) : GInv Q (c.stepGen s gs) := by
  have hev : ∀ x ∈ c.eval gs, Q x.g := fun x hx => hgs _ (eval_mem_g c gs x hx)
  unfold Cfg.stepGen
  refine record_ginv Q c _ _ ?_ hrk hev
  intro x hx
  have hx' : x ∈ s.log ++ c.eval gs := hx
  rcases List.mem_append.mp hx' with h | h
  · exact hlog x h
  · exact hev x h

theorem stepGreedy_ginv (Q : G → Prop) (c : Cfg G P) (s : St G P) (gs : List G)
    (h : GInv Q s) (hgs : ∀ g ∈ gs, Q g) : GInv Q (c.stepGreedy s gs) := by
  have hev : ∀ x ∈ c.eval gs, Q x.g := fun x hx => hgs _ (eval_mem_g c gs x hx)
  unfold Cfg.stepGreedy
  refine record_ginv Q c _ _ ?_ h.2.2 ?_
  · intro x hx
    have hx' : x ∈ s.log ++ c.eval gs := hx
    rcases List.mem_append.mp hx' with h' | h'
    · exact h.2.1 x h'
    · exact hev x h'
  · intro x hx
    rcases merge_mem _ _ x hx with h' | h'
    · exact h.1 x h'
    · exact hev x h'

theorem first_ginv (Q : G → Prop) (c : Cfg G P) (init : List G) (hinit : ∀ g ∈ init, Q g) :
    GInv Q (c.first init) := by
  unfold Cfg.first
  apply stepGen_ginv Q c _ _ ?_ ?_ hinit
  · intro x hx; simp [St.init] at hx
  · intro b hb; simp [St.init] at hb

theorem next_ginv (Q : G → Prop) (c : Cfg G P) (fl : Flavour) (oracle : St G P → List G)
    (hstep : ∀ s, (∀ x ∈ s.pop, Q x.g) → ∀ g ∈ oracle s, Q g) (s : St G P) (h : GInv Q s) :
    GInv Q (c.next fl oracle s) := by
  have h' : GInv Q (c.step fl s (oracle s)) := by
    cases fl
    · exact stepGen_ginv Q c s _ h.2.1 h.2.2 (hstep s h.1)
    · exact stepGreedy_ginv Q c s _ h (hstep s h.1)
  exact h'

theorem traj_ginv (c : Cfg G P) (fl : Flavour) (init : List G)
    (oracle : St G P → List G) (Q : G → Prop) (hinit : ∀ g ∈ init, Q g)
    (hstep : ∀ s, (∀ x ∈ s.pop, Q x.g) → ∀ g ∈ oracle s, Q g) :
    ∀ s ∈ c.traj fl init oracle, GInv Q s :=
  trajFrom_forall c fl oracle (GInv Q) (next_ginv Q c fl oracle hstep) _ _
    (first_ginv Q c init hinit)

theorem run_genotype_invariant_aux (c : Cfg G P) (fl : Flavour) (init : List G)
    (oracle : St G P → List G) (Q : G → Prop) (hinit : ∀ g ∈ init, Q g)
    (hstep : ∀ s, (∀ x ∈ s.pop, Q x.g) → ∀ g ∈ oracle s, Q g) :
    ∀ s ∈ c.traj fl init oracle, (∀ x ∈ s.pop, Q x.g) ∧ (∀ x ∈ s.log, Q x.g) := by
  intro s hs
  have h := traj_ginv c fl init oracle Q hinit hstep s hs
  exact ⟨h.1, h.2.1⟩

/-! ## binary strings -/

theorem run_binary {P : Type} (c : Cfg BinOps.Ind P) (fl : Flavour) (init : List BinOps.Ind)
    (oracle : St BinOps.Ind P → List BinOps.Ind) (n : Nat)
    (hinit : ∀ g ∈ init, g.length = n ∧ BinOps.Binary g)
    (hor : ∀ s, ∀ g ∈ oracle s, ∃ (selected : List Nat) (k : BinOps.XKind) (fitness : List Int)
        (ch : BinOps.XChoice) (mask : List Bool),
        (∀ i ∈ selected, i < s.pop.length) ∧ selected ≠ [] ∧ (k ≠ .empty → 2 ≤ selected.length) ∧
        ch.ok k selected.length n ∧
        g = BinOps.newIndivid (s.pop.map (·.g)) selected k fitness ch mask) :
    ∀ s ∈ c.traj fl init oracle,
      (∀ x ∈ s.pop, x.g.length = n ∧ BinOps.Binary x.g) ∧
      (∀ x ∈ s.log, x.g.length = n ∧ BinOps.Binary x.g) := by
  apply run_genotype_invariant_aux c fl init oracle (fun g => g.length = n ∧ BinOps.Binary g) hinit
  intro s hs g hg
  obtain ⟨selected, k, fitness, ch, mask, hsel, hne, h2, hok, rfl⟩ := hor s g hg
  apply BinOps.newIndivid_closed (s.pop.map (·.g)) n ?_ selected ?_ hne k h2 fitness ch hok mask
  · intro p hp
    obtain ⟨x, hx, rfl⟩ := List.mem_map.mp hp
    exact hs x hx
  · intro i hi
    rw [List.length_map]
    exact hsel i hi

theorem run_binary_shaga {P : Type} (c : Cfg BinOps.Ind P) (init : List BinOps.Ind)
    (oracle : St BinOps.Ind P → List BinOps.Ind) (n : Nat)
    (hinit : ∀ g ∈ init, g.length = n ∧ BinOps.Binary g)
    (hor : ∀ s, ∀ g ∈ oracle s, ∃ x ∈ s.pop, ∃ y ∈ s.pop,
        ∃ (crMask : List Bool) (j : Nat) (mutMask : List Bool),
        g = BinOps.shagaIndivid x.g y.g crMask j mutMask) :
    ∀ s ∈ c.traj .greedy init oracle,
      (∀ x ∈ s.pop, x.g.length = n ∧ BinOps.Binary x.g) ∧
      (∀ x ∈ s.log, x.g.length = n ∧ BinOps.Binary x.g) := by
  apply run_genotype_invariant_aux c .greedy init oracle
    (fun g => g.length = n ∧ BinOps.Binary g) hinit
  intro s hs g hg
  obtain ⟨x, hx, y, hy, crMask, j, mutMask, rfl⟩ := hor s g hg
  exact BinOps.shaga_closed x.g y.g n (hs x hx) (hs y hy) crMask j mutMask

/-! ## box constraints -/

theorem run_in_box {P : Type} (c : Cfg DE.Vec P) (init : List DE.Vec)
    (oracle : St DE.Vec P → List DE.Vec) (left right : DE.Vec)
    (hlen : left.length = right.length)
    (hle : ∀ i (hl : i < left.length) (hr : i < right.length), left[i] ≤ right[i])
    (hinit : ∀ g ∈ init, DE.InBox left right g)
    (hor : ∀ s, ∀ g ∈ oracle s, ∃ (st : DE.Strategy) (cur best : DE.Vec) (F : Rat) (r : List Nat)
        (mask : List Bool) (j : Nat),
        cur.length = left.length ∧ best.length = left.length ∧ r.length = st.arity ∧
        (∀ i ∈ r, i < s.pop.length) ∧
        g = DE.trialDE st cur best (s.pop.map (·.g)) F r mask j left right) :
    ∀ s ∈ c.traj .greedy init oracle,
      (∀ x ∈ s.pop, DE.InBox left right x.g) ∧ (∀ x ∈ s.log, DE.InBox left right x.g) := by
  apply run_genotype_invariant_aux c .greedy init oracle (DE.InBox left right) hinit
  intro s hs g hg
  obtain ⟨st, cur, best, F, r, mask, j, hcur, hbest, hr, hri, rfl⟩ := hor s g hg
  apply DE.trialDE_in_box st cur best (s.pop.map (·.g)) F r mask j left right hlen hle hcur hbest
    ?_ hr ?_
  · intro v hv
    obtain ⟨x, hx, rfl⟩ := List.mem_map.mp hv
    exact (hs x hx).1
  · intro i hi
    rw [List.length_map]
    exact hri i hi

theorem run_in_box_shade {P : Type} (c : Cfg DE.Vec P) (init : List DE.Vec)
    (oracle : St DE.Vec P → List DE.Vec) (left right : DE.Vec)
    (hlen : left.length = right.length)
    (hle : ∀ i (hl : i < left.length) (hr : i < right.length), left[i] ≤ right[i])
    (hinit : ∀ g ∈ init, DE.InBox left right g)
    (hor : ∀ s, ∀ g ∈ oracle s, ∃ cur ∈ s.pop, ∃ (archive : List DE.Vec) (F : Rat) (pb r1 r2 : Nat)
        (mask : List Bool) (j : Nat),
        (∀ v ∈ archive, v.length = left.length) ∧ pb < s.pop.length ∧ r1 < s.pop.length ∧
        r2 < (s.pop.map (·.g) ++ archive).length ∧
        g = DE.trialSHADE cur.g (s.pop.map (·.g)) (s.pop.map (·.g) ++ archive) F pb r1 r2 mask j
          left right) :
    ∀ s ∈ c.traj .greedy init oracle,
      (∀ x ∈ s.pop, DE.InBox left right x.g) ∧ (∀ x ∈ s.log, DE.InBox left right x.g) := by
  apply run_genotype_invariant_aux c .greedy init oracle (DE.InBox left right) hinit
  intro s hs g hg
  obtain ⟨cur, hcur, archive, F, pb, r1, r2, mask, j, harch, hpb, hr1, hr2, rfl⟩ := hor s g hg
  have hpop : ∀ v ∈ s.pop.map (·.g), v.length = left.length := by
    intro v hv
    obtain ⟨x, hx, rfl⟩ := List.mem_map.mp hv
    exact (hs x hx).1
  apply DE.trialSHADE_in_box cur.g (s.pop.map (·.g)) (s.pop.map (·.g) ++ archive) F pb r1 r2 mask j
    left right hlen hle (hs cur hcur) hpop ?_ ?_ ?_ hr2
  · intro v hv
    rcases List.mem_append.mp hv with h | h
    · exact hpop v h
    · exact harch v h
  · rw [List.length_map]; exact hpb
  · rw [List.length_map]; exact hr1

/-! ## trees -/

theorem run_closed_standard_point {P : Type} (c : Cfg Tree.Flat P) (fl : Flavour)
    (init : List Tree.Flat) (oracle : St Tree.Flat P → List Tree.Flat) (arity : Nat → Nat) (L : Nat)
    (hinit : ∀ g ∈ init, Tree.WF arity g ∧ Tree.depth g ≤ L)
    (hor : ∀ s, ∀ g ∈ oracle s, ∃ a ∈ s.pop, ∃ b ∈ s.pop, ∃ (p q : Nat) (coin : Bool) (i newSym : Nat),
        p < a.g.length ∧ q < b.g.length ∧
        (let child := Tree.standardX a.g b.g p q coin L
         i < child.length ∧ arity newSym = (child.getD i (0, 0)).2 ∧ g = Tree.pointMut child i newSym)) :
    ∀ s ∈ c.traj fl init oracle,
      (∀ x ∈ s.pop, Tree.WF arity x.g ∧ Tree.depth x.g ≤ L) ∧
      (∀ x ∈ s.log, Tree.WF arity x.g ∧ Tree.depth x.g ≤ L) := by
  apply run_genotype_invariant_aux c fl init oracle
    (fun g => Tree.WF arity g ∧ Tree.depth g ≤ L) hinit
  intro s hs g hg
  obtain ⟨a, ha, b, hb, p, q, coin, i, newSym, hp, hq, hi, har, rfl⟩ := hor s g hg
  have hx := Tree.standardX_spec arity a.g b.g (hs a ha).1 (hs b hb).1 p q hp hq coin L
    (hs a ha).2 (hs b hb).2
  have hm := Tree.pointMut_spec arity (Tree.standardX a.g b.g p q coin L) hx.1 i hi newSym har
  exact ⟨hm.1, by rw [hm.2.2]; exact hx.2.1⟩

end TFV.Runs
