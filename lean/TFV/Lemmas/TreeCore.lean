/-
  TFV.Lemmas.TreeCore — the flat (prefix) encoding of rose trees: the index helpers, parsing,
  levels / depth, evaluation.  Lemmas behind the C09 theorems of TFV/Properties/Tree.lean, plus
  general facts used by TreeOps / TreeCR.
-/
import TFV.Model.Tree

namespace TFV.Tree

/-- every node of the rose tree has as many kids as its symbol's arity -/
def ConsistentRT (arity : Nat → Nat) : RT → Prop
  | .node s ks => ks.length = arity s ∧ ∀ k ∈ ks, ConsistentRT arity k

theorem consistentRT_node (arity : Nat → Nat) (s : Nat) (ks : List RT) :
    ConsistentRT arity (.node s ks) ↔ (ks.length = arity s ∧ ∀ k ∈ ks, ConsistentRT arity k) := by
  rw [ConsistentRT]

/-! ### basic list facts -/

theorem arities_append (a b : Flat) : arities (a ++ b) = arities a ++ arities b := by
  simp [arities]

@[simp] theorem arities_nil : arities [] = [] := rfl

@[simp] theorem arities_cons (n : Node) (l : Flat) : arities (n :: l) = n.2 :: arities l := rfl

@[simp] theorem arities_length (l : Flat) : (arities l).length = l.length := by
  simp [arities]

theorem arities_flat_node (s : Nat) (ks : List RT) :
    arities (flat (.node s ks)) = ks.length :: arities (flatL ks) := by
  simp [flat]

theorem flatL_cons (t : RT) (ts : List RT) : flatL (t :: ts) = flat t ++ flatL ts := by
  simp [flatL]

@[simp] theorem flatL_nil : flatL [] = [] := by simp [flatL]

theorem flatL_append (as bs : List RT) : flatL (as ++ bs) = flatL as ++ flatL bs := by
  induction as with
  | nil => simp
  | cons t ts ih => simp [flatL_cons, ih]

theorem flatL_eq_flatMap (ts : List RT) : flatL ts = ts.flatMap flat := by
  induction ts with
  | nil => simp
  | cons t ts ih => simp [flatL_cons, ih]

@[simp] theorem sizeL_nil : sizeL [] = 0 := by simp [sizeL]

theorem sizeL_cons (t : RT) (ts : List RT) : sizeL (t :: ts) = t.size + sizeL ts := by
  simp [sizeL]

theorem sizeL_append (as bs : List RT) : sizeL (as ++ bs) = sizeL as + sizeL bs := by
  induction as with
  | nil => simp
  | cons t ts ih => simp [sizeL_cons, ih]; omega

theorem size_node (s : Nat) (ks : List RT) : (RT.node s ks).size = 1 + sizeL ks := by
  simp [RT.size]

theorem size_pos (t : RT) : 0 < t.size := by
  cases t with | node s ks => rw [size_node]; omega

/-! ### size -/

mutual
theorem size_flat (t : RT) : (flat t).length = t.size := by
  cases t with
  | node s ks => simp only [flat, RT.size, List.length_cons]; rw [size_flatL ks]; omega
theorem size_flatL (ts : List RT) : (flatL ts).length = sizeL ts := by
  cases ts with
  | nil => simp
  | cons t ts =>
    simp only [flatL, sizeL, List.length_append]; rw [size_flat t, size_flatL ts]
end

theorem flat_ne_nil (t : RT) : flat t ≠ [] := by
  cases t with | node s ks => simp [flat]

/-! ### scan / endSub -/

mutual
theorem scan_flat (t : RT) (n : Nat) (rest : List Nat) :
    scan (n + 1) (arities (flat t) ++ rest) = t.size + scan n rest := by
  cases t with
  | node s ks =>
    simp only [arities_flat_node, List.cons_append, scan, size_node]
    rw [scan_flatL ks n rest]; omega
/-- the scan on an appended forest: one subtree consumed per open slot -/
theorem scan_flatL (ts : List RT) (n : Nat) (rest : List Nat) :
    scan (n + ts.length) (arities (flatL ts) ++ rest) = sizeL ts + scan n rest := by
  cases ts with
  | nil => simp
  | cons t ts =>
    simp only [flatL_cons, arities_append, List.append_assoc, List.length_cons, sizeL_cons]
    rw [← Nat.add_assoc, scan_flat t, scan_flatL ts n rest]; omega
end

theorem scan_zero (l : List Nat) : scan 0 l = 0 := by simp [scan]

theorem endSub_flat (pre post : Flat) (t : RT) :
    endSub pre.length (arities (pre ++ flat t ++ post)) = pre.length + t.size := by
  unfold endSub
  have h : (arities (pre ++ flat t ++ post)).drop pre.length = arities (flat t) ++ arities post := by
    rw [List.append_assoc, arities_append, arities_append]
    rw [List.drop_append_of_le_length (by simp)]
    simp
  rw [h, scan_flat t 0, scan_zero]; omega

/-! ### well-formedness -/

mutual
theorem wfAux_flat (t : RT) (n : Nat) (rest : List Nat) :
    wfAux (n + 1) (arities (flat t) ++ rest) = wfAux n rest := by
  cases t with
  | node s ks =>
    simp only [arities_flat_node, List.cons_append, wfAux]
    rw [wfAux_flatL ks n rest]
theorem wfAux_flatL (ts : List RT) (n : Nat) (rest : List Nat) :
    wfAux (n + ts.length) (arities (flatL ts) ++ rest) = wfAux n rest := by
  cases ts with
  | nil => simp
  | cons t ts =>
    simp only [flatL_cons, arities_append, List.append_assoc, List.length_cons]
    rw [← Nat.add_assoc, wfAux_flat t, wfAux_flatL ts n rest]
end

theorem wfAux_flat_self (t : RT) : wfAux 1 (arities (flat t)) = true := by
  have := wfAux_flat t 0 []
  simpa [wfAux] using this

theorem wfAux_flatL_self (ts : List RT) : wfAux ts.length (arities (flatL ts)) = true := by
  have := wfAux_flatL ts 0 []
  simpa [wfAux] using this

/-- replacing a subterm by another one does not change well-formedness of the arity sequence -/
theorem wfAux_replace (pre post : List Nat) (t u : RT) (n : Nat) :
    wfAux n (pre ++ arities (flat t) ++ post) = wfAux n (pre ++ arities (flat u) ++ post) := by
  induction pre generalizing n with
  | nil =>
    cases n with
    | zero =>
      cases t with | node s ks => cases u with | node s' ks' => simp [arities_flat_node, wfAux]
    | succ n => simp only [List.nil_append]; rw [wfAux_flat, wfAux_flat]
  | cons a pre ih =>
    cases n with
    | zero => simp [wfAux]
    | succ n => simp only [List.cons_append, wfAux]; exact ih _

theorem wfAux_replace_flat (pre post : Flat) (t u : RT) (n : Nat) :
    wfAux n (arities (pre ++ flat t ++ post)) = wfAux n (arities (pre ++ flat u ++ post)) := by
  simp only [arities_append]; exact wfAux_replace _ _ t u n

mutual
theorem consistent_iff_flat (arity : Nat → Nat) (t : RT) :
    ConsistentRT arity t ↔ ∀ n ∈ flat t, n.2 = arity n.1 := by
  cases t with
  | node s ks =>
    rw [consistentRT_node, consistentL_iff_flatL arity ks]
    simp [flat]
theorem consistentL_iff_flatL (arity : Nat → Nat) (ts : List RT) :
    (∀ k ∈ ts, ConsistentRT arity k) ↔ ∀ n ∈ flatL ts, n.2 = arity n.1 := by
  cases ts with
  | nil => simp
  | cons t ts =>
    simp only [List.mem_cons, forall_eq_or_imp, flatL_cons, List.mem_append]
    rw [consistent_iff_flat arity t, consistentL_iff_flatL arity ts]
    constructor
    · rintro ⟨h1, h2⟩ n (h | h)
      · exact h1 n h
      · exact h2 n h
    · intro h
      exact ⟨fun n hn => h n (Or.inl hn), fun n hn => h n (Or.inr hn)⟩
end

theorem wf_flat (arity : Nat → Nat) (t : RT) (hc : ConsistentRT arity t) : WF arity (flat t) :=
  ⟨wfAux_flat_self t, (consistent_iff_flat arity t).1 hc⟩

/-- a list accepted by `wfAux n` is the flat list of a forest of `n` trees -/
theorem parseL (l : Flat) (n : Nat) (h : wfAux n (arities l) = true) :
    ∃ ts : List RT, ts.length = n ∧ flatL ts = l := by
  induction l generalizing n with
  | nil =>
    cases n with
    | zero => exact ⟨[], rfl, by simp⟩
    | succ n => simp [wfAux] at h
  | cons a l ih =>
    cases n with
    | zero => simp [wfAux] at h
    | succ p =>
      obtain ⟨s, k⟩ := a
      simp only [arities_cons, wfAux] at h
      obtain ⟨ts, hlen, hfl⟩ := ih _ h
      refine ⟨.node s (ts.take k) :: ts.drop k, ?_, ?_⟩
      · simp [hlen]
      · have hk : (ts.take k).length = k := by simp [hlen]
        rw [flatL_cons, flat, hk, List.cons_append, ← flatL_append, List.take_append_drop, hfl]

theorem parse (l : Flat) (h : wfAux 1 (arities l) = true) : ∃ t, flat t = l := by
  obtain ⟨ts, hlen, hfl⟩ := parseL l 1 h
  match ts, hlen, hfl with
  | [t], _, hfl => exact ⟨t, by simpa [flatL_cons] using hfl⟩

theorem parse_consistent (arity : Nat → Nat) (l : Flat) (h : WF arity l) :
    ∃ t, flat t = l ∧ ConsistentRT arity t := by
  obtain ⟨t, ht⟩ := parse l h.1
  refine ⟨t, ht, (consistent_iff_flat arity t).2 ?_⟩
  rw [ht]; exact h.2

/-! ### unique readability -/

mutual
theorem flat_prefix_free (t u : RT) (r1 r2 : Flat) (h : flat t ++ r1 = flat u ++ r2) :
    t = u ∧ r1 = r2 := by
  cases t with
  | node s ks =>
    cases u with
    | node s' ks' =>
      simp only [flat, List.cons_append, List.cons.injEq, Prod.mk.injEq] at h
      obtain ⟨⟨hs, hl⟩, h⟩ := h
      obtain ⟨hk, hr⟩ := flatL_prefix_free ks ks' r1 r2 hl h
      exact ⟨by rw [hs, hk], hr⟩
theorem flatL_prefix_free (ts us : List RT) (r1 r2 : Flat) (hl : ts.length = us.length)
    (h : flatL ts ++ r1 = flatL us ++ r2) : ts = us ∧ r1 = r2 := by
  cases ts with
  | nil =>
    cases us with
    | nil => exact ⟨rfl, by simpa using h⟩
    | cons u us => simp at hl
  | cons t ts =>
    cases us with
    | nil => simp at hl
    | cons u us =>
      simp only [flatL_cons, List.append_assoc] at h
      obtain ⟨h1, h2⟩ := flat_prefix_free t u _ _ h
      obtain ⟨h3, h4⟩ := flatL_prefix_free ts us r1 r2 (by simpa using hl) h2
      exact ⟨by rw [h1, h3], h4⟩
end

theorem flat_injective (t u : RT) (h : flat t = flat u) : t = u :=
  (flat_prefix_free t u [] [] (by simpa using h)).1

/-! ### contexts -/

mutual
theorem contextRT (t : RT) (i : Nat) (hi : i < t.size) :
    ∃ pre post u, flat t = pre ++ flat u ++ post ∧ pre.length = i := by
  cases t with
  | node s ks =>
    cases i with
    | zero => exact ⟨[], [], .node s ks, by simp, rfl⟩
    | succ j =>
      rw [size_node] at hi
      obtain ⟨pre, post, u, h, hl⟩ := contextL ks j (by omega)
      exact ⟨(s, ks.length) :: pre, post, u, by simp [flat, h], by simp [hl]⟩
theorem contextL (ts : List RT) (i : Nat) (hi : i < sizeL ts) :
    ∃ pre post u, flatL ts = pre ++ flat u ++ post ∧ pre.length = i := by
  cases ts with
  | nil => simp at hi
  | cons t ts =>
    rw [sizeL_cons] at hi
    by_cases h : i < t.size
    · obtain ⟨pre, post, u, h, hl⟩ := contextRT t i h
      exact ⟨pre, post ++ flatL ts, u, by simp [flatL_cons, h], hl⟩
    · obtain ⟨pre, post, u, h, hl⟩ := contextL ts (i - t.size) (by omega)
      refine ⟨flat t ++ pre, post, u, by simp [flatL_cons, h], ?_⟩
      simp [hl, size_flat]; omega
end

/-- every index of a well-formed list is the root of a subterm in a context -/
theorem context (l : Flat) (h : wfAux 1 (arities l) = true) (i : Nat) (hi : i < l.length) :
    ∃ pre post t, l = pre ++ flat t ++ post ∧ pre.length = i := by
  obtain ⟨t, rfl⟩ := parse l h
  rw [size_flat] at hi
  obtain ⟨pre, post, u, h1, h2⟩ := contextRT t i hi
  exact ⟨pre, post, u, h1, h2⟩

/-! ### subtree / concat -/

theorem subtree_flat (pre post : Flat) (t : RT) :
    subtree (pre ++ flat t ++ post) pre.length = flat t := by
  unfold subtree
  rw [endSub_flat, ← size_flat t]
  have : pre.length + (flat t).length = (pre ++ flat t).length := by simp
  rw [this, List.take_left']
  · simp
  · rfl

theorem concat_flat (pre post : Flat) (t : RT) (other : Flat) :
    concat (pre ++ flat t ++ post) pre.length other = pre ++ other ++ post := by
  unfold concat
  rw [endSub_flat, ← size_flat t]
  have : pre.length + (flat t).length = (pre ++ flat t).length := by simp
  rw [this, List.drop_left', List.append_assoc pre (flat t) post, List.take_left']
  · rfl
  · rfl

theorem le_endSub (i : Nat) (ar : List Nat) : i ≤ endSub i ar := by
  unfold endSub; omega

theorem concat_subtree_id (l : Flat) (i : Nat) : concat l i (subtree l i) = l := by
  unfold concat subtree
  have hle := le_endSub i (arities l)
  generalize endSub i (arities l) = e at hle
  have h1 : l.take i = (l.take e).take i := by
    rw [List.take_take, Nat.min_eq_left hle]
  rw [h1, List.take_append_drop, List.take_append_drop]

/-! ### levels -/

theorem levelsAux_nil_stack (l : List Nat) : levelsAux [] l = [] := by
  cases l <;> simp [levelsAux]

@[simp] theorem levelsAux_nil (st : List (Nat × Nat)) : levelsAux st [] = [] := by
  cases st <;> simp [levelsAux]

/-- push `c` open slots at level `lv` (nothing when `c = 0`) -/
def pushSt (c lv : Nat) (st : List (Nat × Nat)) : List (Nat × Nat) :=
  if c = 0 then st else (c, lv) :: st

@[simp] theorem pushSt_zero (lv : Nat) (st : List (Nat × Nat)) : pushSt 0 lv st = st := by
  simp [pushSt]

@[simp] theorem pushSt_succ (c lv : Nat) (st : List (Nat × Nat)) :
    pushSt (c + 1) lv st = (c + 1, lv) :: st := by
  simp [pushSt]

theorem levelsAux_cons (c lv : Nat) (st : List (Nat × Nat)) (a : Nat) (rest : List Nat) :
    levelsAux ((c + 1, lv) :: st) (a :: rest) =
      lv :: levelsAux (pushSt a (lv + 1) (pushSt c lv st)) rest := by
  simp only [levelsAux, pushSt, Nat.add_sub_cancel]
  by_cases ha : a = 0
  · subst ha; simp
  · have : a > 0 := Nat.pos_of_ne_zero ha
    simp [ha, this]

mutual
theorem levelsAux_flat' (t : RT) (c lv : Nat) (st : List (Nat × Nat)) (rest : List Nat) :
    levelsAux ((c + 1, lv) :: st) (arities (flat t) ++ rest) =
      levelsRT lv t ++ levelsAux (pushSt c lv st) rest := by
  cases t with
  | node s ks =>
    rw [arities_flat_node, List.cons_append, levelsAux_cons, levelsRT]
    have := levelsAux_flatL' ks 0 (lv + 1) (pushSt c lv st) rest
    simp only [Nat.zero_add, pushSt_zero] at this
    rw [this]; simp
theorem levelsAux_flatL' (ts : List RT) (c lv : Nat) (st : List (Nat × Nat)) (rest : List Nat) :
    levelsAux (pushSt (c + ts.length) lv st) (arities (flatL ts) ++ rest) =
      levelsL lv ts ++ levelsAux (pushSt c lv st) rest := by
  cases ts with
  | nil => simp [levelsL]
  | cons t ts =>
    simp only [flatL_cons, arities_append, List.append_assoc, List.length_cons, levelsL]
    rw [← Nat.add_assoc, pushSt_succ, levelsAux_flat' t, levelsAux_flatL' ts c lv st rest]
end

/-- the levels loop on a subterm followed by anything: the subterm's levels, then the loop goes on
    with one slot less -/
theorem levelsAux_flat (t : RT) (c lv : Nat) (st : List (Nat × Nat)) (rest : List Nat) :
    levelsAux ((c + 1, lv) :: st) (arities (flat t) ++ rest) =
      levelsRT lv t ++ levelsAux (if c = 0 then st else (c, lv) :: st) rest :=
  levelsAux_flat' t c lv st rest

theorem levelsAux_flatL (ts : List RT) (c lv : Nat) (st : List (Nat × Nat)) (rest : List Nat) :
    levelsAux (if c + ts.length = 0 then st else (c + ts.length, lv) :: st)
        (arities (flatL ts) ++ rest) =
      levelsL lv ts ++ levelsAux (if c = 0 then st else (c, lv) :: st) rest :=
  levelsAux_flatL' ts c lv st rest

theorem levels_flat (pre post : Flat) (t : RT) :
    levels pre.length (arities (pre ++ flat t ++ post)) = levelsRT 0 t := by
  unfold levels
  have h : (arities (pre ++ flat t ++ post)).drop pre.length = arities (flat t) ++ arities post := by
    rw [List.append_assoc, arities_append, arities_append]
    rw [List.drop_append_of_le_length (by simp)]
    simp
  rw [h, levelsAux_flat' t 0 0 [] _]
  simp [levelsAux_nil_stack]

theorem levels_flat_self (t : RT) : levels 0 (arities (flat t)) = levelsRT 0 t := by
  have := levels_flat [] [] t
  simpa using this

mutual
theorem levelsRT_length (d : Nat) (t : RT) : (levelsRT d t).length = t.size := by
  cases t with
  | node s ks => simp only [levelsRT, List.length_cons, size_node]; rw [levelsL_length]; omega
theorem levelsL_length (d : Nat) (ts : List RT) : (levelsL d ts).length = sizeL ts := by
  cases ts with
  | nil => simp [levelsL]
  | cons t ts =>
    simp only [levelsL, List.length_append, sizeL_cons]; rw [levelsRT_length, levelsL_length]
end

theorem levelsRT_head (d : Nat) (t : RT) : ∃ tl, levelsRT d t = d :: tl := by
  cases t with | node s ks => exact ⟨_, by rw [levelsRT]⟩

/-! ### listMax -/

theorem foldl_max (a : Nat) (l : List Nat) : l.foldl max a = max a (l.foldl max 0) := by
  induction l generalizing a with
  | nil => simp
  | cons x l ih => simp only [List.foldl_cons]; rw [ih, ih (max 0 x)]; omega

@[simp] theorem listMax_nil : listMax [] = 0 := rfl

theorem listMax_cons (x : Nat) (l : List Nat) : listMax (x :: l) = max x (listMax l) := by
  unfold listMax; simp only [List.foldl_cons]; rw [foldl_max]; omega

theorem listMax_append (a b : List Nat) : listMax (a ++ b) = max (listMax a) (listMax b) := by
  induction a with
  | nil => simp
  | cons x a ih => simp only [List.cons_append, listMax_cons, ih]; omega

theorem listMax_le_iff (l : List Nat) (m : Nat) : listMax l ≤ m ↔ ∀ x ∈ l, x ≤ m := by
  induction l with
  | nil => simp
  | cons x l ih => simp only [listMax_cons, List.mem_cons, forall_eq_or_imp, ← ih]; omega

theorem le_listMax_of_mem {l : List Nat} {x : Nat} (h : x ∈ l) : x ≤ listMax l :=
  (listMax_le_iff l (listMax l)).1 (Nat.le_refl _) x h

/-! ### depth -/

mutual
theorem listMax_levelsRT (d : Nat) (t : RT) : listMax (levelsRT d t) = d + t.depth := by
  cases t with
  | node s ks =>
    rw [levelsRT, listMax_cons, RT.depth]; exact listMax_levelsL d ks
theorem listMax_levelsL (d : Nat) (ts : List RT) :
    max d (listMax (levelsL (d + 1) ts)) = d + depthL ts := by
  cases ts with
  | nil => simp [levelsL, depthL]
  | cons t ts =>
    rw [levelsL, listMax_append, listMax_levelsRT, depthL]
    have := listMax_levelsL d ts
    omega
end

theorem depth_flat (t : RT) : depth (flat t) = t.depth := by
  unfold depth
  rw [levels_flat_self, listMax_levelsRT]; omega

theorem depthL_le_iff (ts : List RT) (m : Nat) :
    depthL ts ≤ m ↔ ∀ k ∈ ts, k.depth + 1 ≤ m := by
  induction ts with
  | nil => simp [depthL]
  | cons t ts ih => simp only [depthL, List.mem_cons, forall_eq_or_imp, ← ih]; omega

theorem depth_lt_of_mem {k : RT} {ks : List RT} (h : k ∈ ks) : k.depth + 1 ≤ depthL ks :=
  (depthL_le_iff ks _).1 (Nat.le_refl _) k h

theorem depthL_perm {ks ks' : List RT} (h : ks.Perm ks') : depthL ks = depthL ks' := by
  apply Nat.le_antisymm
  · rw [depthL_le_iff]; intro k hk; exact depth_lt_of_mem (h.mem_iff.1 hk)
  · rw [depthL_le_iff]; intro k hk; exact depth_lt_of_mem (h.mem_iff.2 hk)

/-! ### the levels loop across a context -/

/-- the stack transformation of one iteration of `levelsAux` / `growAux` -/
def stepSt : List (Nat × Nat) → Nat → List (Nat × Nat)
  | [], _ => []
  | (c, lv) :: st, a => pushSt a (lv + 1) (pushSt (c - 1) lv st)

def sumSt : List (Nat × Nat) → Nat
  | [] => 0
  | (c, _) :: st => c + sumSt st

/-- every stack entry has an open slot -/
def GoodSt (st : List (Nat × Nat)) : Prop := ∀ e ∈ st, 0 < e.1

theorem goodSt_pushSt {c lv : Nat} {st : List (Nat × Nat)} (h : GoodSt st) :
    GoodSt (pushSt c lv st) := by
  unfold pushSt
  split
  · exact h
  · intro e he
    rcases List.mem_cons.1 he with rfl | he
    · simp; omega
    · exact h e he

theorem sumSt_pushSt (c lv : Nat) (st : List (Nat × Nat)) :
    sumSt (pushSt c lv st) = c + sumSt st := by
  unfold pushSt
  split
  · omega
  · simp [sumSt]

theorem goodSt_stepSt {st : List (Nat × Nat)} (a : Nat) (h : GoodSt st) : GoodSt (stepSt st a) := by
  cases st with
  | nil => simpa [stepSt] using h
  | cons e st =>
    obtain ⟨c, lv⟩ := e
    simp only [stepSt]
    exact goodSt_pushSt (goodSt_pushSt (fun e he => h e (List.mem_cons_of_mem _ he)))

theorem foldl_stepSt_nil (a : List Nat) : a.foldl stepSt [] = [] := by
  induction a with
  | nil => rfl
  | cons x a ih => simpa [stepSt] using ih

theorem goodSt_foldl {st : List (Nat × Nat)} (a : List Nat) (h : GoodSt st) :
    GoodSt (a.foldl stepSt st) := by
  induction a generalizing st with
  | nil => exact h
  | cons x a ih => exact ih (goodSt_stepSt x h)

theorem levelsAux_step (st : List (Nat × Nat)) (h : GoodSt st) (a : Nat) (rest : List Nat) :
    levelsAux st (a :: rest) = (st.head?.map (·.2)).toList ++ levelsAux (stepSt st a) rest := by
  cases st with
  | nil => simp [levelsAux_nil_stack, stepSt]
  | cons e st =>
    obtain ⟨c, lv⟩ := e
    have hc : 0 < c := h (c, lv) (by simp)
    obtain ⟨c, rfl⟩ : ∃ c', c = c' + 1 := ⟨c - 1, by omega⟩
    rw [levelsAux_cons]; simp [stepSt]

theorem levelsAux_append (st : List (Nat × Nat)) (h : GoodSt st) (a b : List Nat) :
    levelsAux st (a ++ b) = levelsAux st a ++ levelsAux (a.foldl stepSt st) b := by
  induction a generalizing st with
  | nil => simp
  | cons x a ih =>
    rw [List.cons_append, levelsAux_step st h, levelsAux_step st h, List.foldl_cons,
      ih _ (goodSt_stepSt x h), List.append_assoc]

theorem levelsAux_length_le (st : List (Nat × Nat)) (l : List Nat) :
    (levelsAux st l).length ≤ l.length := by
  induction l generalizing st with
  | nil => simp
  | cons a l ih =>
    cases st with
    | nil => simp [levelsAux_nil_stack]
    | cons e st =>
      obtain ⟨c, lv⟩ := e
      simp only [levelsAux, List.length_cons]
      exact Nat.succ_le_succ (ih _)

/-- `wfAux` across a prefix: the pending count is the number of open slots of the stack -/
theorem wfAux_foldl_stepSt (st : List (Nat × Nat)) (h : GoodSt st) (a b : List Nat)
    (hw : wfAux (sumSt st) (a ++ b) = true) :
    wfAux (sumSt (a.foldl stepSt st)) b = true := by
  induction a generalizing st with
  | nil => simpa using hw
  | cons x a ih =>
    cases st with
    | nil => simp [sumSt, wfAux] at hw
    | cons e st =>
      obtain ⟨c, lv⟩ := e
      have hc : 0 < c := h (c, lv) (by simp)
      obtain ⟨c, rfl⟩ : ∃ c', c = c' + 1 := ⟨c - 1, by omega⟩
      rw [List.foldl_cons]
      apply ih _ (goodSt_stepSt x h)
      simp only [stepSt, sumSt_pushSt, Nat.add_sub_cancel]
      simp only [sumSt, List.cons_append] at hw
      have e1 : c + 1 + sumSt st = (c + sumSt st) + 1 := by omega
      rw [e1, wfAux] at hw
      have e2 : x + (c + sumSt st) = c + sumSt st + x := by omega
      rw [e2]; exact hw

/-- The levels of a well-formed list split along any context: the part before the hole, the
    subterm's own levels shifted by the level `lv` of the hole, the part after; the outer parts and
    `lv` do not depend on the subterm plugged in. -/
theorem levels_context (pre post : Flat) (t : RT)
    (h : wfAux 1 (arities (pre ++ flat t ++ post)) = true) :
    ∃ (lv : Nat) (A B : List Nat), A.length = pre.length ∧ B.length = post.length ∧
      ∀ u : RT, levels 0 (arities (pre ++ flat u ++ post)) = A ++ levelsRT lv u ++ B := by
  have hg : GoodSt [(1, 0)] := by intro e he; simp at he; subst he; simp
  have hw := wfAux_foldl_stepSt [(1, 0)] hg (arities pre) (arities (flat t) ++ arities post)
    (by simpa [sumSt, arities_append] using h)
  have hg1 := goodSt_foldl (arities pre) hg
  generalize hst : (arities pre).foldl stepSt [(1, 0)] = st1 at hw hg1
  have hsplit : ∀ u : RT, levels 0 (arities (pre ++ flat u ++ post)) =
      levelsAux [(1, 0)] (arities pre) ++ levelsAux st1 (arities (flat u) ++ arities post) := by
    intro u
    unfold levels
    rw [List.drop_zero, List.append_assoc, arities_append, arities_append,
      levelsAux_append _ hg, hst]
  cases st1 with
  | nil =>
    cases t with | node s ks => simp [sumSt, arities_flat_node, wfAux] at hw
  | cons e st =>
    obtain ⟨c, lv⟩ := e
    have hc : 0 < c := hg1 (c, lv) (by simp)
    obtain ⟨c, rfl⟩ : ∃ c', c = c' + 1 := ⟨c - 1, by omega⟩
    have hsplit' : ∀ u : RT, levels 0 (arities (pre ++ flat u ++ post)) =
        levelsAux [(1, 0)] (arities pre) ++ levelsRT lv u ++
          levelsAux (pushSt c lv st) (arities post) := by
      intro u; rw [hsplit u, levelsAux_flat', List.append_assoc]
    have hA := levelsAux_length_le [(1, 0)] (arities pre)
    have hB := levelsAux_length_le (pushSt c lv st) (arities post)
    rw [arities_length] at hA hB
    have htot : (levels 0 (arities (pre ++ flat t ++ post))).length =
        (pre ++ flat t ++ post).length := by
      obtain ⟨T, hT⟩ := parse _ h
      rw [← hT, levels_flat_self, levelsRT_length, size_flat]
    rw [hsplit' t] at htot
    simp only [List.length_append, levelsRT_length, size_flat] at htot
    exact ⟨lv, _, _, by omega, by omega, hsplit'⟩

/-- depth and hole level across a context, in terms of the plugged subterm -/
theorem depth_context (pre post : Flat) (t : RT)
    (h : wfAux 1 (arities (pre ++ flat t ++ post)) = true) :
    ∃ lv m : Nat, ∀ u : RT,
      depth (pre ++ flat u ++ post) = max m (lv + u.depth) ∧
      (levels 0 (arities (pre ++ flat u ++ post))).getD pre.length 0 = lv := by
  obtain ⟨lv, A, B, hA, hB, hl⟩ := levels_context pre post t h
  refine ⟨lv, max (listMax A) (listMax B), fun u => ⟨?_, ?_⟩⟩
  · unfold depth
    rw [hl u, listMax_append, listMax_append, listMax_levelsRT]; omega
  · obtain ⟨tl, htl⟩ := levelsRT_head lv u
    rw [hl u, htl, List.append_assoc, ← hA]
    simp

/-- the level of index `i` plus the depth of the subterm rooted there is at most the depth -/
theorem level_add_depth_le (pre post : Flat) (t : RT)
    (h : wfAux 1 (arities (pre ++ flat t ++ post)) = true) :
    (levels 0 (arities (pre ++ flat t ++ post))).getD pre.length 0 + t.depth ≤
      depth (pre ++ flat t ++ post) := by
  obtain ⟨lv, m, hd⟩ := depth_context pre post t h
  rw [(hd t).1, (hd t).2]; omega

/-- plugging another subterm into the hole: the depth is bounded by the old depth and
    hole level + new subterm depth -/
theorem depth_replace_le (pre post : Flat) (t u : RT)
    (h : wfAux 1 (arities (pre ++ flat t ++ post)) = true) :
    depth (pre ++ flat u ++ post) ≤
      max (depth (pre ++ flat t ++ post))
        ((levels 0 (arities (pre ++ flat t ++ post))).getD pre.length 0 + u.depth) := by
  obtain ⟨lv, m, hd⟩ := depth_context pre post t h
  rw [(hd t).1, (hd t).2, (hd u).1]; omega

theorem depth_replace_eq (pre post : Flat) (t u : RT)
    (h : wfAux 1 (arities (pre ++ flat t ++ post)) = true) (hd : u.depth = t.depth) :
    depth (pre ++ flat u ++ post) = depth (pre ++ flat t ++ post) := by
  obtain ⟨lv, m, hd'⟩ := depth_context pre post t h
  rw [(hd' t).1, (hd' u).1, hd]

/-- the hole level does not depend on what is plugged in -/
theorem level_replace (pre post : Flat) (t u : RT)
    (h : wfAux 1 (arities (pre ++ flat t ++ post)) = true) :
    (levels 0 (arities (pre ++ flat u ++ post))).getD pre.length 0 =
      (levels 0 (arities (pre ++ flat t ++ post))).getD pre.length 0 := by
  obtain ⟨lv, m, hd⟩ := depth_context pre post t h
  rw [(hd t).2, (hd u).2]

/-! ### argument positions -/

theorem argsIdsAux_flatL (ks : List RT) (pre post : Flat) :
    argsIdsAux (arities (pre ++ flatL ks ++ post)) ks.length pre.length =
      (List.range ks.length).map fun c => pre.length + sizeL (ks.take c) := by
  induction ks generalizing pre with
  | nil => simp [argsIdsAux]
  | cons t ts ih =>
    rw [List.length_cons, argsIdsAux, List.range_succ_eq_map, List.map_cons, List.map_map]
    have e : pre ++ flatL (t :: ts) ++ post = pre ++ flat t ++ (flatL ts ++ post) := by
      simp [flatL_cons]
    have e' : pre ++ flatL (t :: ts) ++ post = (pre ++ flat t) ++ flatL ts ++ post := by
      simp [flatL_cons]
    congr 1
    · rw [e, endSub_flat, ← e, e']
      have hl : pre.length + t.size = (pre ++ flat t).length := by simp [size_flat]
      rw [hl, ih]
      apply List.map_congr_left
      intro c _
      simp [sizeL_cons, size_flat]; omega

theorem getD_context (pre post : Flat) (t : RT) :
    (pre ++ flat t ++ post).getD pre.length (0, 0) = (t.sym, t.kids.length) := by
  cases t with
  | node s ks => simp [flat, RT.sym, RT.kids]

theorem argsIds_flat (pre post : Flat) (s : Nat) (ks : List RT) :
    argsIds pre.length (arities (pre ++ flat (.node s ks) ++ post)) =
      (List.range ks.length).map fun c => pre.length + 1 + sizeL (ks.take c) := by
  unfold argsIds
  have h0 : (arities (pre ++ flat (.node s ks) ++ post)).getD pre.length 0 = ks.length := by
    simp [arities_append, flat]
  rw [h0]
  have e : pre ++ flat (.node s ks) ++ post = (pre ++ [(s, ks.length)]) ++ flatL ks ++ post := by
    simp [flat]
  have hl : pre.length + 1 = (pre ++ [(s, ks.length)]).length := by simp
  rw [e, hl, argsIdsAux_flatL]

/-! ### stack evaluation -/

/-- the reversed pass of `evalStack`, as a right fold -/
def runStack {V : Type} (interp : Nat → List V → V) (l : Flat) (st : List V) : List V :=
  l.foldr (fun n st => stackStep interp st n) st

theorem evalStack_eq {V : Type} (interp : Nat → List V → V) (l : Flat) :
    evalStack interp l = (runStack interp l []).head? := by
  unfold evalStack runStack
  rw [List.foldl_reverse]

theorem runStack_append {V : Type} (interp : Nat → List V → V) (a b : Flat) (st : List V) :
    runStack interp (a ++ b) st = runStack interp a (runStack interp b st) := by
  simp [runStack]

theorem runStack_cons {V : Type} (interp : Nat → List V → V) (n : Node) (l : Flat) (st : List V) :
    runStack interp (n :: l) st = stackStep interp (runStack interp l st) n := by
  simp [runStack]

theorem evalL_length {V : Type} (interp : Nat → List V → V) (ts : List RT) :
    (evalL interp ts).length = ts.length := by
  induction ts with
  | nil => simp [evalL]
  | cons t ts ih => simp [evalL, ih]

mutual
theorem runStack_flat {V : Type} (interp : Nat → List V → V) (t : RT) (st : List V) :
    runStack interp (flat t) st = evalRT interp t :: st := by
  cases t with
  | node s ks =>
    rw [flat, runStack_cons, runStack_flatL interp ks st, stackStep, evalRT]
    have hl := evalL_length interp ks
    simp only
    rw [← hl, List.take_left', List.drop_left'] <;> rfl
theorem runStack_flatL {V : Type} (interp : Nat → List V → V) (ts : List RT) (st : List V) :
    runStack interp (flatL ts) st = evalL interp ts ++ st := by
  cases ts with
  | nil => simp [runStack, evalL]
  | cons t ts =>
    rw [flatL_cons, runStack_append, runStack_flatL interp ts st, runStack_flat interp t, evalL]
    simp
end

theorem eval_flat {V : Type} (interp : Nat → List V → V) (t : RT) :
    evalStack interp (flat t) = some (evalRT interp t) := by
  rw [evalStack_eq, runStack_flat]; rfl

mutual
theorem batch_pointwise {ι V : Type} (interp : ι → Nat → List V → V) (t : RT) (k : ι) :
    evalRT (fun s (args : List (ι → V)) => fun k => interp k s (args.map (· k))) t k =
      evalRT (interp k) t := by
  cases t with
  | node s ks =>
    simp only [evalRT]
    rw [batch_pointwiseL interp ks k]
theorem batch_pointwiseL {ι V : Type} (interp : ι → Nat → List V → V) (ts : List RT) (k : ι) :
    (evalL (fun s (args : List (ι → V)) => fun k => interp k s (args.map (· k))) ts).map (· k) =
      evalL (interp k) ts := by
  cases ts with
  | nil => simp [evalL]
  | cons t ts =>
    simp only [evalL, List.map_cons]
    rw [batch_pointwise interp t k, batch_pointwiseL interp ts k]
end

/-! ### rebind -/

theorem arities_rebind (ρ : Nat → Option Nat) (l : Flat) : arities (rebind ρ l) = arities l := by
  unfold arities rebind
  rw [List.map_map]
  apply List.map_congr_left
  intro n _
  simp only [Function.comp]
  split
  · split <;> rfl
  · rfl

theorem rebind_append (ρ : Nat → Option Nat) (a b : Flat) :
    rebind ρ (a ++ b) = rebind ρ a ++ rebind ρ b := by
  simp [rebind]

/-- the interpretation seen after `set_terminals` -/
def rebindInterp {V : Type} (interp : Nat → List V → V) (ρ : Nat → Option Nat) :
    Nat → List V → V :=
  fun s args => match args with
    | [] => interp ((ρ s).getD s) []
    | _ => interp s args

mutual
theorem runStack_rebind {V : Type} (interp : Nat → List V → V) (ρ : Nat → Option Nat) (t : RT)
    (st : List V) :
    runStack interp (rebind ρ (flat t)) st = evalRT (rebindInterp interp ρ) t :: st := by
  cases t with
  | node s ks =>
    have hcons : rebind ρ (flat (.node s ks)) =
        (if ks.length = 0 then ((ρ s).getD s, ks.length) else (s, ks.length)) ::
          rebind ρ (flatL ks) := by
      simp only [flat, rebind, List.map_cons, List.cons.injEq, and_true]
      split
      · cases ρ s <;> simp
      · rfl
    rw [hcons, runStack_cons, runStack_rebindL interp ρ ks st, stackStep, evalRT]
    have hl := evalL_length (rebindInterp interp ρ) ks
    cases ks with
    | nil => simp [evalL, rebindInterp]
    | cons k ks =>
      simp only [List.length_cons, Nat.add_one_ne_zero, if_false]
      rw [← List.length_cons, ← hl, List.take_left', List.drop_left'] <;> try rfl
theorem runStack_rebindL {V : Type} (interp : Nat → List V → V) (ρ : Nat → Option Nat)
    (ts : List RT) (st : List V) :
    runStack interp (rebind ρ (flatL ts)) st = evalL (rebindInterp interp ρ) ts ++ st := by
  cases ts with
  | nil => simp [runStack, evalL, rebind]
  | cons t ts =>
    rw [flatL_cons, rebind_append, runStack_append, runStack_rebindL interp ρ ts st,
      runStack_rebind interp ρ t, evalL]
    simp
end

theorem rebind_flat {V : Type} (interp : Nat → List V → V) (ρ : Nat → Option Nat) (t : RT) :
    arities (rebind ρ (flat t)) = arities (flat t) ∧
    evalStack interp (rebind ρ (flat t)) =
      some (evalRT (fun s args => match args with
        | [] => interp ((ρ s).getD s) []
        | _ => interp s args) t) := by
  refine ⟨arities_rebind ρ _, ?_⟩
  rw [evalStack_eq, runStack_rebind]; rfl

/-! ### equality -/

theorem eq_of_syms_eq (arity : Nat → Nat) (a b : Flat) (ha : ∀ n ∈ a, n.2 = arity n.1)
    (hb : ∀ n ∈ b, n.2 = arity n.1) (h : a.map (·.1) = b.map (·.1)) : a = b := by
  have key : ∀ l : Flat, (∀ n ∈ l, n.2 = arity n.1) →
      l = (l.map (·.1)).map (fun s => (s, arity s)) := by
    intro l hl
    rw [List.map_map]
    conv => lhs; rw [← List.map_id l]
    apply List.map_congr_left
    intro n hn
    obtain ⟨s, k⟩ := n
    have := hl _ hn
    simp at this
    simp [this]
  rw [key a ha, key b hb, h]

theorem eqTree_iff (arity : Nat → Nat) (a b : Flat) (ha : WF arity a) (hb : WF arity b) :
    eqTree a b = true ↔ a = b := by
  constructor
  · intro h
    unfold eqTree at h
    simp only [Bool.and_eq_true, beq_iff_eq] at h
    exact eq_of_syms_eq arity a b ha.2 hb.2 h.2
  · rintro rfl
    simp [eqTree]

end TFV.Tree
