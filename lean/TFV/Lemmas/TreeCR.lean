/-
  TFV.Lemmas.TreeCR — the common region of several trees: the coded loops (two-tree and k-tree
  versions) against the recursive specification `commonSpec`, and the crossovers that work inside
  the common region (one-point, uniform).
-/
import TFV.Lemmas.TreeOps

namespace TFV.Tree

/-! ### tuples of (tree, position) and of (forest, position) -/

abbrev Tup := List (List Nat) × List (List Nat)

def tapp (a b : Tup) : Tup := (a.1 ++ b.1, a.2 ++ b.2)

theorem tapp_assoc (a b c : Tup) : tapp (tapp a b) c = tapp a (tapp b c) := by
  simp [tapp]

@[simp] theorem tapp_nil_right (a : Tup) : tapp a ([], []) = a := by simp [tapp]

@[simp] theorem tapp_nil_left (a : Tup) : tapp ([], []) a = a := by simp [tapp]

/-- first tree of a forest -/
def hd (F : List RT) : RT := F.headD default

@[simp] theorem hd_cons (t : RT) (F : List RT) : hd (t :: F) = t := rfl

/-- the specification on a tuple of forests of `m` trees each, every forest paired with the position
    of its first node: the concatenation of the column-wise results -/
def specL (cs : List (RT × Nat) → Tup) : Nat → List (List RT × Nat) → Tup
  | 0, _ => ([], [])
  | m + 1, S => tapp (cs (S.map fun x => (hd x.1, x.2)))
      (specL cs m (S.map fun x => (x.1.tail, x.2 + (hd x.1).size)))

/-- `commonSpec` on a tuple of (tree, position of its root) -/
def cS (fuel : Nat) (S : List (RT × Nat)) : Tup := commonSpec fuel (S.map (·.1)) (S.map (·.2))

theorem sizeL_take_succ (ks : List RT) (n : Nat) (h : n < ks.length) :
    sizeL (ks.take (n + 1)) = sizeL (ks.take n) + ks[n].size := by
  rw [List.take_succ_eq_append_getElem h, sizeL_append, sizeL_cons]; simp

theorem hd_drop (ks : List RT) (n : Nat) : hd (ks.drop n) = ks.getD n default := by
  simp [hd, List.headD_eq_head?_getD, List.getD_eq_getElem?_getD]

theorem go_eq (fuel a : Nat) (S : List (RT × Nat)) (hS : ∀ x ∈ S, x.1.arity = a) (c : Nat)
    (hc : c ≤ a) (acc : Tup) :
    commonSpec.go fuel (S.map (·.1)) (S.map (·.2)) a c acc =
      tapp acc (specL (cS fuel) c
        (S.map fun x => (x.1.kids.drop (a - c), kidPos x.1 x.2 (a - c)))) := by
  induction c generalizing acc with
  | zero => simp [commonSpec.go.eq_1, specL]
  | succ c ih =>
    have e1 : (S.map (·.1)).map (fun t => t.kids.getD (a - 1 - c) default) =
        ((S.map fun x => (x.1.kids.drop (a - (c + 1)), kidPos x.1 x.2 (a - (c + 1)))).map
          fun x => (hd x.1, x.2)).map (·.1) := by
      simp only [List.map_map]
      apply List.map_congr_left
      intro x _
      simp only [Function.comp, hd_drop]
      congr 1; omega
    have e2 : ((S.map (·.1)).zip (S.map (·.2))).map (fun x => match x with
          | (t, p) => kidPos t p (a - 1 - c)) =
        ((S.map fun x => (x.1.kids.drop (a - (c + 1)), kidPos x.1 x.2 (a - (c + 1)))).map
          fun x => (hd x.1, x.2)).map (·.2) := by
      rw [List.zip_map']
      simp only [List.map_map]
      apply List.map_congr_left
      intro x _
      simp only [Function.comp]
      congr 1; omega
    have e3 : (S.map fun x => (x.1.kids.drop (a - (c + 1)), kidPos x.1 x.2 (a - (c + 1)))).map
          (fun x => (x.1.tail, x.2 + (hd x.1).size)) =
        S.map fun x => (x.1.kids.drop (a - c), kidPos x.1 x.2 (a - c)) := by
      simp only [List.map_map]
      apply List.map_congr_left
      intro x hx
      have hx' := hS x hx
      simp only [Function.comp, List.tail_drop, hd_drop]
      have e : a - (c + 1) + 1 = a - c := by omega
      rw [e]
      congr 1
      unfold kidPos
      unfold RT.arity at hx'
      have hlt : a - (c + 1) < x.1.kids.length := by omega
      rw [← e, sizeL_take_succ _ _ hlt]
      simp [List.getD_eq_getElem?_getD, hlt]
      omega
    rw [commonSpec.go.eq_2, ih (by omega), specL, cS, e1, e2, e3, ← tapp_assoc]
    rfl

theorem kidPos_zero (t : RT) (p : Nat) : kidPos t p 0 = p + 1 := by simp [kidPos]

/-- one unfolding of `commonSpec` -/
theorem cS_succ (fuel : Nat) (S : List (RT × Nat)) :
    cS (fuel + 1) S =
      if (S.all fun x => x.1.arity == (hd (S.map (·.1))).arity) = true then
        tapp ([S.map (·.2)], []) (specL (cS fuel) (hd (S.map (·.1))).arity
          (S.map fun x => (x.1.kids, x.2 + 1)))
      else ([S.map (·.2)], [S.map (·.2)]) := by
  unfold cS
  rw [commonSpec.eq_2]
  have e : ((S.map (·.1)).all fun (x_2 : RT) =>
        x_2.arity == ((S.map fun (x : RT × Nat) => x.1).headD default).arity) =
      (S.all fun (x : RT × Nat) =>
        x.1.arity == (hd (S.map fun (x : RT × Nat) => x.1)).arity) := by
    simp [List.all_map, hd, Function.comp_def]
  rw [e]
  split
  · rename_i h
    rw [go_eq fuel _ S (by simpa [hd] using h) _ (Nat.le_refl _)]
    simp [kidPos_zero, hd]
    rfl
  · rfl

theorem specL_congr (cs cs' : List (RT × Nat) → Tup) (B : Nat)
    (h : ∀ t p S, t.size ≤ B → cs ((t, p) :: S) = cs' ((t, p) :: S)) :
    ∀ (m : Nat) (F0 : List RT) (p0 : Nat) (S : List (List RT × Nat)), m ≤ F0.length →
      sizeL F0 ≤ B → specL cs m ((F0, p0) :: S) = specL cs' m ((F0, p0) :: S) := by
  intro m
  induction m with
  | zero => intros; simp [specL]
  | succ m ih =>
    intro F0 p0 S hm hB
    cases F0 with
    | nil => simp at hm
    | cons t F0 =>
      rw [sizeL_cons] at hB
      simp only [specL, List.map_cons, hd_cons, List.tail_cons]
      rw [h t p0 _ (by omega), ih F0 _ _ (by simpa using hm) (by omega)]

theorem kids_size (t : RT) : t.size = 1 + sizeL t.kids := by
  cases t with | node s ks => simp [RT.kids, size_node]

theorem cS_fuel_succ (G : Nat) : ∀ (t : RT) (p : Nat) (S : List (RT × Nat)), t.size ≤ G →
    cS G ((t, p) :: S) = cS (G + 1) ((t, p) :: S) := by
  induction G with
  | zero => intro t p S h; have := size_pos t; omega
  | succ G ih =>
    intro t p S h
    rw [cS_succ (G + 1), cS_succ G]
    split
    · congr 1
      simp only [List.map_cons, hd_cons]
      have := kids_size t
      exact specL_congr _ _ G ih _ _ _ _ (Nat.le_refl _) (by omega)
    · rfl

theorem cS_fuel_le (G G' : Nat) (hle : G ≤ G') (t : RT) (p : Nat) (S : List (RT × Nat))
    (h : t.size ≤ G) : cS G ((t, p) :: S) = cS G' ((t, p) :: S) := by
  induction G' with
  | zero => have : G = 0 := by omega
            subst this; rfl
  | succ G' ih =>
    by_cases hG : G = G' + 1
    · subst hG; rfl
    · rw [ih (by omega), cS_fuel_succ G' t p S (by omega)]

/-- `commonSpec` with the canonical fuel -/
def cspec (S : List (RT × Nat)) : Tup := cS (hd (S.map (·.1))).size S

theorem cspec_cons (t : RT) (p : Nat) (S : List (RT × Nat)) :
    cspec ((t, p) :: S) =
      if (S.all fun x => x.1.arity == t.arity) = true then
        tapp ([p :: S.map (·.2)], []) (specL cspec t.arity
          ((t.kids, p + 1) :: S.map fun x => (x.1.kids, x.2 + 1)))
      else ([p :: S.map (·.2)], [p :: S.map (·.2)]) := by
  unfold cspec
  simp only [List.map_cons, hd_cons]
  have hs := kids_size t
  obtain ⟨G, hG⟩ : ∃ G, t.size = G + 1 := ⟨t.size - 1, by have := size_pos t; omega⟩
  rw [hG, cS_succ]
  simp only [List.map_cons, hd_cons, List.all_cons, beq_self_eq_true, Bool.true_and]
  split
  · congr 1
    apply specL_congr _ _ G _ _ _ _ _ (Nat.le_refl _) (by omega)
    intro t' p' S' h'
    simp only [List.map_cons, hd_cons]
    exact (cS_fuel_le _ _ h' t' p' S' (Nat.le_refl _)).symm
  · rfl

theorem specL_append (cs : List (RT × Nat) → Tup) {α : Type} (L : List α) (m2 : Nat)
    (g : α → List RT) : ∀ (m1 : Nat) (f : α → List RT) (q : α → Nat),
    (∀ x ∈ L, (f x).length = m1) →
    specL cs (m1 + m2) (L.map fun x => (f x ++ g x, q x)) =
      tapp (specL cs m1 (L.map fun x => (f x, q x)))
        (specL cs m2 (L.map fun x => (g x, q x + sizeL (f x)))) := by
  intro m1
  induction m1 with
  | zero =>
    intro f q hf
    have e1 : (L.map fun x => (f x ++ g x, q x)) = L.map fun x => (g x, q x + sizeL (f x)) := by
      apply List.map_congr_left
      intro x hx
      have := hf x hx
      simp [List.length_eq_zero_iff.1 this]
    simp [specL, e1]
  | succ m1 ih =>
    intro f q hf
    have e0 : m1 + 1 + m2 = (m1 + m2) + 1 := by omega
    rw [e0, specL, specL, tapp_assoc]
    simp only [List.map_map, Function.comp_def]
    have e1 : (L.map fun x => (hd (f x ++ g x), q x)) = L.map fun x => (hd (f x), q x) := by
      apply List.map_congr_left
      intro x hx
      have := hf x hx
      cases hfx : f x with
      | nil => simp [hfx] at this
      | cons t F => simp
    have e2 : (L.map fun x => ((f x ++ g x).tail, q x + (hd (f x ++ g x)).size)) =
        L.map fun x => ((f x).tail ++ g x, q x + (hd (f x)).size) := by
      apply List.map_congr_left
      intro x hx
      have := hf x hx
      cases hfx : f x with
      | nil => simp [hfx] at this
      | cons t F => simp
    rw [e1, e2, ih (fun x => (f x).tail) (fun x => q x + (hd (f x)).size)
      (by intro x hx; have := hf x hx; simp; omega)]
    congr 3
    apply List.map_congr_left
    intro x hx
    have := hf x hx
    cases hfx : f x with
    | nil => simp [hfx] at this
    | cons t F => simp [sizeL_cons]; omega

/-- the specification on flattened forests: one node (equal arities) or one subtree (border)
    at a time -/
def csF : Nat → List (List RT × Nat) → Tup
  | 0, _ => ([], [])
  | _ + 1, [] => ([], [])
  | _ + 1, ([], _) :: _ => ([], [])
  | fuel + 1, (t :: F, p) :: S =>
    if (S.all fun x => (hd x.1).arity == t.arity) = true then
      tapp ([p :: S.map (·.2)], [])
        (csF fuel ((t.kids ++ F, p + 1) :: S.map fun x => ((hd x.1).kids ++ x.1.tail, x.2 + 1)))
    else
      tapp ([p :: S.map (·.2)], [p :: S.map (·.2)])
        (csF fuel ((F, p + t.size) :: S.map fun x => (x.1.tail, x.2 + (hd x.1).size)))

theorem csF_eq : ∀ (fuel m : Nat) (F0 : List RT) (p0 : Nat) (S : List (List RT × Nat)),
    F0.length = m → (∀ x ∈ S, x.1.length = m) → sizeL F0 ≤ fuel →
    csF fuel ((F0, p0) :: S) = specL cspec m ((F0, p0) :: S) := by
  intro fuel
  induction fuel with
  | zero =>
    intro m F0 p0 S hm hS hsz
    cases F0 with
    | nil => subst hm; simp [csF, specL]
    | cons t F => rw [sizeL_cons] at hsz; have := size_pos t; omega
  | succ fuel ih =>
    intro m F0 p0 S hm hS hsz
    cases F0 with
    | nil => subst hm; simp [csF, specL]
    | cons t F =>
      obtain ⟨m', rfl⟩ : ∃ m', m = m' + 1 := ⟨F.length, by simpa using hm.symm⟩
      have hm' : F.length = m' := by simpa using hm
      rw [sizeL_cons] at hsz
      have hks := kids_size t
      rw [csF, specL]
      simp only [List.map_cons, hd_cons, List.tail_cons]
      rw [cspec_cons]
      simp only [List.all_map, List.map_map, Function.comp_def]
      split
      · rename_i hall
        rw [tapp_assoc]
        congr 1
        have hL : ∀ x ∈ (t :: F, p0) :: S, ((fun x => (hd x.1).kids) x).length = t.arity := by
          intro x hx
          rcases List.mem_cons.1 hx with rfl | hx
          · rfl
          · have := List.all_eq_true.1 hall x hx
            simpa [RT.arity] using this
        have happ := specL_append cspec ((t :: F, p0) :: S) m' (fun x => x.1.tail) t.arity
          (fun x => (hd x.1).kids) (fun x => x.2 + 1) hL
        simp only [List.map_cons, hd_cons, List.tail_cons] at happ
        rw [ih (t.arity + m') _ _ _ (by simp [RT.arity, hm']) ?_ (by rw [sizeL_append]; omega),
          happ]
        · congr 3
          · congr 1; omega
          · apply List.map_congr_left
            intro x _
            have := kids_size (hd x.1)
            congr 1; omega
        · intro x hx
          obtain ⟨y, hy, rfl⟩ := List.mem_map.1 hx
          have h1 := hL y (List.mem_cons_of_mem _ hy)
          have h2 := hS y hy
          simp only [List.length_append, List.length_tail]
          simp only at h1
          omega
      · rw [ih m' _ _ _ hm' ?_ (by omega)]
        intro x hx
        obtain ⟨y, hy, rfl⟩ := List.mem_map.1 hx
        have h2 := hS y hy
        simp only [List.length_tail]; omega

/-! ### the two-tree loop -/

theorem firstDiff_ne (a b : Nat) (r1 r2 : List Nat) (h : a ≠ b) :
    firstDiff (a :: r1) (b :: r2) = 0 := by
  simp [firstDiff, h]

theorem firstDiff_eq (a x y : Nat) (r1 r2 : List Nat) :
    firstDiff (a :: x :: r1) (a :: y :: r2) = 1 + firstDiff (x :: r1) (y :: r2) := by
  simp [firstDiff]

theorem firstDiff_end (a b : Nat) : firstDiff [a] [b] = 0 := by
  simp [firstDiff]

def cr2add (acc : CR2) (r : Tup) : CR2 :=
  { c1 := acc.c1 ++ r.1.map (·.getD 0 0), c2 := acc.c2 ++ r.1.map (·.getD 1 0),
    b1 := acc.b1 ++ r.2.map (·.getD 0 0), b2 := acc.b2 ++ r.2.map (·.getD 1 0) }

theorem cr2add_nil (acc : CR2) : cr2add acc ([], []) = acc := by
  simp [cr2add]

theorem cr2add_tapp (acc : CR2) (r r' : Tup) : cr2add (cr2add acc r) r' = cr2add acc (tapp r r') := by
  simp [cr2add, tapp]

theorem lt_length_of_drop_eq_cons {l : List Nat} {i a : Nat} {r : List Nat} (h : l.drop i = a :: r) :
    i < l.length := by
  have := congrArg List.length h
  simp at this; omega

theorem drop_succ_of_drop_eq_cons {l : List Nat} {i a : Nat} {r : List Nat} (h : l.drop i = a :: r) :
    l.drop (i + 1) = r := by
  rw [← List.tail_drop, h]; rfl

theorem range_succ_map_add (e i : Nat) :
    (List.range (e + 1 + 1)).map (· + i) = i :: (List.range (e + 1)).map (· + (i + 1)) := by
  rw [List.range_succ_eq_map]
  simp only [List.map_cons, List.map_map, Nat.zero_add]
  congr 1
  apply List.map_congr_left
  intro x _; simp; omega

theorem cr2_exhausted (n1 n2 : List Nat) (fuel i1 i2 : Nat) (acc : CR2) (h1 : n1.length ≤ i1)
    (h2 : n2.length ≤ i2) : commonRegion2Aux n1 n2 fuel i1 i2 acc = acc := by
  cases fuel with
  | zero => rfl
  | succ fuel =>
    rw [commonRegion2Aux]
    have : ¬ (i1 < n1.length ∧ i2 < n2.length) := by omega
    simp only [this, if_false]
    have : ¬ (n1.length - 1 > i1 ∨ n2.length - 1 > i2) := by omega
    simp only [this, if_false]

theorem cr2_step_eq (n1 n2 : List Nat) (fuel i1 i2 : Nat) (acc : CR2) (a x y : Nat)
    (r1 r2 : List Nat) (h1 : n1.drop i1 = a :: x :: r1) (h2 : n2.drop i2 = a :: y :: r2) :
    commonRegion2Aux n1 n2 (fuel + 1) i1 i2 acc =
      commonRegion2Aux n1 n2 (fuel + 1) (i1 + 1) (i2 + 1)
        { acc with c1 := acc.c1 ++ [i1], c2 := acc.c2 ++ [i2] } := by
  have l1 := lt_length_of_drop_eq_cons h1
  have l2 := lt_length_of_drop_eq_cons h2
  have d1 := drop_succ_of_drop_eq_cons h1
  have d2 := drop_succ_of_drop_eq_cons h2
  have l1' := lt_length_of_drop_eq_cons d1
  have l2' := lt_length_of_drop_eq_cons d2
  rw [commonRegion2Aux, commonRegion2Aux]
  simp only [l1, l2, l1', l2', and_self, if_true, h1, h2, d1, d2, firstDiff_eq]
  have e : ∀ i : Nat, i + (1 + firstDiff (x :: r1) (y :: r2)) = i + 1 + firstDiff (x :: r1) (y :: r2) := by
    intro i; omega
  have e' : 1 + firstDiff (x :: r1) (y :: r2) + 1 = firstDiff (x :: r1) (y :: r2) + 1 + 1 := by omega
  simp only [e, e', range_succ_map_add, List.append_assoc, List.singleton_append]

theorem cr2_step_ne (n1 n2 : List Nat) (fuel i1 i2 : Nat) (acc : CR2) (a b : Nat)
    (r1 r2 : List Nat) (h1 : n1.drop i1 = a :: r1) (h2 : n2.drop i2 = b :: r2) (hab : a ≠ b)
    (hc : n1.length - 1 > i1 ∨ n2.length - 1 > i2) :
    commonRegion2Aux n1 n2 (fuel + 1) i1 i2 acc =
      commonRegion2Aux n1 n2 fuel (endSub i1 n1) (endSub i2 n2)
        { c1 := acc.c1 ++ [i1], c2 := acc.c2 ++ [i2], b1 := acc.b1 ++ [i1], b2 := acc.b2 ++ [i2] } := by
  have l1 := lt_length_of_drop_eq_cons h1
  have l2 := lt_length_of_drop_eq_cons h2
  rw [commonRegion2Aux]
  simp only [l1, l2, and_self, if_true, h1, h2, firstDiff_ne _ _ _ _ hab, Nat.add_zero, hc]
  simp

theorem cr2_step_end (n1 n2 : List Nat) (fuel i1 i2 : Nat) (acc : CR2) (a b : Nat)
    (h1 : n1.drop i1 = [a]) (h2 : n2.drop i2 = [b]) :
    commonRegion2Aux n1 n2 (fuel + 1) i1 i2 acc =
      { acc with c1 := acc.c1 ++ [i1], c2 := acc.c2 ++ [i2] } := by
  have l1 := lt_length_of_drop_eq_cons h1
  have l2 := lt_length_of_drop_eq_cons h2
  have e1 := congrArg List.length h1
  have e2 := congrArg List.length h2
  simp only [List.length_drop, List.length_singleton] at e1 e2
  rw [commonRegion2Aux]
  simp only [l1, l2, and_self, if_true, h1, h2, firstDiff_end, Nat.add_zero]
  have : ¬ (n1.length - 1 > i1 ∨ n2.length - 1 > i2) := by omega
  simp [this]

theorem length_le_sizeL (F : List RT) : F.length ≤ sizeL F := by
  induction F with
  | nil => simp
  | cons t F ih => rw [sizeL_cons]; have := size_pos t; simp; omega

theorem csF_nil (g p : Nat) (S : List (List RT × Nat)) : csF g (([], p) :: S) = ([], []) := by
  cases g <;> simp [csF]

theorem arities_flatL_length (F : List RT) : (arities (flatL F)).length = sizeL F := by
  rw [arities_length, size_flatL]

theorem endSub_of_drop (n : List Nat) (i : Nat) (t : RT) (rest : List Nat)
    (h : n.drop i = arities (flat t) ++ rest) : endSub i n = i + t.size := by
  unfold endSub
  rw [h, scan_flat t 0, scan_zero]; omega

theorem drop_of_drop (n : List Nat) (i : Nat) (t : RT) (rest : List Nat)
    (h : n.drop i = arities (flat t) ++ rest) : n.drop (i + t.size) = rest := by
  rw [← List.drop_drop, h, List.drop_left']
  rw [arities_length, size_flat]

theorem cr2_loop (n1 n2 : List Nat) : ∀ (g : Nat) (F1 F2 : List RT) (i1 i2 fuel : Nat) (acc : CR2),
    sizeL F1 ≤ g → sizeL F1 ≤ fuel → F1.length = F2.length →
    n1.drop i1 = arities (flatL F1) → n2.drop i2 = arities (flatL F2) →
    commonRegion2Aux n1 n2 fuel i1 i2 acc = cr2add acc (csF g [(F1, i1), (F2, i2)]) := by
  intro g
  induction g with
  | zero =>
    intro F1 F2 i1 i2 fuel acc hg _ hlen h1 h2
    have hl := length_le_sizeL F1
    have e1 : F1 = [] := List.length_eq_zero_iff.1 (by omega)
    have e2 : F2 = [] := List.length_eq_zero_iff.1 (by omega)
    subst e1 e2
    simp only [flatL_nil, arities_nil, List.drop_eq_nil_iff] at h1 h2
    rw [cr2_exhausted _ _ _ _ _ _ h1 h2, csF_nil, cr2add_nil]
  | succ g ih =>
    intro F1 F2 i1 i2 fuel acc hg hfuel hlen h1 h2
    match F1, F2, hlen with
    | [], [], _ =>
      simp only [flatL_nil, arities_nil, List.drop_eq_nil_iff] at h1 h2
      rw [cr2_exhausted _ _ _ _ _ _ h1 h2, csF_nil, cr2add_nil]
    | .node s1 ks1 :: F1, .node s2 ks2 :: F2, hlen =>
      rw [sizeL_cons, size_node] at hg hfuel
      obtain ⟨fuel, rfl⟩ : ∃ f, fuel = f + 1 := ⟨fuel - 1, by omega⟩
      have hlen' : F1.length = F2.length := by simpa using hlen
      rw [flatL_cons, arities_append] at h1 h2
      have hl1 := congrArg List.length h1
      have hl2 := congrArg List.length h2
      simp only [List.length_drop, List.length_append, arities_length, size_flat, size_flatL,
        size_node] at hl1 hl2
      have hk1 := length_le_sizeL ks1
      have hk2 := length_le_sizeL ks2
      rw [csF]
      simp only [List.all_cons, List.all_nil, Bool.and_true, hd_cons, RT.arity, RT.kids,
        List.map_cons, List.map_nil, List.tail_cons, beq_iff_eq]
      by_cases hab : ks2.length = ks1.length
      · simp only [hab, if_true]
        have h1' : n1.drop i1 = ks1.length :: arities (flatL (ks1 ++ F1)) := by
          rw [h1, arities_flat_node, flatL_append, arities_append]; rfl
        have h2' : n2.drop i2 = ks1.length :: arities (flatL (ks2 ++ F2)) := by
          rw [h2, arities_flat_node, flatL_append, arities_append, hab]; rfl
        have hR : (ks1 ++ F1).length = (ks2 ++ F2).length := by simp [hab, hlen']
        have hs1 := arities_flatL_length (ks1 ++ F1)
        have hs2 := arities_flatL_length (ks2 ++ F2)
        have hle1 := length_le_sizeL (ks1 ++ F1)
        have hle2 := length_le_sizeL (ks2 ++ F2)
        rw [← cr2add_tapp]
        cases hr1 : arities (flatL (ks1 ++ F1)) with
        | nil =>
          rw [hr1] at hs1 h1'
          have e1 : ks1 ++ F1 = [] := List.length_eq_zero_iff.1 (by simp at hs1; omega)
          have e2 : ks2 ++ F2 = [] := List.length_eq_zero_iff.1 (by rw [← hR, e1]; rfl)
          rw [e2] at h2'
          rw [cr2_step_end _ _ _ _ _ _ _ _ h1' h2', e1, csF_nil, cr2add_nil]
          simp [cr2add]
        | cons x r1 =>
          cases hr2 : arities (flatL (ks2 ++ F2)) with
          | nil =>
            rw [hr2] at hs2; rw [hr1] at hs1
            have e2 : (ks2 ++ F2).length = 0 := by simp only [List.length_nil] at hs2; omega
            have e1 : ks1 ++ F1 = [] := List.length_eq_zero_iff.1 (by omega)
            rw [e1] at hs1; simp at hs1
          | cons y r2 =>
            rw [hr1] at h1'; rw [hr2] at h2'
            rw [cr2_step_eq _ _ _ _ _ _ _ _ _ _ _ h1' h2']
            rw [ih (ks1 ++ F1) (ks2 ++ F2) (i1 + 1) (i2 + 1) (fuel + 1) _
              (by rw [sizeL_append]; omega) (by rw [sizeL_append]; omega) hR
              (by rw [drop_succ_of_drop_eq_cons h1', hr1])
              (by rw [drop_succ_of_drop_eq_cons h2', hr2])]
            simp [cr2add]
      · simp only [hab, if_false]
        have h1' : n1.drop i1 = ks1.length :: arities (flatL (ks1 ++ F1)) := by
          rw [h1, arities_flat_node, flatL_append, arities_append]; rfl
        have h2' : n2.drop i2 = ks2.length :: arities (flatL (ks2 ++ F2)) := by
          rw [h2, arities_flat_node, flatL_append, arities_append]; rfl
        rw [← cr2add_tapp]
        rw [cr2_step_ne _ _ _ _ _ _ _ _ _ _ h1' h2' (fun h => hab h.symm) (by omega)]
        rw [endSub_of_drop _ _ _ _ h1, endSub_of_drop _ _ _ _ h2]
        rw [ih F1 F2 _ _ fuel _ (by omega) (by omega) hlen' (drop_of_drop _ _ _ _ h1)
          (drop_of_drop _ _ _ _ h2)]
        simp [cr2add]

theorem commonSpec_eq_csF (t : RT) (ts : List RT) (g : Nat) (hg : t.size ≤ g) :
    commonSpec t.size (t :: ts) ((t :: ts).map fun _ => 0) =
      csF g (([t], 0) :: ts.map fun u => ([u], 0)) := by
  rw [csF_eq g 1 [t] 0 _ rfl (by simp) (by simpa [sizeL_cons] using hg)]
  simp only [specL, List.map_cons, hd_cons, List.map_map, Function.comp_def, tapp_nil_right]
  unfold cspec cS
  simp [Function.comp_def]

theorem common_region_spec_two (t1 t2 : RT) :
    commonRegion ([t1, t2].map fun t => arities (flat t)) =
      ((List.range 2).map fun j =>
          (commonSpec t1.size [t1, t2] ([t1, t2].map fun _ => 0)).1.map fun tp => tp.getD j 0,
       (List.range 2).map fun j =>
          (commonSpec t1.size [t1, t2] ([t1, t2].map fun _ => 0)).2.map fun tp => tp.getD j 0) := by
  rw [commonSpec_eq_csF t1 [t2] t1.size (Nat.le_refl _)]
  simp only [List.map_cons, List.map_nil, commonRegion, commonRegion2]
  rw [cr2_loop _ _ t1.size [t1] [t2] 0 0 _ _ (by simp [sizeL_cons])
    (by simp [sizeL_cons, size_flat]; omega) rfl (by simp [flatL_cons]) (by simp [flatL_cons])]
  simp [cr2add, List.range_succ]

/-! ### common tuples sit at equal levels -/

theorem getD_append_left' (l l' : List Nat) (n : Nat) (h : n < l.length) :
    (l ++ l').getD n 0 = l.getD n 0 := by
  simp [List.getD_eq_getElem?_getD, List.getElem?_append_left h]

theorem getD_append_right' (l l' : List Nat) (n : Nat) :
    (l ++ l').getD (l.length + n) 0 = l'.getD n 0 := by
  simp [List.getD_eq_getElem?_getD, List.getElem?_append_right]

/-- the property of a common tuple of two trees / forests whose first nodes sit at `p0`, `q0` -/
def LevelOK (lv1 lv2 : List Nat) (p0 q0 : Nat) (tp : List Nat) : Prop :=
  ∃ i j, tp = [p0 + i, q0 + j] ∧ i < lv1.length ∧ j < lv2.length ∧ lv1.getD i 0 = lv2.getD j 0

theorem levelOK_forest (B : Nat)
    (H : ∀ (t u : RT) (p0 q0 d : Nat), t.size ≤ B → ∀ tp ∈ (cspec [(t, p0), (u, q0)]).1,
      LevelOK (levelsRT d t) (levelsRT d u) p0 q0 tp) :
    ∀ (m : Nat) (F1 F2 : List RT) (p0 q0 d : Nat), sizeL F1 ≤ B → m ≤ F1.length → m ≤ F2.length →
      ∀ tp ∈ (specL cspec m [(F1, p0), (F2, q0)]).1,
        LevelOK (levelsL d F1) (levelsL d F2) p0 q0 tp := by
  intro m
  induction m with
  | zero => intro F1 F2 p0 q0 d _ _ _ tp htp; simp [specL] at htp
  | succ m ih =>
    intro F1 F2 p0 q0 d hB h1 h2 tp htp
    match F1, F2, h1, h2 with
    | t :: F1, u :: F2, h1, h2 =>
      rw [sizeL_cons] at hB
      simp only [specL, List.map_cons, List.map_nil, hd_cons, List.tail_cons, tapp,
        List.mem_append] at htp
      rcases htp with htp | htp
      · obtain ⟨i, j, rfl, hi, hj, hl⟩ := H t u p0 q0 d (by omega) tp htp
        refine ⟨i, j, rfl, ?_, ?_, ?_⟩
        · simp only [levelsL, List.length_append]; omega
        · simp only [levelsL, List.length_append]; omega
        · simp only [levelsL]
          rw [getD_append_left' _ _ _ hi, getD_append_left' _ _ _ hj, hl]
      · obtain ⟨i, j, rfl, hi, hj, hl⟩ := ih F1 F2 _ _ d (by omega) (by simpa using h1)
          (by simpa using h2) tp htp
        refine ⟨t.size + i, u.size + j, by simp [Nat.add_assoc], ?_, ?_, ?_⟩
        · simp only [levelsL, List.length_append, levelsRT_length]; omega
        · simp only [levelsL, List.length_append, levelsRT_length]; omega
        · simp only [levelsL]
          rw [← levelsRT_length d t, ← levelsRT_length d u, getD_append_right',
            getD_append_right', hl]

theorem levelOK_tree : ∀ (B : Nat) (t u : RT) (p0 q0 d : Nat), t.size ≤ B →
    ∀ tp ∈ (cspec [(t, p0), (u, q0)]).1, LevelOK (levelsRT d t) (levelsRT d u) p0 q0 tp := by
  intro B
  induction B with
  | zero => intro t u p0 q0 d h; have := size_pos t; omega
  | succ B ih =>
    intro t u p0 q0 d hB tp htp
    cases t with
    | node s ks =>
      cases u with
      | node s' ks' =>
        rw [size_node] at hB
        rw [cspec_cons] at htp
        simp only [List.all_cons, List.all_nil, Bool.and_true, RT.arity, RT.kids, List.map_cons,
          List.map_nil, beq_iff_eq] at htp
        have h0 : LevelOK (levelsRT d (.node s ks)) (levelsRT d (.node s' ks')) p0 q0 [p0, q0] :=
          ⟨0, 0, rfl, by simp [levelsRT], by simp [levelsRT], by simp [levelsRT]⟩
        split at htp
        · rename_i hk
          simp only [tapp, List.singleton_append, List.mem_cons] at htp
          rcases htp with rfl | htp
          · exact h0
          · obtain ⟨i, j, rfl, hi, hj, hl⟩ := levelOK_forest B ih ks.length ks ks' (p0 + 1) (q0 + 1)
              (d + 1) (by omega) (Nat.le_refl _) (by omega) tp htp
            refine ⟨i + 1, j + 1, by simp; omega, ?_, ?_, ?_⟩
            · simp only [levelsRT, List.length_cons]; omega
            · simp only [levelsRT, List.length_cons]; omega
            · simp only [levelsRT, List.getD_cons_succ, hl]
        · simp only [List.mem_singleton] at htp
          subst htp; exact h0

theorem commonRegion2_flat (t u : RT) :
    commonRegion2 (arities (flat t)) (arities (flat u)) = cr2add {} (cspec [(t, 0), (u, 0)]) := by
  unfold commonRegion2
  rw [cr2_loop _ _ t.size [t] [u] 0 0 _ _ (by simp [sizeL_cons])
    (by simp [sizeL_cons, size_flat]; omega) rfl (by simp [flatL_cons]) (by simp [flatL_cons])]
  rw [csF_eq t.size 1 [t] 0 _ rfl (by simp) (by simp [sizeL_cons])]
  simp [specL]

/-- every pair of the common lists of two trees: valid indices at equal levels -/
theorem commonRegion2_levels (a b : Flat) (ha : wfAux 1 (arities a) = true)
    (hb : wfAux 1 (arities b) = true) (k : Nat)
    (hk : k < (commonRegion2 (arities a) (arities b)).c1.length) :
    let r := commonRegion2 (arities a) (arities b)
    r.c1.getD k 0 < a.length ∧ r.c2.getD k 0 < b.length ∧
      (levels 0 (arities a)).getD (r.c1.getD k 0) 0 = (levels 0 (arities b)).getD (r.c2.getD k 0) 0 := by
  obtain ⟨t, rfl⟩ := parse a ha
  obtain ⟨u, rfl⟩ := parse b hb
  intro r
  have hr : r = cr2add {} (cspec [(t, 0), (u, 0)]) := commonRegion2_flat t u
  have hk' : k < (cspec [(t, 0), (u, 0)]).1.length := by
    have : r.c1.length = (cspec [(t, 0), (u, 0)]).1.length := by rw [hr]; simp [cr2add]
    rw [← this]; exact hk
  obtain ⟨i, j, htp, hi, hj, hl⟩ := levelOK_tree t.size t u 0 0 0 (Nat.le_refl _) _
    (List.getElem_mem hk')
  have e1 : r.c1.getD k 0 = i := by
    rw [hr]; simp [cr2add, List.getD_eq_getElem?_getD, hk', htp]
  have e2 : r.c2.getD k 0 = j := by
    rw [hr]; simp [cr2add, List.getD_eq_getElem?_getD, hk', htp]
  rw [e1, e2, levels_flat_self, levels_flat_self, size_flat, size_flat]
  rw [levelsRT_length] at hi hj
  exact ⟨hi, hj, hl⟩

theorem onePointX_spec (arity : Nat → Nat) (a b : Flat) (ha : WF arity a) (hb : WF arity b)
    (k : Nat) (hk : k < (commonRegion2 (arities a) (arities b)).c1.length) (coin : Bool) :
    WF arity (onePointX a b k coin) ∧ depth (onePointX a b k coin) ≤ max (depth a) (depth b) := by
  obtain ⟨hp, hq, hl⟩ := commonRegion2_levels a b ha.1 hb.1 k hk
  unfold onePointX
  simp only
  generalize (commonRegion2 (arities a) (arities b)).c1.getD k 0 = p at hp hl
  generalize (commonRegion2 (arities a) (arities b)).c2.getD k 0 = q at hq hl
  cases coin with
  | true =>
    simp only [if_true]
    have hs := subtree_wf arity a ha p hp
    refine ⟨concat_wf arity b _ hb hs q hq, ?_⟩
    have h1 := depth_concat b _ hb.1 hs.1 q hq
    have h2 := level_add_depth_subtree_le a ha.1 p hp
    omega
  | false =>
    simp only [Bool.false_eq_true, if_false]
    have hs := subtree_wf arity b hb q hq
    refine ⟨concat_wf arity a _ ha hs p hp, ?_⟩
    have h1 := depth_concat a _ ha.1 hs.1 p hp
    have h2 := level_add_depth_subtree_le b hb.1 q hq
    omega

/-! ### the k-tree loop -/

def kIters (ars : List (List Nat)) (starts : List Nat) : Nat :=
  ((ars.zip starts).map fun (ar, s) => ar.length - s).foldl min
    (((ars.zip starts).map fun (ar, s) => ar.length - s).headD 0)

/-- one iteration of the k-tree loop: the new state and the `terminate` flag -/
def kIter (ars : List (List Nat)) (st : CRk) : CRk × Bool :=
  let sc := crkScan ars st.starts (kIters ars st.starts) 0
  let ad := commonRegionKAux.adv sc.1 ars st.starts [] false
  ({ starts := ad.1,
     common := (st.common.zip st.starts).map fun (c, s) => c ++ (List.range sc.1).map (· + s),
     border := if sc.2 then (st.border.zip st.starts).map fun (b, s) => b ++ [s + sc.1 - 1]
               else st.border }, ad.2)

theorem kAux_succ (ars : List (List Nat)) (fuel : Nat) (st : CRk) :
    commonRegionKAux ars (fuel + 1) st =
      if (kIter ars st).2 = true then (kIter ars st).1
      else commonRegionKAux ars fuel (kIter ars st).1 := by
  rw [commonRegionKAux.eq_2]
  rfl

theorem crkScan_shift (ars : List (List Nat)) (starts : List Nat) : ∀ (f i : Nat),
    crkScan ars starts f (i + 1) =
      ((crkScan ars (starts.map (· + 1)) f i).1 + 1, (crkScan ars (starts.map (· + 1)) f i).2) := by
  intro f
  induction f with
  | zero => intro i; simp [crkScan]
  | succ f ih =>
    intro i
    have e : ((ars.zip (starts.map (· + 1))).map fun (ar, s) => ar.getD (s + i) 0) =
        (ars.zip starts).map fun (ar, s) => ar.getD (s + (i + 1)) 0 := by
      rw [List.zip_map_right, List.map_map]
      apply List.map_congr_left
      intro x _
      simp only [Function.comp, Prod.map, id]
      congr 1; omega
    rw [crkScan, crkScan]
    simp only [e]
    split
    · rw [ih]
    · rfl

theorem foldl_min_sub (l : List Nat) : ∀ a : Nat,
    (l.map (· - 1)).foldl min (a - 1) = l.foldl min a - 1 := by
  induction l with
  | nil => intro a; rfl
  | cons x l ih =>
    intro a
    simp only [List.map_cons, List.foldl_cons]
    have : min (a - 1) (x - 1) = min a x - 1 := by omega
    rw [this, ih]

theorem kIters_shift (ars : List (List Nat)) (starts : List Nat) :
    kIters ars (starts.map (· + 1)) = kIters ars starts - 1 := by
  unfold kIters
  have e : ((ars.zip (starts.map (· + 1))).map fun (ar, s) => ar.length - s) =
      ((ars.zip starts).map fun (ar, s) => ar.length - s).map (· - 1) := by
    rw [List.zip_map_right, List.map_map, List.map_map]
    apply List.map_congr_left
    intro x _
    simp only [Function.comp, Prod.map, id]
    omega
  rw [e, ← foldl_min_sub]
  congr 1
  cases (ars.zip starts).map fun (ar, s) => ar.length - s <;> simp

theorem zip_map_zip {α β γ δ : Type} (F : α × β → γ) (g : β → β) (H : γ × β → δ) (K : α × β → δ)
    (h : ∀ c s, H (F (c, s), g s) = K (c, s)) : ∀ (C : List α) (ss : List β),
    (((C.zip ss).map F).zip (ss.map g)).map H = (C.zip ss).map K := by
  intro C
  induction C with
  | nil => intro ss; simp
  | cons c C ih =>
    intro ss
    cases ss with
    | nil => simp
    | cons s ss => simp [h, ih]

theorem adv_shift (v : Nat) : ∀ (ars : List (List Nat)) (ss acc : List Nat), ss.length = ars.length →
    (commonRegionKAux.adv (v + 1) ars ss acc false).2 =
      (commonRegionKAux.adv v ars (ss.map (· + 1)) acc false).2 ∧
    ((commonRegionKAux.adv (v + 1) ars ss acc false).2 = false →
      (commonRegionKAux.adv (v + 1) ars ss acc false).1 =
        (commonRegionKAux.adv v ars (ss.map (· + 1)) acc false).1) := by
  intro ars
  induction ars with
  | nil =>
    intro ss acc hl
    have : ss = [] := List.length_eq_zero_iff.1 (by simpa using hl)
    subst this
    simp [commonRegionKAux.adv]
  | cons ar ars ih =>
    intro ss acc hl
    cases ss with
    | nil => simp at hl
    | cons s ss =>
      simp only [List.map_cons, commonRegionKAux.adv.eq_1]
      have e : s + (v + 1) - 1 = s + 1 + v - 1 := by omega
      rw [e]
      split
      · simp
      · exact ih ss _ (by simpa using hl)

def res (st : CRk) : List (List Nat) × List (List Nat) := (st.common, st.border)

theorem crkScan_succ_eq (ars : List (List Nat)) (starts : List Nat) (f : Nat)
    (hcol : (((ars.zip starts).map fun (ar, s) => ar.getD s 0).all
      (· == ((ars.zip starts).map fun (ar, s) => ar.getD s 0).headD 0)) = true) :
    crkScan ars starts (f + 1) 0 =
      ((crkScan ars (starts.map (· + 1)) f 0).1 + 1, (crkScan ars (starts.map (· + 1)) f 0).2) := by
  rw [crkScan]
  simp only [Nat.add_zero, hcol, if_true]
  exact crkScan_shift ars starts f 0

theorem kstep_eq (ars : List (List Nat)) (fuel : Nat) (starts : List Nat) (C B : List (List Nat))
    (hlen : starts.length = ars.length) (hit : 2 ≤ kIters ars starts)
    (hcol : (((ars.zip starts).map fun (ar, s) => ar.getD s 0).all
      (· == ((ars.zip starts).map fun (ar, s) => ar.getD s 0).headD 0)) = true) :
    res (commonRegionKAux ars (fuel + 1) { starts := starts, common := C, border := B }) =
      res (commonRegionKAux ars (fuel + 1)
        { starts := starts.map (· + 1),
          common := (C.zip starts).map (fun (c, s) => c ++ [s]), border := B }) := by
  obtain ⟨it, hit'⟩ : ∃ it, kIters ars starts = it + 1 := ⟨kIters ars starts - 1, by omega⟩
  have hit1 : kIters ars (starts.map (· + 1)) = it := by rw [kIters_shift, hit']; rfl
  rw [kAux_succ, kAux_succ]
  simp only [kIter, hit', hit1, crkScan_succ_eq ars starts it hcol]
  generalize (crkScan ars (starts.map (· + 1)) it 0).1 = v1
  generalize (crkScan ars (starts.map (· + 1)) it 0).2 = b1
  obtain ⟨ha1, ha2⟩ := adv_shift v1 ars starts [] hlen
  have ecom : ((C.zip starts).map fun (c, s) => c ++ (List.range (v1 + 1)).map (· + s)) =
      ((((C.zip starts).map fun (c, s) => c ++ [s]).zip (starts.map (· + 1))).map
        fun (c, s) => c ++ (List.range v1).map (· + s)) := by
    symm
    apply zip_map_zip
    intro c s
    simp only [List.append_assoc, List.singleton_append]
    congr 1
    rw [List.range_succ_eq_map]
    simp only [List.map_cons, List.map_map, Nat.zero_add]
    congr 1
    apply List.map_congr_left
    intro x _; simp; omega
  have ebor : ((B.zip starts).map fun (b, s) => b ++ [s + (v1 + 1) - 1]) =
      ((B.zip (starts.map (· + 1))).map fun (b, s) => b ++ [s + v1 - 1]) := by
    rw [List.zip_map_right, List.map_map]
    apply List.map_congr_left
    intro x _
    simp only [Function.comp, Prod.map, id]
    congr 2
    omega
  rw [ecom, ebor, ← ha1]
  cases hterm : (commonRegionKAux.adv (v1 + 1) ars starts [] false).2 with
  | true => simp [res]
  | false =>
    rw [← ha2 hterm]

inductive All2 {α β : Type} (R : α → β → Prop) : List α → List β → Prop
  | nil : All2 R [] []
  | cons {a b l l'} : R a b → All2 R l l' → All2 R (a :: l) (b :: l')

theorem All2.length_eq {α β : Type} {R : α → β → Prop} {l : List α} {l' : List β}
    (h : All2 R l l') : l.length = l'.length := by
  induction h with
  | nil => rfl
  | cons _ _ ih => simp [ih]

/-- each arity array, from its start on, is the flattened remaining forest -/
def KInv (ars : List (List Nat)) (S : List (List RT × Nat)) : Prop :=
  All2 (fun ar x => ar.drop x.2 = arities (flatL x.1)) ars S

theorem forall2_zip_map {α β γ δ : Type} {R : α → β → Prop} {ars : List α} {S : List β}
    (h : All2 R ars S) (sel : β → γ) (f : α × γ → δ) (g : β → δ)
    (hfg : ∀ ar x, R ar x → f (ar, sel x) = g x) :
    (ars.zip (S.map sel)).map f = S.map g := by
  induction h with
  | nil => simp
  | cons h1 _ ih => simp [hfg _ _ h1, ih]

theorem KInv_length {ars : List (List Nat)} {S : List (List RT × Nat)} (h : KInv ars S) :
    ars.length = S.length := All2.length_eq h

theorem foldl_min_ge (lo : Nat) (l : List Nat) : ∀ a : Nat, (∀ x ∈ l, lo ≤ x) → lo ≤ a →
    lo ≤ l.foldl min a := by
  induction l with
  | nil => intro a _ h; exact h
  | cons x l ih =>
    intro a hl ha
    simp only [List.foldl_cons]
    apply ih
    · intro y hy; exact hl y (List.mem_cons_of_mem _ hy)
    · have := hl x (by simp); omega

theorem foldl_min_le (l : List Nat) : ∀ a : Nat, l.foldl min a ≤ a := by
  induction l with
  | nil => intro a; exact Nat.le_refl _
  | cons x l ih =>
    intro a
    simp only [List.foldl_cons]
    have := ih (min a x); omega

theorem kIters_eq {ars : List (List Nat)} {S : List (List RT × Nat)} (h : KInv ars S) :
    kIters ars (S.map (·.2)) =
      (S.map fun x => sizeL x.1).foldl min ((S.map fun x => sizeL x.1).headD 0) := by
  unfold kIters
  rw [forall2_zip_map h (·.2) (fun (ar, s) => ar.length - s) (fun x => sizeL x.1)]
  intro ar x hx
  have := congrArg List.length hx
  simp only [List.length_drop, arities_flatL_length] at this
  exact this

theorem kIters_ge {ars : List (List Nat)} {S : List (List RT × Nat)} (h : KInv ars S) (lo : Nat)
    (hS : S ≠ []) (hlo : ∀ x ∈ S, lo ≤ sizeL x.1) : lo ≤ kIters ars (S.map (·.2)) := by
  rw [kIters_eq h]
  apply foldl_min_ge
  · intro y hy
    obtain ⟨x, hx, rfl⟩ := List.mem_map.1 hy
    exact hlo x hx
  · cases S with
    | nil => exact absurd rfl hS
    | cons x S => simpa using hlo x (by simp)

theorem kIters_le {ars : List (List Nat)} {S : List (List RT × Nat)} (h : KInv ars S)
    (x : List RT × Nat) (S' : List (List RT × Nat)) (hS : S = x :: S') :
    kIters ars (S.map (·.2)) ≤ sizeL x.1 := by
  rw [kIters_eq h]
  subst hS
  exact foldl_min_le _ _

theorem getD_of_drop (ar : List Nat) (p : Nat) (t : RT) (rest : List Nat)
    (h : ar.drop p = arities (flat t) ++ rest) : ar.getD p 0 = t.arity := by
  have : (ar.drop p)[0]? = some t.arity := by
    rw [h]; cases t with | node s ks => simp [arities_flat_node, RT.arity, RT.kids]
  rw [List.getElem?_drop, Nat.add_zero] at this
  simp [List.getD_eq_getElem?_getD, this]

theorem kcol_eq {ars : List (List Nat)} {S : List (List RT × Nat)} (h : KInv ars S)
    (hne : ∀ x ∈ S, x.1 ≠ []) :
    ((ars.zip (S.map (·.2))).map fun (ar, s) => ar.getD s 0) = S.map fun x => (hd x.1).arity := by
  have h' : All2 (fun ar x => ar.drop x.2 = arities (flatL x.1) ∧ x.1 ≠ []) ars S := by
    induction h with
    | nil => exact .nil
    | cons h1 _ ih =>
      exact .cons ⟨h1, hne _ (by simp)⟩ (ih fun x hx => hne x (List.mem_cons_of_mem _ hx))
  apply forall2_zip_map h' (·.2) (fun (ar, s) => ar.getD s 0) (fun x => (hd x.1).arity)
  intro ar x ⟨hx, hxne⟩
  obtain ⟨F, p⟩ := x
  cases F with
  | nil => exact absurd rfl hxne
  | cons t F =>
    simp only [flatL_cons, arities_append] at hx
    exact getD_of_drop ar p t _ hx

theorem adv_run : ∀ (ars : List (List Nat)) (S : List (List RT × Nat)) (acc : List Nat),
    KInv ars S → (∀ x ∈ S, 2 ≤ x.1.length) →
    commonRegionKAux.adv 1 ars (S.map (·.2)) acc false =
      (acc.reverse ++ S.map (fun x => x.2 + (hd x.1).size), false) := by
  intro ars S acc h
  induction h generalizing acc with
  | nil => intro _; simp [commonRegionKAux.adv]
  | @cons ar x ars S h1 _ ih =>
    intro h2
    obtain ⟨F, p⟩ := x
    have hF := h2 (F, p) (by simp)
    match F, hF with
    | t :: u :: F, _ =>
      simp only [flatL_cons, arities_append] at h1
      have hl := congrArg List.length h1
      simp only [List.length_drop, List.length_append, arities_length, size_flat] at hl
      have hu := size_pos u
      simp only [List.map_cons, commonRegionKAux.adv.eq_1, Nat.add_sub_cancel]
      rw [endSub_of_drop ar p t _ h1]
      have : ¬ ar.length ≤ p + t.size := by omega
      simp only [this, if_false]
      rw [ih _ (fun x hx => h2 x (List.mem_cons_of_mem _ hx))]
      simp

theorem adv_term (ar : List Nat) (ars : List (List Nat)) (t : RT) (p : Nat) (ss acc : List Nat)
    (h : ar.drop p = arities (flatL [t])) :
    (commonRegionKAux.adv 1 (ar :: ars) (p :: ss) acc false).2 = true := by
  simp only [flatL_cons, flatL_nil, List.append_nil] at h
  have h' : ar.drop p = arities (flat t) ++ [] := by simpa using h
  have hl := congrArg List.length h
  simp only [List.length_drop, arities_length, size_flat] at hl
  simp only [commonRegionKAux.adv.eq_1, Nat.add_sub_cancel]
  rw [endSub_of_drop ar p t _ h']
  have : ar.length ≤ p + t.size := by omega
  simp [this]

/-- append one position to every column -/
def appCol (C : List (List Nat)) (ss : List Nat) : List (List Nat) :=
  (C.zip ss).map fun (c, s) => c ++ [s]

theorem crkScan_ne (ars : List (List Nat)) (starts : List Nat) (f : Nat)
    (hcol : (((ars.zip starts).map fun (ar, s) => ar.getD s 0).all
      (· == ((ars.zip starts).map fun (ar, s) => ar.getD s 0).headD 0)) = false) :
    crkScan ars starts (f + 1) 0 = (1, true) := by
  rw [crkScan]
  simp only [Nat.add_zero, hcol]
  simp

theorem range_one_map (s : Nat) : (List.range 1).map (· + s) = [s] := by
  simp [List.range_succ]

theorem kstep_ne (ars : List (List Nat)) (S : List (List RT × Nat))
    (C B : List (List Nat)) (h : KInv ars S) (hS : S ≠ []) (hne : ∀ x ∈ S, x.1 ≠ [])
    (hcol : ((S.map fun x => (hd x.1).arity).all
      (· == (S.map fun x => (hd x.1).arity).headD 0)) = false) :
    (kIter ars { starts := S.map (·.2), common := C, border := B }).1.common =
        appCol C (S.map (·.2)) ∧
    (kIter ars { starts := S.map (·.2), common := C, border := B }).1.border =
        appCol B (S.map (·.2)) ∧
    (kIter ars { starts := S.map (·.2), common := C, border := B }).2 =
      (commonRegionKAux.adv 1 ars (S.map (·.2)) [] false).2 ∧
    (kIter ars { starts := S.map (·.2), common := C, border := B }).1.starts =
      (commonRegionKAux.adv 1 ars (S.map (·.2)) [] false).1 := by
  have hit := kIters_ge h 1 hS (fun x hx => by
    have := length_le_sizeL x.1
    have : x.1.length ≠ 0 := fun h0 => hne x hx (List.length_eq_zero_iff.1 h0)
    omega)
  obtain ⟨it, hit'⟩ : ∃ it, kIters ars (S.map (·.2)) = it + 1 := ⟨_, (Nat.sub_add_cancel hit).symm⟩
  rw [← kcol_eq h hne] at hcol
  simp only [kIter, hit', crkScan_ne ars _ it hcol, range_one_map, Nat.add_sub_cancel, if_true,
    appCol, and_self]

theorem crkScan_one_eq (ars : List (List Nat)) (starts : List Nat)
    (hcol : (((ars.zip starts).map fun (ar, s) => ar.getD s 0).all
      (· == ((ars.zip starts).map fun (ar, s) => ar.getD s 0).headD 0)) = true) :
    crkScan ars starts 1 0 = (1, false) := by
  rw [crkScan]
  simp only [Nat.add_zero, hcol, if_true]
  rfl

theorem kstep_end (ars : List (List Nat)) (S : List (List RT × Nat))
    (C B : List (List Nat)) (h : KInv ars S) (x0 : List RT × Nat) (S' : List (List RT × Nat))
    (hS : S = x0 :: S') (hone : ∀ x ∈ S, sizeL x.1 = 1)
    (hcol : ((S.map fun x => (hd x.1).arity).all
      (· == (S.map fun x => (hd x.1).arity).headD 0)) = true) :
    (kIter ars { starts := S.map (·.2), common := C, border := B }).1.common =
        appCol C (S.map (·.2)) ∧
    (kIter ars { starts := S.map (·.2), common := C, border := B }).1.border = B ∧
    (kIter ars { starts := S.map (·.2), common := C, border := B }).2 =
      (commonRegionKAux.adv 1 ars (S.map (·.2)) [] false).2 := by
  have hne : ∀ x ∈ S, x.1 ≠ [] := by
    intro x hx h0
    have := hone x hx
    rw [h0] at this; simp at this
  have hit := kIters_ge h 1 (by rw [hS]; simp) (fun x hx => by rw [hone x hx]; exact Nat.le_refl _)
  have hit2 := kIters_le h x0 S' hS
  rw [hone x0 (by rw [hS]; simp)] at hit2
  have hit' : kIters ars (S.map (·.2)) = 1 := by omega
  rw [← kcol_eq h hne] at hcol
  simp only [kIter, hit', crkScan_one_eq ars _ hcol, range_one_map, appCol]
  simp

theorem All2.map_right {α β γ : Type} {R : α → β → Prop} {R' : α → γ → Prop} {l : List α}
    {l' : List β} (f : β → γ) (h : All2 R l l') (hf : ∀ a b, b ∈ l' → R a b → R' a (f b)) :
    All2 R' l (l'.map f) := by
  induction h with
  | nil => exact .nil
  | cons h1 _ ih =>
    exact .cons (hf _ _ (by simp) h1) (ih fun a b hb => hf a b (List.mem_cons_of_mem _ hb))

def colsApp (C : List (List Nat)) : List (List Nat) → List (List Nat)
  | [] => C
  | tp :: r => colsApp (appCol C tp) r

theorem sizeL_singleton_leaf (F : List RT) (h1 : F.length = 1) (h2 : (hd F).kids.length = 0) :
    sizeL F = 1 := by
  match F, h1 with
  | [u], _ =>
    have := kids_size u
    simp only [hd_cons] at h2
    rw [List.length_eq_zero_iff.1 h2] at this
    simp [sizeL_cons, this]

theorem k_loop (ars : List (List Nat)) : ∀ (g : Nat) (F0 : List RT) (p0 : Nat)
    (S' : List (List RT × Nat)) (fuel : Nat) (C B : List (List Nat)),
    F0 ≠ [] → (∀ x ∈ S', x.1.length = F0.length) → sizeL F0 ≤ g → sizeL F0 ≤ fuel →
    KInv ars ((F0, p0) :: S') →
    res (commonRegionKAux ars fuel
        { starts := ((F0, p0) :: S').map (·.2), common := C, border := B }) =
      (colsApp C (csF g ((F0, p0) :: S')).1, colsApp B (csF g ((F0, p0) :: S')).2) := by
  intro g
  induction g with
  | zero =>
    intro F0 p0 S' fuel C B hne _ hg
    have := length_le_sizeL F0
    exact absurd (List.length_eq_zero_iff.1 (by omega)) hne
  | succ g ih =>
    intro F0 p0 S' fuel C B hne hS' hg hfuel hinv
    match F0, hne with
    | t :: F, _ =>
    rw [sizeL_cons] at hg hfuel
    have htpos := size_pos t
    obtain ⟨fuel, rfl⟩ : ∃ f, fuel = f + 1 := ⟨fuel - 1, by omega⟩
    have hSall : ∀ x ∈ (t :: F, p0) :: S', x.1.length = F.length + 1 := by
      intro x hx
      rcases List.mem_cons.1 hx with rfl | hx
      · rfl
      · simpa using hS' x hx
    have hSne : ∀ x ∈ (t :: F, p0) :: S', x.1 ≠ [] := by
      intro x hx h0
      have := hSall x hx
      rw [h0] at this; simp at this
    have hcolconv : ((((t :: F, p0) :: S').map fun x => (hd x.1).arity).all
        (· == (((t :: F, p0) :: S').map fun x => (hd x.1).arity).headD 0)) =
        (S'.all fun x => (hd x.1).arity == t.arity) := by
      simp [List.all_map, Function.comp_def]
    rw [csF]
    by_cases hall : (S'.all fun x => (hd x.1).arity == t.arity) = true
    · simp only [hall, if_true]
      have harity : ∀ x ∈ (t :: F, p0) :: S', (hd x.1).kids.length = t.kids.length := by
        intro x hx
        rcases List.mem_cons.1 hx with rfl | hx
        · rfl
        · have := List.all_eq_true.1 hall x hx
          simpa [RT.arity] using this
      by_cases hR : t.kids ++ F = []
      · -- the last node of every tree
        have hk : t.kids = [] := (List.append_eq_nil_iff.1 hR).1
        have hF : F = [] := (List.append_eq_nil_iff.1 hR).2
        have hone : ∀ x ∈ (t :: F, p0) :: S', sizeL x.1 = 1 := by
          intro x hx
          apply sizeL_singleton_leaf
          · rw [hSall x hx, hF]; rfl
          · rw [harity x hx, hk]; rfl
        obtain ⟨e1, e2, e3⟩ := kstep_end ars _ C B hinv _ _ rfl hone (by rw [hcolconv]; exact hall)
        have hterm : (commonRegionKAux.adv 1 ars (((t :: F, p0) :: S').map (·.2)) [] false).2 =
            true := by
          cases hinv with
          | cons h1 _ =>
            subst hF
            exact adv_term _ _ t p0 _ _ h1
        rw [kAux_succ, e3, hterm]
        simp only [if_true, res, e1, e2]
        simp only [hR, csF_nil, tapp, List.append_nil, colsApp, List.map_cons]
      · have hlen := KInv_length hinv
        have hit : 2 ≤ kIters ars (((t :: F, p0) :: S').map (·.2)) := by
          apply kIters_ge hinv 2 (by simp)
          intro x hx
          obtain ⟨Fx, px⟩ := x
          have h1 := hSall _ hx
          have h2 := harity _ hx
          match Fx, h1 with
          | u :: Fx, h1 =>
            simp only [hd_cons] at h2
            have h3 := length_le_sizeL u.kids
            have h4 := length_le_sizeL Fx
            have h5 := kids_size u
            have h6 : (t.kids ++ F).length ≠ 0 := fun h0 => hR (List.length_eq_zero_iff.1 h0)
            simp only [List.length_append, List.length_cons] at h6 h1
            simp only [sizeL_cons]
            omega
        have hcol := hcolconv.trans hall
        rw [← kcol_eq hinv hSne] at hcol
        rw [kstep_eq ars fuel _ C B (by simp [hlen]) hit hcol]
        have hinv1 : KInv ars (((t :: F, p0) :: S').map
            fun x => ((hd x.1).kids ++ x.1.tail, x.2 + 1)) := by
          apply All2.map_right _ hinv
          intro ar x hx hdrop
          obtain ⟨Fx, px⟩ := x
          have h1 := hSall _ hx
          match Fx, h1 with
          | .node su ksu :: Fx, h1 =>
            simp only [hd_cons, RT.kids, List.tail_cons]
            have : ar.drop px = ksu.length :: arities (flatL (ksu ++ Fx)) := by
              rw [hdrop, flatL_cons, arities_append, arities_flat_node, flatL_append,
                arities_append]; rfl
            exact drop_succ_of_drop_eq_cons this
        have hks := kids_size t
        have := ih (t.kids ++ F) (p0 + 1) (S'.map fun x => ((hd x.1).kids ++ x.1.tail, x.2 + 1))
          (fuel + 1) (appCol C (((t :: F, p0) :: S').map (·.2))) B hR ?_
          (by rw [sizeL_append]; omega) (by rw [sizeL_append]; omega) hinv1
        · simp only [List.map_cons, List.map_map, Function.comp_def] at this ⊢
          rw [appCol] at this
          rw [this]
          simp [tapp, colsApp, appCol]
        · intro x hx
          obtain ⟨y, hy, rfl⟩ := List.mem_map.1 hx
          have h1 := hSall y (List.mem_cons_of_mem _ hy)
          have h2 := harity y (List.mem_cons_of_mem _ hy)
          simp only [List.length_append, List.length_tail, h1, h2]
          omega
    · simp only [hall, Bool.false_eq_true, if_false]
      have hcol : ((((t :: F, p0) :: S').map fun x => (hd x.1).arity).all
        (· == (((t :: F, p0) :: S').map fun x => (hd x.1).arity).headD 0)) = false := by
        rw [hcolconv]; simpa using hall
      obtain ⟨e1, e2, e3, e4⟩ := kstep_ne ars _ C B hinv (by simp) hSne hcol
      by_cases hF : F = []
      · subst hF
        have hterm : (commonRegionKAux.adv 1 ars ((([t], p0) :: S').map (·.2)) [] false).2 =
            true := by
          cases hinv with
          | cons h1 _ => exact adv_term _ _ t p0 _ _ h1
        rw [kAux_succ, e3, hterm]
        simp only [if_true, res, e1, e2]
        simp only [csF_nil, tapp, List.append_nil, colsApp, List.map_cons]
      · have hFl : F.length ≠ 0 := fun h0 => hF (List.length_eq_zero_iff.1 h0)
        have hrun := adv_run ars _ [] hinv (fun x hx => by rw [hSall x hx]; omega)
        have hinv2 : KInv ars (((t :: F, p0) :: S').map
            fun x => (x.1.tail, x.2 + (hd x.1).size)) := by
          apply All2.map_right _ hinv
          intro ar x hx hdrop
          obtain ⟨Fx, px⟩ := x
          have h1 := hSall _ hx
          match Fx, h1 with
          | u :: Fx, h1 =>
            simp only [hd_cons, List.tail_cons]
            rw [flatL_cons, arities_append] at hdrop
            exact drop_of_drop _ _ _ _ hdrop
        rw [kAux_succ, e3, hrun]
        simp only [Bool.false_eq_true, if_false]
        have est : (kIter ars { starts := ((t :: F, p0) :: S').map (·.2), common := C, border := B }).1 =
            { starts := (((t :: F, p0) :: S').map fun x => (x.1.tail, x.2 + (hd x.1).size)).map (·.2),
              common := appCol C (((t :: F, p0) :: S').map (·.2)),
              border := appCol B (((t :: F, p0) :: S').map (·.2)) } := by
          rw [← e1, ← e2]
          have : (((t :: F, p0) :: S').map fun x => (x.1.tail, x.2 + (hd x.1).size)).map (·.2) =
              (kIter ars { starts := ((t :: F, p0) :: S').map (·.2), common := C, border := B }).1.starts := by
            rw [e4, hrun]; simp [Function.comp_def]
          rw [this]
        rw [est]
        have := ih F (p0 + t.size) (S'.map fun x => (x.1.tail, x.2 + (hd x.1).size))
          fuel (appCol C (((t :: F, p0) :: S').map (·.2))) (appCol B (((t :: F, p0) :: S').map (·.2)))
          hF ?_ (by omega) (by omega) (show KInv ars ((F, p0 + t.size) :: S'.map fun x => (x.1.tail, x.2 + (hd x.1).size)) from hinv2)
        · simp only [List.map_cons, List.map_map, Function.comp_def, hd_cons, List.tail_cons] at this ⊢
          rw [this]
          simp [tapp, colsApp]
        · intro x hx
          obtain ⟨y, hy, rfl⟩ := List.mem_map.1 hx
          have h1 := hSall y (List.mem_cons_of_mem _ hy)
          simp only [List.length_tail, h1]
          omega

theorem csF_tuple_length : ∀ (g : Nat) (S : List (List RT × Nat)),
    (∀ tp ∈ (csF g S).1, tp.length = S.length) ∧ (∀ tp ∈ (csF g S).2, tp.length = S.length) := by
  intro g
  induction g with
  | zero => intro S; simp [csF]
  | succ g ih =>
    intro S
    match S with
    | [] => simp [csF]
    | ([], _) :: _ => simp [csF]
    | (t :: F, p) :: S =>
      rw [csF]
      split
      · have := ih ((t.kids ++ F, p + 1) :: S.map fun x => ((hd x.1).kids ++ x.1.tail, x.2 + 1))
        simp only [List.length_cons, List.length_map] at this
        simp only [tapp, List.singleton_append, List.mem_cons, List.nil_append, List.length_cons]
        refine ⟨?_, this.2⟩
        rintro tp (rfl | h)
        · simp
        · exact this.1 tp h
      · have := ih ((F, p + t.size) :: S.map fun x => (x.1.tail, x.2 + (hd x.1).size))
        simp only [List.length_cons, List.length_map] at this
        simp only [tapp, List.singleton_append, List.mem_cons, List.length_cons]
        constructor
        · rintro tp (rfl | h)
          · simp
          · exact this.1 tp h
        · rintro tp (rfl | h)
          · simp
          · exact this.2 tp h

theorem appCol_length (C : List (List Nat)) (tp : List Nat) (h : tp.length = C.length) :
    (appCol C tp).length = C.length := by
  simp [appCol, h]

theorem colsApp_eq (k : Nat) : ∀ (tuples C : List (List Nat)), C.length = k →
    (∀ tp ∈ tuples, tp.length = k) →
    colsApp C tuples = (List.range k).map fun j => C.getD j [] ++ tuples.map fun tp => tp.getD j 0 := by
  intro tuples
  induction tuples with
  | nil =>
    intro C hC _
    simp only [colsApp, List.map_nil, List.append_nil]
    apply List.ext_getElem
    · simp [hC]
    · intro i h1 h2
      simp [List.getD_eq_getElem?_getD, h1]
  | cons tp r ih =>
    intro C hC hall
    have htp : tp.length = k := hall tp (by simp)
    rw [colsApp, ih (appCol C tp) (by rw [appCol_length C tp (by omega), hC])
      (fun x hx => hall x (List.mem_cons_of_mem _ hx))]
    apply List.map_congr_left
    intro j hj
    have hj' : j < k := List.mem_range.1 hj
    have h1 : j < C.length := by omega
    have h2 : j < tp.length := by omega
    have h3 : j < (C.zip tp).length := by simp; omega
    simp [appCol, List.getD_eq_getElem?_getD, h1, h2, List.getElem?_eq_getElem h3, List.getElem_zip]

theorem getD_map_nil {α : Type} (l : List α) (j : Nat) :
    (l.map fun _ => ([] : List Nat)).getD j [] = [] := by
  simp only [List.getD_eq_getElem?_getD, List.getElem?_map]
  cases l[j]? <;> simp

theorem All2_map_map {α β γ : Type} (R : β → γ → Prop) (f : α → β) (g : α → γ) (l : List α)
    (h : ∀ x, R (f x) (g x)) : All2 R (l.map f) (l.map g) := by
  induction l with
  | nil => exact .nil
  | cons x l ih => exact .cons (h x) ih

theorem le_foldl_add (l : List Nat) : ∀ a : Nat, a ≤ l.foldl (· + ·) a := by
  induction l with
  | nil => intro a; exact Nat.le_refl _
  | cons x l ih => intro a; simp only [List.foldl_cons]; have := ih (a + x); omega

theorem commonRegionK_flat (t : RT) (ts : List RT) :
    res (commonRegionK ((t :: ts).map fun t => arities (flat t))) =
      ((List.range (t :: ts).length).map fun j =>
          (commonSpec t.size (t :: ts) ((t :: ts).map fun _ => 0)).1.map fun tp => tp.getD j 0,
       (List.range (t :: ts).length).map fun j =>
          (commonSpec t.size (t :: ts) ((t :: ts).map fun _ => 0)).2.map fun tp => tp.getD j 0) := by
  rw [commonSpec_eq_csF t ts t.size (Nat.le_refl _)]
  unfold commonRegionK
  have hinv : KInv ((t :: ts).map fun t => arities (flat t))
      (([t], 0) :: ts.map fun u => ([u], 0)) := by
    have := All2_map_map (fun ar (x : List RT × Nat) => ar.drop x.2 = arities (flatL x.1))
      (fun t => arities (flat t)) (fun u => ([u], 0)) (t :: ts) (by intro x; simp [flatL_cons])
    exact this
  have hfuel : sizeL [t] ≤
      (((t :: ts).map fun t => arities (flat t)).map List.length).foldl (· + ·) 1 := by
    simp only [List.map_cons, List.foldl_cons, arities_length, size_flat, sizeL_cons, sizeL_nil]
    have := le_foldl_add ((ts.map fun t => arities (flat t)).map List.length) (1 + t.size)
    omega
  have hl := k_loop _ t.size [t] 0 (ts.map fun u => ([u], 0)) _
    (((t :: ts).map fun t => arities (flat t)).map fun _ => [])
    (((t :: ts).map fun t => arities (flat t)).map fun _ => []) (by simp) (by simp)
    (by simp [sizeL_cons]) hfuel hinv
  have hst : ((([t], 0) :: ts.map fun u => ([u], 0)) : List (List RT × Nat)).map (·.2) =
      ((t :: ts).map fun t => arities (flat t)).map fun _ => 0 := by
    simp [Function.comp_def]
  rw [hst] at hl
  rw [hl]
  obtain ⟨h1, h2⟩ := csF_tuple_length t.size (([t], 0) :: ts.map fun u => ([u], 0))
  simp only [List.length_cons, List.length_map] at h1 h2
  rw [colsApp_eq (ts.length + 1) _ _ (by simp) h1, colsApp_eq (ts.length + 1) _ _ (by simp) h2]
  simp only [List.length_cons, List.map_map, Function.comp_def, getD_map_nil, List.nil_append]

theorem common_region_spec (ts : List RT) (hk : 2 ≤ ts.length) :
    commonRegion (ts.map fun t => arities (flat t)) =
      ((List.range ts.length).map fun j =>
          (commonSpec (ts.headD default).size ts (ts.map fun _ => 0)).1.map fun tp => tp.getD j 0,
       (List.range ts.length).map fun j =>
          (commonSpec (ts.headD default).size ts (ts.map fun _ => 0)).2.map fun tp => tp.getD j 0) := by
  match ts, hk with
  | [t1, t2], _ => exact common_region_spec_two t1 t2
  | t1 :: t2 :: t3 :: ts, _ =>
    have := commonRegionK_flat t1 (t2 :: t3 :: ts)
    simp only [List.map_cons, commonRegion, List.headD_cons] at this ⊢
    exact this

/-! ### uniform crossover -/

/-- what the uniform crossover copies for one common tuple `tp` from parent `j` -/
def piece (ps : List Flat) (b0 : List Nat) (tp : List Nat) (j : Nat) : Flat :=
  if b0.contains (tp.getD 0 0) then subtree (ps.getD j []) (tp.getD j 0)
  else [(ps.getD j []).getD (tp.getD j 0) (0, 0)]

def buildU (ps : List Flat) (b0 : List Nat) : List (List Nat) → List Nat → List Flat
  | [], _ => []
  | tp :: r, pl => piece ps b0 tp (pl.headD 0) :: buildU ps b0 r pl.tail

theorem buildU_eq_range (ps : List Flat) (b0 : List Nat) : ∀ (r : List (List Nat)) (pl : List Nat),
    buildU ps b0 r pl =
      (List.range r.length).map fun i => piece ps b0 (r.getD i []) (pl.getD i 0) := by
  intro r
  induction r with
  | nil => intro pl; simp [buildU]
  | cons tp r ih =>
    intro pl
    rw [buildU, ih, List.length_cons, List.range_succ_eq_map]
    simp only [List.map_cons, List.map_map, List.getD_cons_zero]
    congr 1
    · cases pl <;> simp
    · apply List.map_congr_left
      intro i _
      cases pl <;> simp

theorem uniformX_eq (ps : List Flat) (pool : List Nat) (k : Nat) (T1 T2 : List (List Nat))
    (hk : 0 < k)
    (hcr : commonRegion (ps.map arities) =
      ((List.range k).map fun j => T1.map fun tp => tp.getD j 0,
       (List.range k).map fun j => T2.map fun tp => tp.getD j 0))
    (hpool : ∀ j ∈ pool, j < k) :
    uniformX ps pool = (buildU ps (T2.map fun tp => tp.getD 0 0) T1 pool).flatten := by
  unfold uniformX
  rw [hcr, buildU_eq_range]
  obtain ⟨k, rfl⟩ : ∃ k', k = k' + 1 := ⟨k - 1, by omega⟩
  simp only [List.range_succ_eq_map, List.map_cons, List.headD_cons, List.length_map]
  congr 1
  apply List.map_congr_left
  intro i hi
  have hi' : i < T1.length := List.mem_range.1 hi
  have hj : pool.getD i 0 < k + 1 := by
    rw [List.getD_eq_getElem?_getD]
    cases h : pool[i]? with
    | none => simp
    | some j => exact hpool j (List.mem_of_getElem? h)
  generalize pool.getD i 0 = j at hj
  unfold piece
  have e1 : (T1.map fun tp => tp.getD 0 0).getD i 0 = (T1.getD i []).getD 0 0 := by
    simp [List.getD_eq_getElem?_getD, hi']
  have e2 : ((0 :: (List.range k).map Nat.succ).map fun j => T1.map fun tp => tp.getD j 0).getD j []
      = T1.map fun tp => tp.getD j 0 := by
    rw [← List.range_succ_eq_map]
    simp [List.getD_eq_getElem?_getD, hj]
  have e3 : (T1.map fun tp => tp.getD j 0).getD i 0 = (T1.getD i []).getD j 0 := by
    simp [List.getD_eq_getElem?_getD, hi']
  simp only [List.map_cons, List.map_map] at e2 ⊢
  rw [e1, e2, e3]

theorem csF_lowbound : ∀ (g : Nat) (F0 : List RT) (p0 : Nat) (S : List (List RT × Nat)),
    (∀ tp ∈ (csF g ((F0, p0) :: S)).1, p0 ≤ tp.getD 0 0) ∧
    (∀ tp ∈ (csF g ((F0, p0) :: S)).2, p0 ≤ tp.getD 0 0) := by
  intro g
  induction g with
  | zero => intro F0 p0 S; simp [csF]
  | succ g ih =>
    intro F0 p0 S
    match F0 with
    | [] => simp [csF]
    | t :: F =>
      rw [csF]
      split
      · have := ih (t.kids ++ F) (p0 + 1) (S.map fun x => ((hd x.1).kids ++ x.1.tail, x.2 + 1))
        simp only [tapp, List.singleton_append, List.mem_cons, List.nil_append]
        refine ⟨?_, fun tp h => by have := this.2 tp h; omega⟩
        rintro tp (rfl | h)
        · simp
        · have := this.1 tp h; omega
      · have := ih F (p0 + t.size) (S.map fun x => (x.1.tail, x.2 + (hd x.1).size))
        simp only [tapp, List.singleton_append, List.mem_cons]
        constructor
        · rintro tp (rfl | h)
          · simp
          · have := this.1 tp h; omega
        · rintro tp (rfl | h)
          · simp
          · have := this.2 tp h; omega

/-- each parent, from its position on, is the flattened remaining forest -/
def PInv (ps : List Flat) (S : List (List RT × Nat)) : Prop :=
  All2 (fun (p : Flat) x => p.drop x.2 = flatL x.1) ps S

theorem All2.get {α β : Type} {R : α → β → Prop} {l : List α} {l' : List β} (h : All2 R l l')
    (d : α) : ∀ (j : Nat) (hj : j < l'.length), R (l.getD j d) (l'[j]) := by
  induction h with
  | nil => intro j hj; simp at hj
  | cons h1 _ ih =>
    intro j hj
    cases j with
    | zero => simpa using h1
    | succ j => simpa using ih j (by simpa using hj)

theorem subtree_of_drop (p : Flat) (i : Nat) (t : RT) (rest : Flat)
    (h : p.drop i = flat t ++ rest) : subtree p i = flat t := by
  unfold subtree
  have h' : (arities p).drop i = arities (flat t) ++ arities rest := by
    rw [← arities_append, ← h]; simp [arities, List.map_drop]
  rw [endSub_of_drop _ _ _ _ h', List.drop_take, Nat.add_sub_cancel_left, h, ← size_flat t,
    List.take_left']
  rfl

theorem getD_of_drop_flat (p : Flat) (i : Nat) (s : Nat) (ks : List RT) (rest : Flat)
    (h : p.drop i = flat (.node s ks) ++ rest) : p.getD i (0, 0) = (s, ks.length) := by
  have : (p.drop i)[0]? = some (s, ks.length) := by rw [h]; simp [flat]
  rw [List.getElem?_drop, Nat.add_zero] at this
  simp [List.getD_eq_getElem?_getD, this]

theorem mem_of_drop {p : Flat} {i : Nat} {l : Flat} (h : p.drop i = l) {n : Node} (hn : n ∈ l) :
    n ∈ p := by
  rw [← h] at hn; exact List.mem_of_mem_drop hn

/-- slot-wise depth bound: level of the slot + depth of the tree in it -/
def Bnd (D : Nat) : List Nat → List RT → Prop
  | l :: lv, t :: F => l + t.depth ≤ D ∧ Bnd D lv F
  | _, _ => True

theorem Bnd_append (D : Nat) : ∀ (lv1 : List Nat) (F1 : List RT) (lv2 : List Nat) (F2 : List RT),
    lv1.length = F1.length →
    (Bnd D (lv1 ++ lv2) (F1 ++ F2) ↔ Bnd D lv1 F1 ∧ Bnd D lv2 F2) := by
  intro lv1
  induction lv1 with
  | nil =>
    intro F1 lv2 F2 h
    have : F1 = [] := List.length_eq_zero_iff.1 (by simpa using h.symm)
    subst this
    simp [Bnd]
  | cons l lv1 ih =>
    intro F1 lv2 F2 h
    cases F1 with
    | nil => simp at h
    | cons t F1 =>
      simp only [List.cons_append, Bnd]
      rw [ih F1 lv2 F2 (by simpa using h), and_assoc]

theorem Bnd_replicate (D l : Nat) : ∀ (n : Nat) (F : List RT), F.length = n →
    (Bnd D (List.replicate n l) F ↔ ∀ t ∈ F, l + t.depth ≤ D) := by
  intro n
  induction n with
  | zero =>
    intro F h
    have : F = [] := List.length_eq_zero_iff.1 h
    subst this; simp [Bnd]
  | succ n ih =>
    intro F h
    cases F with
    | nil => simp at h
    | cons t F =>
      simp only [List.replicate_succ, Bnd, List.mem_cons, forall_eq_or_imp]
      rw [ih F (by simpa using h)]

theorem depth_kids (t : RT) : t.depth = depthL t.kids := by
  cases t with | node s ks => simp [RT.depth, RT.kids]

theorem uni_loop (ps : List Flat) (D : Nat) : ∀ (g : Nat) (F0 : List RT) (p0 : Nat)
    (S' : List (List RT × Nat)) (lv pl bpre : List Nat),
    PInv ps ((F0, p0) :: S') → (∀ x ∈ S', x.1.length = F0.length) → lv.length = F0.length →
    sizeL F0 ≤ g → (∀ x ∈ (F0, p0) :: S', Bnd D lv x.1) → (∀ j ∈ pl, j < ps.length) →
    (∀ b ∈ bpre, b < p0) →
    ∃ F' : List RT,
      (buildU ps (bpre ++ (csF g ((F0, p0) :: S')).2.map fun tp => tp.getD 0 0)
        (csF g ((F0, p0) :: S')).1 pl).flatten = flatL F' ∧
      F'.length = F0.length ∧ Bnd D lv F' ∧ ∀ n ∈ flatL F', ∃ p ∈ ps, n ∈ p := by
  intro g
  induction g with
  | zero =>
    intro F0 p0 S' lv pl bpre _ _ _ hg _ _ _
    have := length_le_sizeL F0
    have : F0 = [] := List.length_eq_zero_iff.1 (by omega)
    subst this
    exact ⟨[], by simp [csF, buildU], rfl, by simp [Bnd], by simp⟩
  | succ g ih =>
    intro F0 p0 S' lv pl bpre hinv hS' hlv hg hbnd hpl hbpre
    match F0, lv, hlv with
    | [], _, _ => exact ⟨[], by simp [csF, buildU], rfl, by simp [Bnd], by simp⟩
    | t :: F, l0 :: lvt, hlv =>
    rw [sizeL_cons] at hg
    have htpos := size_pos t
    have hlvt : lvt.length = F.length := by simpa using hlv
    have hSall : ∀ x ∈ (t :: F, p0) :: S', x.1.length = F.length + 1 := by
      intro x hx
      rcases List.mem_cons.1 hx with rfl | hx
      · rfl
      · simpa using hS' x hx
    have hklen : ps.length = S'.length + 1 := by
      have := All2.length_eq hinv; simpa using this
    -- the chosen parent
    have hj : pl.headD 0 < S'.length + 1 := by
      cases pl with
      | nil => simp
      | cons j pl => simpa [hklen] using hpl j (by simp)
    generalize hjd : pl.headD 0 = j at hj
    have hjS : j < ((t :: F, p0) :: S').length := by simpa using hj
    have hget := All2.get hinv [] j hjS
    have hxmem : ((t :: F, p0) :: S')[j] ∈ (t :: F, p0) :: S' := List.getElem_mem hjS
    have hpos : (p0 :: S'.map (·.2)).getD j 0 = (((t :: F, p0) :: S')[j]).2 := by
      have : (p0 :: S'.map (·.2)) = ((t :: F, p0) :: S').map (·.2) := rfl
      rw [this]
      simp only [List.getD_eq_getElem?_getD, List.getElem?_map, List.getElem?_eq_getElem hjS]
      rfl
    have hxlen := hSall _ hxmem
    have hxbnd := hbnd _ hxmem
    generalize ((t :: F, p0) :: S')[j] = x at hget hxmem hpos hxlen hxbnd
    obtain ⟨Fx, px⟩ := x
    have hpmem : ps.getD j [] ∈ ps := by
      have hjp : j < ps.length := by omega
      simp [List.getD_eq_getElem?_getD, hjp]
    match Fx, hxlen with
    | .node su ksu :: tl, hxlen =>
    simp only [flatL_cons] at hget
    simp only at hpos
    rw [csF]
    split
    · rename_i hall
      -- equal arities: copy the node of parent `j`
      have harity : ∀ x ∈ (t :: F, p0) :: S', (hd x.1).kids.length = t.kids.length := by
        intro x hx
        rcases List.mem_cons.1 hx with rfl | hx
        · rfl
        · have := List.all_eq_true.1 hall x hx
          simpa [RT.arity] using this
      have hksu : ksu.length = t.kids.length := by simpa [RT.kids] using harity _ hxmem
      have hlow := (csF_lowbound g (t.kids ++ F) (p0 + 1)
        (S'.map fun x => ((hd x.1).kids ++ x.1.tail, x.2 + 1))).2
      have hinv1 : PInv ps ((t.kids ++ F, p0 + 1) ::
          S'.map fun x => ((hd x.1).kids ++ x.1.tail, x.2 + 1)) := by
        have : PInv ps (((t :: F, p0) :: S').map
            fun x => ((hd x.1).kids ++ x.1.tail, x.2 + 1)) := by
          apply All2.map_right _ hinv
          intro p x hx hdrop
          obtain ⟨Fx, px⟩ := x
          have h1 := hSall _ hx
          match Fx, h1 with
          | .node su ksu :: Fx, h1 =>
            simp only [hd_cons, RT.kids, List.tail_cons]
            have : p.drop px = (su, ksu.length) :: flatL (ksu ++ Fx) := by
              rw [hdrop, flatL_cons, flat, flatL_append]; rfl
            rw [← List.tail_drop, this]; rfl
        exact this
      have hbnd1 : ∀ x ∈ (t.kids ++ F, p0 + 1) ::
          S'.map (fun x => ((hd x.1).kids ++ x.1.tail, x.2 + 1)),
          Bnd D (List.replicate t.kids.length (l0 + 1) ++ lvt) x.1 := by
        intro y hy
        have : y ∈ ((t :: F, p0) :: S').map fun x => ((hd x.1).kids ++ x.1.tail, x.2 + 1) := hy
        obtain ⟨x, hx, rfl⟩ := List.mem_map.1 this
        have h1 := hSall _ hx
        have h2 := harity _ hx
        have h3 := hbnd _ hx
        obtain ⟨Fx, px⟩ := x
        match Fx, h1 with
        | u :: Fx, h1 =>
          simp only [hd_cons, List.tail_cons] at h2 ⊢
          simp only [Bnd] at h3
          rw [Bnd_append D _ _ _ _ (by simp [h2]), Bnd_replicate D _ _ _ h2]
          refine ⟨?_, h3.2⟩
          intro k hk
          have := depth_lt_of_mem hk
          rw [← depth_kids] at this
          omega
      obtain ⟨F1, hF1, hF1len, hF1bnd, hF1mem⟩ := ih (t.kids ++ F) (p0 + 1)
        (S'.map fun x => ((hd x.1).kids ++ x.1.tail, x.2 + 1))
        (List.replicate t.kids.length (l0 + 1) ++ lvt) pl.tail bpre hinv1
        (by
          intro y hy
          obtain ⟨x, hx, rfl⟩ := List.mem_map.1 hy
          have h1 := hSall x (List.mem_cons_of_mem _ hx)
          have h2 := harity x (List.mem_cons_of_mem _ hx)
          simp only [List.length_append, List.length_tail, h1, h2]
          omega)
        (by simp [hlvt]) (by have := kids_size t; rw [sizeL_append]; omega) hbnd1
        (fun j hj => hpl j (List.mem_of_mem_tail hj))
        (fun b hb => by have := hbpre b hb; omega)
      simp only [List.length_append] at hF1len
      refine ⟨.node su (F1.take t.kids.length) :: F1.drop t.kids.length, ?_, ?_, ?_, ?_⟩
      · simp only [tapp, List.singleton_append, List.nil_append, buildU, List.flatten_cons, hjd]
        rw [hF1]
        have hnb : (bpre ++ (csF g ((t.kids ++ F, p0 + 1) ::
            S'.map fun x => ((hd x.1).kids ++ x.1.tail, x.2 + 1))).2.map
              fun tp => tp.getD 0 0).contains p0 = false := by
          rw [Bool.eq_false_iff]
          intro hc
          rw [List.contains_iff_mem, List.mem_append] at hc
          rcases hc with hc | hc
          · have := hbpre p0 hc; omega
          · obtain ⟨tp, htp, hp⟩ := List.mem_map.1 hc
            have := hlow tp htp; omega
        unfold piece
        simp only [List.getD_cons_zero, hnb, Bool.false_eq_true, if_false, hpos]
        rw [getD_of_drop_flat _ _ _ _ _ hget, flatL_cons, flat, List.length_take,
          Nat.min_eq_left (by omega), hksu]
        simp only [List.cons_append, List.cons.injEq, true_and, List.nil_append]
        rw [← flatL_append, List.take_append_drop]
      · simp; omega
      · have hsplit := (Bnd_append D (List.replicate t.kids.length (l0 + 1)) (F1.take t.kids.length)
          lvt (F1.drop t.kids.length) (by simp; omega)).1 (by rw [List.take_append_drop]; exact hF1bnd)
        refine ⟨?_, hsplit.2⟩
        have hk := (Bnd_replicate D (l0 + 1) t.kids.length (F1.take t.kids.length)
          (by simp; omega)).1 hsplit.1
        simp only [Bnd] at hxbnd
        have hl0 : l0 ≤ D := by omega
        rw [RT.depth]
        have : depthL (F1.take t.kids.length) ≤ D - l0 := by
          rw [depthL_le_iff]
          intro k hkm
          have := hk k hkm; omega
        omega
      · intro n hn
        simp only [flatL_cons, flat, List.cons_append, List.mem_cons] at hn
        rcases hn with rfl | hn
        · refine ⟨_, hpmem, mem_of_drop hget ?_⟩
          simp [flat, List.length_take]; omega
        · apply hF1mem
          rw [← List.take_append_drop t.kids.length F1, flatL_append]
          simpa using hn
    · -- border: copy the whole subtree of parent `j`
      have hlow := (csF_lowbound g F (p0 + t.size)
        (S'.map fun x => (x.1.tail, x.2 + (hd x.1).size))).2
      have hinv2 : PInv ps ((F, p0 + t.size) ::
          S'.map fun x => (x.1.tail, x.2 + (hd x.1).size)) := by
        have : PInv ps (((t :: F, p0) :: S').map
            fun x => (x.1.tail, x.2 + (hd x.1).size)) := by
          apply All2.map_right _ hinv
          intro p x hx hdrop
          obtain ⟨Fx, px⟩ := x
          have h1 := hSall _ hx
          match Fx, h1 with
          | u :: Fx, h1 =>
            simp only [hd_cons, List.tail_cons]
            rw [← List.drop_drop, hdrop, flatL_cons, ← size_flat u, List.drop_left']
            rfl
        exact this
      have hbnd2 : ∀ x ∈ (F, p0 + t.size) :: S'.map (fun x => (x.1.tail, x.2 + (hd x.1).size)),
          Bnd D lvt x.1 := by
        intro y hy
        have : y ∈ ((t :: F, p0) :: S').map fun x => (x.1.tail, x.2 + (hd x.1).size) := hy
        obtain ⟨x, hx, rfl⟩ := List.mem_map.1 this
        have h1 := hSall _ hx
        have h3 := hbnd _ hx
        obtain ⟨Fx, px⟩ := x
        match Fx, h1 with
        | u :: Fx, h1 =>
          simp only [Bnd] at h3
          exact h3.2
      obtain ⟨F2, hF2, hF2len, hF2bnd, hF2mem⟩ := ih F (p0 + t.size)
        (S'.map fun x => (x.1.tail, x.2 + (hd x.1).size)) lvt pl.tail (bpre ++ [p0]) hinv2
        (by
          intro y hy
          obtain ⟨x, hx, rfl⟩ := List.mem_map.1 hy
          have h1 := hSall x (List.mem_cons_of_mem _ hx)
          simp only [List.length_tail, h1]
          omega)
        hlvt (by omega) hbnd2 (fun j hj => hpl j (List.mem_of_mem_tail hj))
        (fun b hb => by
          rcases List.mem_append.1 hb with hb | hb
          · have := hbpre b hb; omega
          · simp at hb; omega)
      simp only [Bnd] at hxbnd
      refine ⟨.node su ksu :: F2, ?_, by simp [hF2len], ⟨hxbnd.1, hF2bnd⟩, ?_⟩
      · simp only [tapp, List.singleton_append, buildU, List.flatten_cons, List.map_cons,
          List.getD_cons_zero, hjd]
        have e : bpre ++ p0 :: (csF g ((F, p0 + t.size) ::
            S'.map fun x => (x.1.tail, x.2 + (hd x.1).size))).2.map (fun tp => tp.getD 0 0) =
            (bpre ++ [p0]) ++ (csF g ((F, p0 + t.size) ::
            S'.map fun x => (x.1.tail, x.2 + (hd x.1).size))).2.map (fun tp => tp.getD 0 0) := by
          simp
        rw [e, hF2]
        have hb : ((bpre ++ [p0]) ++ (csF g ((F, p0 + t.size) ::
            S'.map fun x => (x.1.tail, x.2 + (hd x.1).size))).2.map
              (fun tp => tp.getD 0 0)).contains p0 = true := by
          rw [List.contains_iff_mem]; simp
        unfold piece
        simp only [List.getD_cons_zero, hb, if_true, hpos]
        rw [subtree_of_drop _ _ _ _ hget, flatL_cons]
      · intro n hn
        rw [flatL_cons, List.mem_append] at hn
        rcases hn with hn | hn
        · exact ⟨_, hpmem, mem_of_drop hget (by simp [hn])⟩
        · exact hF2mem n hn

theorem parse_all (ps : List Flat) (h : ∀ p ∈ ps, wfAux 1 (arities p) = true) :
    ∃ ts : List RT, ps = ts.map flat := by
  induction ps with
  | nil => exact ⟨[], rfl⟩
  | cons p ps ih =>
    obtain ⟨t, ht⟩ := parse p (h p (by simp))
    obtain ⟨ts, hts⟩ := ih (fun q hq => h q (List.mem_cons_of_mem _ hq))
    exact ⟨t :: ts, by simp [ht, hts]⟩

theorem uniformX_spec (arity : Nat → Nat) (ps : List Flat) (hps : ∀ p ∈ ps, WF arity p)
    (hk : 2 ≤ ps.length) (pool : List Nat) (hpool : ∀ j ∈ pool, j < ps.length)
    (_hlen : ((commonRegion (ps.map arities)).1.headD []).length ≤ pool.length) :
    WF arity (uniformX ps pool) ∧
    depth (uniformX ps pool) ≤ (ps.map depth).foldl max 0 ∧
    ∀ n ∈ uniformX ps pool, ∃ p ∈ ps, n ∈ p := by
  obtain ⟨ts, rfl⟩ := parse_all ps (fun p hp => (hps p hp).1)
  have hk' : 2 ≤ ts.length := by simpa using hk
  match ts, hk' with
  | t :: ts, hk' =>
  have hcr := common_region_spec (t :: ts) hk'
  have hmm : ((t :: ts).map flat).map arities = (t :: ts).map fun t => arities (flat t) := by
    simp [Function.comp_def]
  rw [← hmm] at hcr
  have hU := uniformX_eq ((t :: ts).map flat) pool (t :: ts).length _ _ (by simp) hcr
    (by simpa using hpool)
  rw [hU]
  simp only [List.headD_cons]
  rw [commonSpec_eq_csF t ts t.size (Nat.le_refl _)]
  have hinv : PInv ((t :: ts).map flat) (([t], 0) :: ts.map fun u => ([u], 0)) := by
    have := All2_map_map (fun (p : Flat) (x : List RT × Nat) => p.drop x.2 = flatL x.1)
      flat (fun u => ([u], 0)) (t :: ts) (by intro x; simp [flatL_cons])
    exact this
  have hD : ∀ x ∈ ([t], 0) :: ts.map (fun u => ([u], 0)),
      Bnd (((t :: ts).map flat).map depth |>.foldl max 0) [0] x.1 := by
    intro x hx
    have : x ∈ (t :: ts).map fun u => (([u], 0) : List RT × Nat) := hx
    obtain ⟨u, hu, rfl⟩ := List.mem_map.1 this
    simp only [Bnd, Nat.zero_add, and_true]
    rw [← depth_flat u]
    have hm : depth (flat u) ∈ ((t :: ts).map flat).map depth :=
      List.mem_map.2 ⟨flat u, List.mem_map.2 ⟨u, hu, rfl⟩, rfl⟩
    exact le_listMax_of_mem hm
  obtain ⟨F', hF', hlenF, hbndF, hmemF⟩ := uni_loop ((t :: ts).map flat) _ t.size [t] 0
    (ts.map fun u => ([u], 0)) [0] pool [] hinv (by simp) rfl (by simp [sizeL_cons]) hD hpool
    (by simp)
  simp only [List.nil_append] at hF'
  rw [hF']
  match F', hlenF with
  | [u], _ =>
    simp only [flatL_cons, flatL_nil, List.append_nil] at hmemF ⊢
    refine ⟨⟨wfAux_flat_self u, ?_⟩, ?_, hmemF⟩
    · intro n hn
      obtain ⟨p, hp, hnp⟩ := hmemF n hn
      exact (hps p hp).2 n hnp
    · rw [depth_flat]
      simp only [Bnd, Nat.zero_add, and_true] at hbndF
      exact hbndF

end TFV.Tree
