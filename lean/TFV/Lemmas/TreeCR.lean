/-
  TFV.Lemmas.TreeCR — the common region of several trees: the coded loops (two-tree and k-tree
  versions) against the recursive specification `commonSpec`, and the crossovers that work inside
  the common region (one-point, uniform).
-/
import TFV.Lemmas.TreeOps

namespace TFV.Tree

/-! ### tuples of (tree, position) and of (forest, position) -/

abbrev Tup := List (List Nat) × List (List Nat)

def tapp (a b : Tup) : Tup := (a.1 ++ b.1, a.2 ++ b.2)

theorem tapp_assoc (a b c : Tup) : tapp (tapp a b) c = tapp a (tapp b c) := by
  simp [tapp]

@[simp] theorem tapp_nil_right (a : Tup) : tapp a ([], []) = a := by simp [tapp]

@[simp] theorem tapp_nil_left (a : Tup) : tapp ([], []) a = a := by simp [tapp]

/-- first tree of a forest -/
def hd (F : List RT) : RT := F.headD default

@[simp] theorem hd_cons (t : RT) (F : List RT) : hd (t :: F) = t := rfl

/-- the specification on a tuple of forests of `m` trees each, every forest paired with the position
    of its first node: the concatenation of the column-wise results -/
def specL (cs : List (RT × Nat) → Tup) : Nat → List (List RT × Nat) → Tup
  | 0, _ => ([], [])
  | m + 1, S => tapp (cs (S.map fun x => (hd x.1, x.2)))
      (specL cs m (S.map fun x => (x.1.tail, x.2 + (hd x.1).size)))

/-- `commonSpec` on a tuple of (tree, position of its root) -/
def cS (fuel : Nat) (S : List (RT × Nat)) : Tup := commonSpec fuel (S.map (·.1)) (S.map (·.2))

theorem sizeL_take_succ (ks : List RT) (n : Nat) (h : n < ks.length) :
    sizeL (ks.take (n + 1)) = sizeL (ks.take n) + ks[n].size := by
  rw [List.take_succ_eq_append_getElem h, sizeL_append, sizeL_cons]; simp

theorem hd_drop (ks : List RT) (n : Nat) : hd (ks.drop n) = ks.getD n default := by
  simp [hd, List.headD_eq_head?_getD, List.getD_eq_getElem?_getD]

theorem go_eq (fuel a : Nat) (S : List (RT × Nat)) (hS : ∀ x ∈ S, x.1.arity = a) (c : Nat)
    (hc : c ≤ a) (acc : Tup) :
    commonSpec.go fuel (S.map (·.1)) (S.map (·.2)) a c acc =
      tapp acc (specL (cS fuel) c
        (S.map fun x => (x.1.kids.drop (a - c), kidPos x.1 x.2 (a - c)))) := by
  induction c generalizing acc with
  | zero => simp [commonSpec.go.eq_1, specL]
  | succ c ih =>
    have e1 : (S.map (·.1)).map (fun t => t.kids.getD (a - 1 - c) default) =
        ((S.map fun x => (x.1.kids.drop (a - (c + 1)), kidPos x.1 x.2 (a - (c + 1)))).map
          fun x => (hd x.1, x.2)).map (·.1) := by
      simp only [List.map_map]
      apply List.map_congr_left
      intro x _
      simp only [Function.comp, hd_drop]
      congr 1; omega
    have e2 : ((S.map (·.1)).zip (S.map (·.2))).map (fun x => match x with
          | (t, p) => kidPos t p (a - 1 - c)) =
        ((S.map fun x => (x.1.kids.drop (a - (c + 1)), kidPos x.1 x.2 (a - (c + 1)))).map
          fun x => (hd x.1, x.2)).map (·.2) := by
      rw [List.zip_map']
      simp only [List.map_map]
      apply List.map_congr_left
      intro x _
      simp only [Function.comp]
      congr 1; omega
    have e3 : (S.map fun x => (x.1.kids.drop (a - (c + 1)), kidPos x.1 x.2 (a - (c + 1)))).map
          (fun x => (x.1.tail, x.2 + (hd x.1).size)) =
        S.map fun x => (x.1.kids.drop (a - c), kidPos x.1 x.2 (a - c)) := by
      simp only [List.map_map]
      apply List.map_congr_left
      intro x hx
      have hx' := hS x hx
      simp only [Function.comp, List.tail_drop, hd_drop]
      have e : a - (c + 1) + 1 = a - c := by omega
      rw [e]
      congr 1
      unfold kidPos
      unfold RT.arity at hx'
      have hlt : a - (c + 1) < x.1.kids.length := by omega
      rw [← e, sizeL_take_succ _ _ hlt]
      simp [List.getD_eq_getElem?_getD, hlt]
      omega
    rw [commonSpec.go.eq_2, ih (by omega), specL, cS, e1, e2, e3, ← tapp_assoc]
    rfl

theorem kidPos_zero (t : RT) (p : Nat) : kidPos t p 0 = p + 1 := by simp [kidPos]

/-- one unfolding of `commonSpec` -/
theorem cS_succ (fuel : Nat) (S : List (RT × Nat)) :
    cS (fuel + 1) S =
      if (S.all fun x => x.1.arity == (hd (S.map (·.1))).arity) = true then
        tapp ([S.map (·.2)], []) (specL (cS fuel) (hd (S.map (·.1))).arity
          (S.map fun x => (x.1.kids, x.2 + 1)))
      else ([S.map (·.2)], [S.map (·.2)]) := by
  unfold cS
  rw [commonSpec.eq_2]
  have e : ((S.map (·.1)).all fun (x_2 : RT) =>
        x_2.arity == ((S.map fun (x : RT × Nat) => x.1).headD default).arity) =
      (S.all fun (x : RT × Nat) =>
        x.1.arity == (hd (S.map fun (x : RT × Nat) => x.1)).arity) := by
    simp [List.all_map, hd, Function.comp_def]
  rw [e]
  split
  · rename_i h
    rw [go_eq fuel _ S (by simpa [hd] using h) _ (Nat.le_refl _)]
    simp [kidPos_zero, hd]
    rfl
  · rfl

theorem specL_congr (cs cs' : List (RT × Nat) → Tup) (B : Nat)
    (h : ∀ t p S, t.size ≤ B → cs ((t, p) :: S) = cs' ((t, p) :: S)) :
    ∀ (m : Nat) (F0 : List RT) (p0 : Nat) (S : List (List RT × Nat)), m ≤ F0.length →
      sizeL F0 ≤ B → specL cs m ((F0, p0) :: S) = specL cs' m ((F0, p0) :: S) := by
  intro m
  induction m with
  | zero => intros; simp [specL]
  | succ m ih =>
    intro F0 p0 S hm hB
    cases F0 with
    | nil => simp at hm
    | cons t F0 =>
      rw [sizeL_cons] at hB
      simp only [specL, List.map_cons, hd_cons, List.tail_cons]
      rw [h t p0 _ (by omega), ih F0 _ _ (by simpa using hm) (by omega)]

theorem kids_size (t : RT) : t.size = 1 + sizeL t.kids := by
  cases t with | node s ks => simp [RT.kids, size_node]

theorem cS_fuel_succ (G : Nat) : ∀ (t : RT) (p : Nat) (S : List (RT × Nat)), t.size ≤ G →
    cS G ((t, p) :: S) = cS (G + 1) ((t, p) :: S) := by
  induction G with
  | zero => intro t p S h; have := size_pos t; omega
  | succ G ih =>
    intro t p S h
    rw [cS_succ (G + 1), cS_succ G]
    split
    · congr 1
      simp only [List.map_cons, hd_cons]
      have := kids_size t
      exact specL_congr _ _ G ih _ _ _ _ (Nat.le_refl _) (by omega)
    · rfl

theorem cS_fuel_le (G G' : Nat) (hle : G ≤ G') (t : RT) (p : Nat) (S : List (RT × Nat))
    (h : t.size ≤ G) : cS G ((t, p) :: S) = cS G' ((t, p) :: S) := by
  induction G' with
  | zero => have : G = 0 := by omega
            subst this; rfl
  | succ G' ih =>
    by_cases hG : G = G' + 1
    · subst hG; rfl
    · rw [ih (by omega), cS_fuel_succ G' t p S (by omega)]

/-- `commonSpec` with the canonical fuel -/
def cspec (S : List (RT × Nat)) : Tup := cS (hd (S.map (·.1))).size S

theorem cspec_cons (t : RT) (p : Nat) (S : List (RT × Nat)) :
    cspec ((t, p) :: S) =
      if (S.all fun x => x.1.arity == t.arity) = true then
        tapp ([p :: S.map (·.2)], []) (specL cspec t.arity
          ((t.kids, p + 1) :: S.map fun x => (x.1.kids, x.2 + 1)))
      else ([p :: S.map (·.2)], [p :: S.map (·.2)]) := by
  unfold cspec
  simp only [List.map_cons, hd_cons]
  have hs := kids_size t
  obtain ⟨G, hG⟩ : ∃ G, t.size = G + 1 := ⟨t.size - 1, by have := size_pos t; omega⟩
  rw [hG, cS_succ]
  simp only [List.map_cons, hd_cons, List.all_cons, beq_self_eq_true, Bool.true_and]
  split
  · congr 1
    apply specL_congr _ _ G _ _ _ _ _ (Nat.le_refl _) (by omega)
    intro t' p' S' h'
    simp only [List.map_cons, hd_cons]
    exact (cS_fuel_le _ _ h' t' p' S' (Nat.le_refl _)).symm
  · rfl

theorem specL_append (cs : List (RT × Nat) → Tup) {α : Type} (L : List α) (m2 : Nat)
    (g : α → List RT) : ∀ (m1 : Nat) (f : α → List RT) (q : α → Nat),
    (∀ x ∈ L, (f x).length = m1) →
    specL cs (m1 + m2) (L.map fun x => (f x ++ g x, q x)) =
      tapp (specL cs m1 (L.map fun x => (f x, q x)))
        (specL cs m2 (L.map fun x => (g x, q x + sizeL (f x)))) := by
  intro m1
  induction m1 with
  | zero =>
    intro f q hf
    have e1 : (L.map fun x => (f x ++ g x, q x)) = L.map fun x => (g x, q x + sizeL (f x)) := by
      apply List.map_congr_left
      intro x hx
      have := hf x hx
      simp [List.length_eq_zero_iff.1 this]
    simp [specL, e1]
  | succ m1 ih =>
    intro f q hf
    have e0 : m1 + 1 + m2 = (m1 + m2) + 1 := by omega
    rw [e0, specL, specL, tapp_assoc]
    simp only [List.map_map, Function.comp_def]
    have e1 : (L.map fun x => (hd (f x ++ g x), q x)) = L.map fun x => (hd (f x), q x) := by
      apply List.map_congr_left
      intro x hx
      have := hf x hx
      cases hfx : f x with
      | nil => simp [hfx] at this
      | cons t F => simp
    have e2 : (L.map fun x => ((f x ++ g x).tail, q x + (hd (f x ++ g x)).size)) =
        L.map fun x => ((f x).tail ++ g x, q x + (hd (f x)).size) := by
      apply List.map_congr_left
      intro x hx
      have := hf x hx
      cases hfx : f x with
      | nil => simp [hfx] at this
      | cons t F => simp
    rw [e1, e2, ih (fun x => (f x).tail) (fun x => q x + (hd (f x)).size)
      (by intro x hx; have := hf x hx; simp; omega)]
    congr 3
    apply List.map_congr_left
    intro x hx
    have := hf x hx
    cases hfx : f x with
    | nil => simp [hfx] at this
    | cons t F => simp [sizeL_cons]; omega

/-- the specification on flattened forests: one node (equal arities) or one subtree (border)
    at a time -/
def csF : Nat → List (List RT × Nat) → Tup
  | 0, _ => ([], [])
  | _ + 1, [] => ([], [])
  | _ + 1, ([], _) :: _ => ([], [])
  | fuel + 1, (t :: F, p) :: S =>
    if (S.all fun x => (hd x.1).arity == t.arity) = true then
      tapp ([p :: S.map (·.2)], [])
        (csF fuel ((t.kids ++ F, p + 1) :: S.map fun x => ((hd x.1).kids ++ x.1.tail, x.2 + 1)))
    else
      tapp ([p :: S.map (·.2)], [p :: S.map (·.2)])
        (csF fuel ((F, p + t.size) :: S.map fun x => (x.1.tail, x.2 + (hd x.1).size)))

theorem csF_eq : ∀ (fuel m : Nat) (F0 : List RT) (p0 : Nat) (S : List (List RT × Nat)),
    F0.length = m → (∀ x ∈ S, x.1.length = m) → sizeL F0 ≤ fuel →
    csF fuel ((F0, p0) :: S) = specL cspec m ((F0, p0) :: S) := by
  intro fuel
  induction fuel with
  | zero =>
    intro m F0 p0 S hm hS hsz
    cases F0 with
    | nil => subst hm; simp [csF, specL]
    | cons t F => rw [sizeL_cons] at hsz; have := size_pos t; omega
  | succ fuel ih =>
    intro m F0 p0 S hm hS hsz
    cases F0 with
    | nil => subst hm; simp [csF, specL]
    | cons t F =>
      obtain ⟨m', rfl⟩ : ∃ m', m = m' + 1 := ⟨F.length, by simpa using hm.symm⟩
      have hm' : F.length = m' := by simpa using hm
      rw [sizeL_cons] at hsz
      have hks := kids_size t
      rw [csF, specL]
      simp only [List.map_cons, hd_cons, List.tail_cons]
      rw [cspec_cons]
      simp only [List.all_map, List.map_map, Function.comp_def]
      split
      · rename_i hall
        rw [tapp_assoc]
        congr 1
        have hL : ∀ x ∈ (t :: F, p0) :: S, ((fun x => (hd x.1).kids) x).length = t.arity := by
          intro x hx
          rcases List.mem_cons.1 hx with rfl | hx
          · rfl
          · have := List.all_eq_true.1 hall x hx
            simpa [RT.arity] using this
        have happ := specL_append cspec ((t :: F, p0) :: S) m' (fun x => x.1.tail) t.arity
          (fun x => (hd x.1).kids) (fun x => x.2 + 1) hL
        simp only [List.map_cons, hd_cons, List.tail_cons] at happ
        rw [ih (t.arity + m') _ _ _ (by simp [RT.arity, hm']) ?_ (by rw [sizeL_append]; omega),
          happ]
        · congr 3
          · congr 1; omega
          · apply List.map_congr_left
            intro x _
            have := kids_size (hd x.1)
            congr 1; omega
        · intro x hx
          obtain ⟨y, hy, rfl⟩ := List.mem_map.1 hx
          have h1 := hL y (List.mem_cons_of_mem _ hy)
          have h2 := hS y hy
          simp only [List.length_append, List.length_tail]
          simp only at h1
          omega
      · rw [ih m' _ _ _ hm' ?_ (by omega)]
        intro x hx
        obtain ⟨y, hy, rfl⟩ := List.mem_map.1 hx
        have h2 := hS y hy
        simp only [List.length_tail]; omega

/-! ### the two-tree loop -/

theorem firstDiff_ne (a b : Nat) (r1 r2 : List Nat) (h : a ≠ b) :
    firstDiff (a :: r1) (b :: r2) = 0 := by
  simp [firstDiff, h]

theorem firstDiff_eq (a x y : Nat) (r1 r2 : List Nat) :
    firstDiff (a :: x :: r1) (a :: y :: r2) = 1 + firstDiff (x :: r1) (y :: r2) := by
  simp [firstDiff]

theorem firstDiff_end (a b : Nat) : firstDiff [a] [b] = 0 := by
  simp [firstDiff]

def cr2add (acc : CR2) (r : Tup) : CR2 :=
  { c1 := acc.c1 ++ r.1.map (·.getD 0 0), c2 := acc.c2 ++ r.1.map (·.getD 1 0),
    b1 := acc.b1 ++ r.2.map (·.getD 0 0), b2 := acc.b2 ++ r.2.map (·.getD 1 0) }

theorem cr2add_nil (acc : CR2) : cr2add acc ([], []) = acc := by
  simp [cr2add]

theorem cr2add_tapp (acc : CR2) (r r' : Tup) : cr2add (cr2add acc r) r' = cr2add acc (tapp r r') := by
  simp [cr2add, tapp]

theorem lt_length_of_drop_eq_cons {l : List Nat} {i a : Nat} {r : List Nat} (h : l.drop i = a :: r) :
    i < l.length := by
  have := congrArg List.length h
  simp at this; omega

theorem drop_succ_of_drop_eq_cons {l : List Nat} {i a : Nat} {r : List Nat} (h : l.drop i = a :: r) :
    l.drop (i + 1) = r := by
  rw [← List.tail_drop, h]; rfl

theorem range_succ_map_add (e i : Nat) :
    (List.range (e + 1 + 1)).map (· + i) = i :: (List.range (e + 1)).map (· + (i + 1)) := by
  rw [List.range_succ_eq_map]
  simp only [List.map_cons, List.map_map, Nat.zero_add]
  congr 1
  apply List.map_congr_left
  intro x _; simp; omega

theorem cr2_exhausted (n1 n2 : List Nat) (fuel i1 i2 : Nat) (acc : CR2) (h1 : n1.length ≤ i1)
    (h2 : n2.length ≤ i2) : commonRegion2Aux n1 n2 fuel i1 i2 acc = acc := by
  cases fuel with
  | zero => rfl
  | succ fuel =>
    rw [commonRegion2Aux]
    have : ¬ (i1 < n1.length ∧ i2 < n2.length) := by omega
    simp only [this, if_false]
    have : ¬ (n1.length - 1 > i1 ∨ n2.length - 1 > i2) := by omega
    simp only [this, if_false]

theorem cr2_step_eq (n1 n2 : List Nat) (fuel i1 i2 : Nat) (acc : CR2) (a x y : Nat)
    (r1 r2 : List Nat) (h1 : n1.drop i1 = a :: x :: r1) (h2 : n2.drop i2 = a :: y :: r2) :
    commonRegion2Aux n1 n2 (fuel + 1) i1 i2 acc =
      commonRegion2Aux n1 n2 (fuel + 1) (i1 + 1) (i2 + 1)
        { acc with c1 := acc.c1 ++ [i1], c2 := acc.c2 ++ [i2] } := by
  have l1 := lt_length_of_drop_eq_cons h1
  have l2 := lt_length_of_drop_eq_cons h2
  have d1 := drop_succ_of_drop_eq_cons h1
  have d2 := drop_succ_of_drop_eq_cons h2
  have l1' := lt_length_of_drop_eq_cons d1
  have l2' := lt_length_of_drop_eq_cons d2
  rw [commonRegion2Aux, commonRegion2Aux]
  simp only [l1, l2, l1', l2', and_self, if_true, h1, h2, d1, d2, firstDiff_eq]
  have e : ∀ i : Nat, i + (1 + firstDiff (x :: r1) (y :: r2)) = i + 1 + firstDiff (x :: r1) (y :: r2) := by
    intro i; omega
  have e' : 1 + firstDiff (x :: r1) (y :: r2) + 1 = firstDiff (x :: r1) (y :: r2) + 1 + 1 := by omega
  simp only [e, e', range_succ_map_add, List.append_assoc, List.singleton_append]

theorem cr2_step_ne (n1 n2 : List Nat) (fuel i1 i2 : Nat) (acc : CR2) (a b : Nat)
    (r1 r2 : List Nat) (h1 : n1.drop i1 = a :: r1) (h2 : n2.drop i2 = b :: r2) (hab : a ≠ b)
    (hc : n1.length - 1 > i1 ∨ n2.length - 1 > i2) :
    commonRegion2Aux n1 n2 (fuel + 1) i1 i2 acc =
      commonRegion2Aux n1 n2 fuel (endSub i1 n1) (endSub i2 n2)
        { c1 := acc.c1 ++ [i1], c2 := acc.c2 ++ [i2], b1 := acc.b1 ++ [i1], b2 := acc.b2 ++ [i2] } := by
  have l1 := lt_length_of_drop_eq_cons h1
  have l2 := lt_length_of_drop_eq_cons h2
  rw [commonRegion2Aux]
  simp only [l1, l2, and_self, if_true, h1, h2, firstDiff_ne _ _ _ _ hab, Nat.add_zero, hc]
  simp

theorem cr2_step_end (n1 n2 : List Nat) (fuel i1 i2 : Nat) (acc : CR2) (a b : Nat)
    (h1 : n1.drop i1 = [a]) (h2 : n2.drop i2 = [b]) :
    commonRegion2Aux n1 n2 (fuel + 1) i1 i2 acc =
      { acc with c1 := acc.c1 ++ [i1], c2 := acc.c2 ++ [i2] } := by
  have l1 := lt_length_of_drop_eq_cons h1
  have l2 := lt_length_of_drop_eq_cons h2
  have e1 := congrArg List.length h1
  have e2 := congrArg List.length h2
  simp only [List.length_drop, List.length_singleton] at e1 e2
  rw [commonRegion2Aux]
  simp only [l1, l2, and_self, if_true, h1, h2, firstDiff_end, Nat.add_zero]
  have : ¬ (n1.length - 1 > i1 ∨ n2.length - 1 > i2) := by omega
  simp [this]

theorem length_le_sizeL (F : List RT) : F.length ≤ sizeL F := by
  induction F with
  | nil => simp
  | cons t F ih => rw [sizeL_cons]; have := size_pos t; simp; omega

theorem csF_nil (g p : Nat) (S : List (List RT × Nat)) : csF g (([], p) :: S) = ([], []) := by
  cases g <;> simp [csF]

theorem arities_flatL_length (F : List RT) : (arities (flatL F)).length = sizeL F := by
  rw [arities_length, size_flatL]

theorem endSub_of_drop (n : List Nat) (i : Nat) (t : RT) (rest : List Nat)
    (h : n.drop i = arities (flat t) ++ rest) : endSub i n = i + t.size := by
  unfold endSub
  rw [h, scan_flat t 0, scan_zero]; omega

theorem drop_of_drop (n : List Nat) (i : Nat) (t : RT) (rest : List Nat)
    (h : n.drop i = arities (flat t) ++ rest) : n.drop (i + t.size) = rest := by
  rw [← List.drop_drop, h, List.drop_left']
  rw [arities_length, size_flat]

theorem cr2_loop (n1 n2 : List Nat) : ∀ (g : Nat) (F1 F2 : List RT) (i1 i2 fuel : Nat) (acc : CR2),
    sizeL F1 ≤ g → sizeL F1 ≤ fuel → F1.length = F2.length →
    n1.drop i1 = arities (flatL F1) → n2.drop i2 = arities (flatL F2) →
    commonRegion2Aux n1 n2 fuel i1 i2 acc = cr2add acc (csF g [(F1, i1), (F2, i2)]) := by
  intro g
  induction g with
  | zero =>
    intro F1 F2 i1 i2 fuel acc hg _ hlen h1 h2
    have hl := length_le_sizeL F1
    have e1 : F1 = [] := List.length_eq_zero_iff.1 (by omega)
    have e2 : F2 = [] := List.length_eq_zero_iff.1 (by omega)
    subst e1 e2
    simp only [flatL_nil, arities_nil, List.drop_eq_nil_iff] at h1 h2
    rw [cr2_exhausted _ _ _ _ _ _ h1 h2, csF_nil, cr2add_nil]
  | succ g ih =>
    intro F1 F2 i1 i2 fuel acc hg hfuel hlen h1 h2
    match F1, F2, hlen with
    | [], [], _ =>
      simp only [flatL_nil, arities_nil, List.drop_eq_nil_iff] at h1 h2
      rw [cr2_exhausted _ _ _ _ _ _ h1 h2, csF_nil, cr2add_nil]
    | .node s1 ks1 :: F1, .node s2 ks2 :: F2, hlen =>
      rw [sizeL_cons, size_node] at hg hfuel
      obtain ⟨fuel, rfl⟩ : ∃ f, fuel = f + 1 := ⟨fuel - 1, by omega⟩
      have hlen' : F1.length = F2.length := by simpa using hlen
      rw [flatL_cons, arities_append] at h1 h2
      have hl1 := congrArg List.length h1
      have hl2 := congrArg List.length h2
      simp only [List.length_drop, List.length_append, arities_length, size_flat, size_flatL,
        size_node] at hl1 hl2
      have hk1 := length_le_sizeL ks1
      have hk2 := length_le_sizeL ks2
      rw [csF]
      simp only [List.all_cons, List.all_nil, Bool.and_true, hd_cons, RT.arity, RT.kids,
        List.map_cons, List.map_nil, List.tail_cons, beq_iff_eq]
      by_cases hab : ks2.length = ks1.length
      · simp only [hab, if_true]
        have h1' : n1.drop i1 = ks1.length :: arities (flatL (ks1 ++ F1)) := by
          rw [h1, arities_flat_node, flatL_append, arities_append]; rfl
        have h2' : n2.drop i2 = ks1.length :: arities (flatL (ks2 ++ F2)) := by
          rw [h2, arities_flat_node, flatL_append, arities_append, hab]; rfl
        have hR : (ks1 ++ F1).length = (ks2 ++ F2).length := by simp [hab, hlen']
        have hs1 := arities_flatL_length (ks1 ++ F1)
        have hs2 := arities_flatL_length (ks2 ++ F2)
        have hle1 := length_le_sizeL (ks1 ++ F1)
        have hle2 := length_le_sizeL (ks2 ++ F2)
        rw [← cr2add_tapp]
        cases hr1 : arities (flatL (ks1 ++ F1)) with
        | nil =>
          rw [hr1] at hs1 h1'
          have e1 : ks1 ++ F1 = [] := List.length_eq_zero_iff.1 (by simp at hs1; omega)
          have e2 : ks2 ++ F2 = [] := List.length_eq_zero_iff.1 (by rw [← hR, e1]; rfl)
          rw [e2] at h2'
          rw [cr2_step_end _ _ _ _ _ _ _ _ h1' h2', e1, csF_nil, cr2add_nil]
          simp [cr2add]
        | cons x r1 =>
          cases hr2 : arities (flatL (ks2 ++ F2)) with
          | nil =>
            rw [hr2] at hs2; rw [hr1] at hs1
            have e2 : (ks2 ++ F2).length = 0 := by simp only [List.length_nil] at hs2; omega
            have e1 : ks1 ++ F1 = [] := List.length_eq_zero_iff.1 (by omega)
            rw [e1] at hs1; simp at hs1
          | cons y r2 =>
            rw [hr1] at h1'; rw [hr2] at h2'
            rw [cr2_step_eq _ _ _ _ _ _ _ _ _ _ _ h1' h2']
            rw [ih (ks1 ++ F1) (ks2 ++ F2) (i1 + 1) (i2 + 1) (fuel + 1) _
              (by rw [sizeL_append]; omega) (by rw [sizeL_append]; omega) hR
              (by rw [drop_succ_of_drop_eq_cons h1', hr1])
              (by rw [drop_succ_of_drop_eq_cons h2', hr2])]
            simp [cr2add]
      · simp only [hab, if_false]
        have h1' : n1.drop i1 = ks1.length :: arities (flatL (ks1 ++ F1)) := by
          rw [h1, arities_flat_node, flatL_append, arities_append]; rfl
        have h2' : n2.drop i2 = ks2.length :: arities (flatL (ks2 ++ F2)) := by
          rw [h2, arities_flat_node, flatL_append, arities_append]; rfl
        rw [← cr2add_tapp]
        rw [cr2_step_ne _ _ _ _ _ _ _ _ _ _ h1' h2' (fun h => hab h.symm) (by omega)]
        rw [endSub_of_drop _ _ _ _ h1, endSub_of_drop _ _ _ _ h2]
        rw [ih F1 F2 _ _ fuel _ (by omega) (by omega) hlen' (drop_of_drop _ _ _ _ h1)
          (drop_of_drop _ _ _ _ h2)]
        simp [cr2add]

theorem commonSpec_eq_csF (t : RT) (ts : List RT) (g : Nat) (hg : t.size ≤ g) :
    commonSpec t.size (t :: ts) ((t :: ts).map fun _ => 0) =
      csF g (([t], 0) :: ts.map fun u => ([u], 0)) := by
  rw [csF_eq g 1 [t] 0 _ rfl (by simp) (by simpa [sizeL_cons] using hg)]
  simp only [specL, List.map_cons, hd_cons, List.map_map, Function.comp_def, tapp_nil_right]
  unfold cspec cS
  simp [Function.comp_def]

theorem common_region_spec_two (t1 t2 : RT) :
    commonRegion ([t1, t2].map fun t => arities (flat t)) =
      ((List.range 2).map fun j =>
          (commonSpec t1.size [t1, t2] ([t1, t2].map fun _ => 0)).1.map fun tp => tp.getD j 0,
       (List.range 2).map fun j =>
          (commonSpec t1.size [t1, t2] ([t1, t2].map fun _ => 0)).2.map fun tp => tp.getD j 0) := by
  rw [commonSpec_eq_csF t1 [t2] t1.size (Nat.le_refl _)]
  simp only [List.map_cons, List.map_nil, commonRegion, commonRegion2]
  rw [cr2_loop _ _ t1.size [t1] [t2] 0 0 _ _ (by simp [sizeL_cons])
    (by simp [sizeL_cons, size_flat]; omega) rfl (by simp [flatL_cons]) (by simp [flatL_cons])]
  simp [cr2add, List.range_succ]

/-! ### common tuples sit at equal levels -/

theorem getD_append_left' (l l' : List Nat) (n : Nat) (h : n < l.length) :
    (l ++ l').getD n 0 = l.getD n 0 := by
  simp [List.getD_eq_getElem?_getD, List.getElem?_append_left h]

theorem getD_append_right' (l l' : List Nat) (n : Nat) :
    (l ++ l').getD (l.length + n) 0 = l'.getD n 0 := by
  simp [List.getD_eq_getElem?_getD, List.getElem?_append_right]

/-- the property of a common tuple of two trees / forests whose first nodes sit at `p0`, `q0` -/
def LevelOK (lv1 lv2 : List Nat) (p0 q0 : Nat) (tp : List Nat) : Prop :=
  ∃ i j, tp = [p0 + i, q0 + j] ∧ i < lv1.length ∧ j < lv2.length ∧ lv1.getD i 0 = lv2.getD j 0

theorem levelOK_forest (B : Nat)
    (H : ∀ (t u : RT) (p0 q0 d : Nat), t.size ≤ B → ∀ tp ∈ (cspec [(t, p0), (u, q0)]).1,
      LevelOK (levelsRT d t) (levelsRT d u) p0 q0 tp) :
    ∀ (m : Nat) (F1 F2 : List RT) (p0 q0 d : Nat), sizeL F1 ≤ B → m ≤ F1.length → m ≤ F2.length →
      ∀ tp ∈ (specL cspec m [(F1, p0), (F2, q0)]).1,
        LevelOK (levelsL d F1) (levelsL d F2) p0 q0 tp := by
  intro m
  induction m with
  | zero => intro F1 F2 p0 q0 d _ _ _ tp htp; simp [specL] at htp
  | succ m ih =>
    intro F1 F2 p0 q0 d hB h1 h2 tp htp
    match F1, F2, h1, h2 with
    | t :: F1, u :: F2, h1, h2 =>
      rw [sizeL_cons] at hB
      simp only [specL, List.map_cons, List.map_nil, hd_cons, List.tail_cons, tapp,
        List.mem_append] at htp
      rcases htp with htp | htp
      · obtain ⟨i, j, rfl, hi, hj, hl⟩ := H t u p0 q0 d (by omega) tp htp
        refine ⟨i, j, rfl, ?_, ?_, ?_⟩
        · simp only [levelsL, List.length_append]; omega
        · simp only [levelsL, List.length_append]; omega
        · simp only [levelsL]
          rw [getD_append_left' _ _ _ hi, getD_append_left' _ _ _ hj, hl]
      · obtain ⟨i, j, rfl, hi, hj, hl⟩ := ih F1 F2 _ _ d (by omega) (by simpa using h1)
          (by simpa using h2) tp htp
        refine ⟨t.size + i, u.size + j, by simp [Nat.add_assoc], ?_, ?_, ?_⟩
        · simp only [levelsL, List.length_append, levelsRT_length]; omega
        · simp only [levelsL, List.length_append, levelsRT_length]; omega
        · simp only [levelsL]
          rw [← levelsRT_length d t, ← levelsRT_length d u, getD_append_right',
            getD_append_right', hl]

theorem levelOK_tree : ∀ (B : Nat) (t u : RT) (p0 q0 d : Nat), t.size ≤ B →
    ∀ tp ∈ (cspec [(t, p0), (u, q0)]).1, LevelOK (levelsRT d t) (levelsRT d u) p0 q0 tp := by
  intro B
  induction B with
  | zero => intro t u p0 q0 d h; have := size_pos t; omega
  | succ B ih =>
    intro t u p0 q0 d hB tp htp
    cases t with
    | node s ks =>
      cases u with
      | node s' ks' =>
        rw [size_node] at hB
        rw [cspec_cons] at htp
        simp only [List.all_cons, List.all_nil, Bool.and_true, RT.arity, RT.kids, List.map_cons,
          List.map_nil, beq_iff_eq] at htp
        have h0 : LevelOK (levelsRT d (.node s ks)) (levelsRT d (.node s' ks')) p0 q0 [p0, q0] :=
          ⟨0, 0, rfl, by simp [levelsRT], by simp [levelsRT], by simp [levelsRT]⟩
        split at htp
        · rename_i hk
          simp only [tapp, List.singleton_append, List.mem_cons] at htp
          rcases htp with rfl | htp
          · exact h0
          · obtain ⟨i, j, rfl, hi, hj, hl⟩ := levelOK_forest B ih ks.length ks ks' (p0 + 1) (q0 + 1)
              (d + 1) (by omega) (Nat.le_refl _) (by omega) tp htp
            refine ⟨i + 1, j + 1, by simp; omega, ?_, ?_, ?_⟩
            · simp only [levelsRT, List.length_cons]; omega
            · simp only [levelsRT, List.length_cons]; omega
            · simp only [levelsRT, List.getD_cons_succ, hl]
        · simp only [List.mem_singleton] at htp
          subst htp; exact h0

theorem commonRegion2_flat (t u : RT) :
    commonRegion2 (arities (flat t)) (arities (flat u)) = cr2add {} (cspec [(t, 0), (u, 0)]) := by
  unfold commonRegion2
  rw [cr2_loop _ _ t.size [t] [u] 0 0 _ _ (by simp [sizeL_cons])
    (by simp [sizeL_cons, size_flat]; omega) rfl (by simp [flatL_cons]) (by simp [flatL_cons])]
  rw [csF_eq t.size 1 [t] 0 _ rfl (by simp) (by simp [sizeL_cons])]
  simp [specL]

/-- every pair of the common lists of two trees: valid indices at equal levels -/
theorem commonRegion2_levels (a b : Flat) (ha : wfAux 1 (arities a) = true)
    (hb : wfAux 1 (arities b) = true) (k : Nat)
    (hk : k < (commonRegion2 (arities a) (arities b)).c1.length) :
    let r := commonRegion2 (arities a) (arities b)
    r.c1.getD k 0 < a.length ∧ r.c2.getD k 0 < b.length ∧
      (levels 0 (arities a)).getD (r.c1.getD k 0) 0 = (levels 0 (arities b)).getD (r.c2.getD k 0) 0 := by
  obtain ⟨t, rfl⟩ := parse a ha
  obtain ⟨u, rfl⟩ := parse b hb
  intro r
  have hr : r = cr2add {} (cspec [(t, 0), (u, 0)]) := commonRegion2_flat t u
  have hk' : k < (cspec [(t, 0), (u, 0)]).1.length := by
    have : r.c1.length = (cspec [(t, 0), (u, 0)]).1.length := by rw [hr]; simp [cr2add]
    rw [← this]; exact hk
  obtain ⟨i, j, htp, hi, hj, hl⟩ := levelOK_tree t.size t u 0 0 0 (Nat.le_refl _) _
    (List.getElem_mem hk')
  have e1 : r.c1.getD k 0 = i := by
    rw [hr]; simp [cr2add, List.getD_eq_getElem?_getD, hk', htp]
  have e2 : r.c2.getD k 0 = j := by
    rw [hr]; simp [cr2add, List.getD_eq_getElem?_getD, hk', htp]
  rw [e1, e2, levels_flat_self, levels_flat_self, size_flat, size_flat]
  rw [levelsRT_length] at hi hj
  exact ⟨hi, hj, hl⟩

theorem onePointX_spec (arity : Nat → Nat) (a b : Flat) (ha : WF arity a) (hb : WF arity b)
    (k : Nat) (hk : k < (commonRegion2 (arities a) (arities b)).c1.length) (coin : Bool) :
    WF arity (onePointX a b k coin) ∧ depth (onePointX a b k coin) ≤ max (depth a) (depth b) := by
  obtain ⟨hp, hq, hl⟩ := commonRegion2_levels a b ha.1 hb.1 k hk
  unfold onePointX
  simp only
  generalize (commonRegion2 (arities a) (arities b)).c1.getD k 0 = p at hp hl
  generalize (commonRegion2 (arities a) (arities b)).c2.getD k 0 = q at hq hl
  cases coin with
  | true =>
    simp only [if_true]
    have hs := subtree_wf arity a ha p hp
    refine ⟨concat_wf arity b _ hb hs q hq, ?_⟩
    have h1 := depth_concat b _ hb.1 hs.1 q hq
    have h2 := level_add_depth_subtree_le a ha.1 p hp
    omega
  | false =>
    simp only [Bool.false_eq_true, if_false]
    have hs := subtree_wf arity b hb q hq
    refine ⟨concat_wf arity a _ ha hs p hp, ?_⟩
    have h1 := depth_concat a _ ha.1 hs.1 p hp
    have h2 := level_add_depth_subtree_le b hb.1 q hq
    omega
